"""C03 — the Jacobian is the Kaufman variable-projection Jacobian of the residuals"""
import copy
import random

from . import states
from .common import *


def main(tier, seed, replay=None):
    run = Run("C03", tier, seed, "proof")
    rng = random.Random(seed)
    proof_obligations(run, "C03", extra_pins=("E2E",))
    binp = build_harness("dev")
    n = 60 if tier == "quick" else 1200
    cases = []
    fams = ["shared", "exp2c", "gaussc", "cosmix", "exp3", "rat2", "poly", "exp1l"]
    for i in range(n):
        fam = fams[i % len(fams)]
        c = gen_problem(rng, family=fam, quant=(8 if i % 8 else None), S=(rng.randint(1, 6 if i % 8 else 3) if i % 2 else None),
                        scalar=("f32" if i % 5 == 4 else "f64"))
        if i % 4 == 1:
            scale_up_for_eps(rng, c)    # a large absolute threshold below every singular value: the projector must stay the full one
        if i % 4 == 3 and c["scalar"] == "f64":
            # observations (hence coefficients and Jacobian entries) SMALL compared with a sizeable user threshold that is still below
            # every singular value: the threshold is about singular values of W Phi, never about the size of Jacobian entries
            c["build"] = [o for o in c["build"] if o[0] != "eps"] + [["eps", hx(rng.choice([1e-3, 1e-2, -1e-3]), c["scalar"])]]
            Ys = [o for o in c["build"] if o[0] == "obs"][-1]
            Ys[2] = [[hx(unhx(h) * 2.0 ** -12, c["scalar"]) for h in col] for col in Ys[2]]
            c["meta"]["small_observations"] = True
        c["ops"] = states.observe_at(rng, c, nsets=1)
        if i % 3 == 2:
            # a, b, a and the Jacobian at once: everything the Jacobian uses (U, coefficients, derivatives) belongs to a again
            a_prev = [o for o in c["ops"] if o[0] == "set"][-1][1]
            b_new = [hx(v, c["scalar"]) for v in distinct_params(rng, c["meta"]["P"], *c["meta"]["range"])]
            c["ops"] = c["ops"] + [["set", b_new], ["set", a_prev]] + states.OBS
        cases.append(c)
    # a basis function of FOUR nonlinear parameters declared in another order than the model's parameter list (builder-made models
    # route by name; hand-written twins for comparison): every derivative must be the one of the parameter it is registered under
    for j in range(8 if tier == "quick" else 64):
        c = gen_problem(rng, family=["mix4a", "mix4b", "mix4c", "mix4d"][j % 4], quant=(8 if j % 2 else None), builder_made=(j % 8 < 6),
                        scalar=("f32" if j % 8 == 5 else "f64"), S=(2 if j % 3 == 0 else None))
        c["ops"] = states.observe_at(rng, c, nsets=1)
        cases.append(c)
    # a builder-made function of EIGHT parameters (closure dispatch of the largest arities), next to its hand-written twin
    for j in range(4 if tier == "quick" else 24):
        c = gen_problem(rng, family=["sum8a", "sum8b"][j % 2], quant=8, builder_made=(j % 4 < 3), scalar="f64", N=6 + j % 3,
                        ctor=["new", "mrhs", "new_parallel", "mrhs"][j % 4])
        c["ops"] = states.observe_at(rng, c, nsets=1)
        cases.append(c)
    # five to seven nonlinear parameters (beyond any small block size), all four constructors
    for j in range(6 if tier == "quick" else 36):
        # (small dyadic model values and few samples in the quick tier: seven exact projections per state are expensive)
        c = gen_problem(rng, family=["p5", "p6", "p7"][j % 3], quant=(8 if j % 12 or tier == "quick" else None), builder_made=(j % 5 == 1),
                        ctor=["new_parallel", "mrhs_parallel", "new", "mrhs_parallel"][j % 4], scalar=("f32" if j % 7 == 6 else "f64"),
                        S=(2 if j % 2 else None), N=([6, 7, 8][j % 3] if tier == "quick" else None))
        c["ops"] = states.observe_at(rng, c, nsets=1)
        cases.append(c)
    results, nterms, nskip, hist = states.run_states(run, "C03", binp, cases, 4, lambda code: code >= 10 or code == 2, "Jacobian")
    # the code-shaped formula U (U^T (W D_k C)) - W D_k C replayed exactly on the cached U and the reported coefficients
    from . import num
    jterms, jidx = [], []
    for c, r in zip(cases, results):
        if r.get("steps") is None:
            continue
        st = r["steps"]
        for k, ob, jq, tb in states.triples(c, r):
            if k + 3 < len(st) and st[k + 3]["op"] == "svd" and len(jterms) < (60 if tier == "quick" else 1500):
                t = num.jac_impl_term(c, ob, tb, st[k + 3]["v"], jq)
                if t is not None:
                    jterms.append(t)
                    jidx.append((c, r, k))
    jcodes = coq_eval("C03", num.HEADER, jterms, per_file_timeout=1800)
    jhist = {}
    for (c, r, k), code, t in zip(jidx, jcodes, jterms):
        jhist[code] = jhist.get(code, 0) + 1
        if code != 0:
            run.violation("Jacobian, state at step %d: column %s is not U (U^T (W D_k C)) - W D_k C for the cached factors (code %d)"
                          % (k, code - 45 if code >= 45 else "?", code), {"case": c, "step": k, "coq_term": t})
    # a failing derivative at any index: no Jacobian at all (never a partially filled one)
    fcases = []
    for i in range(16 if tier == "quick" else 200):
        c = gen_problem(rng, family=fams[i % len(fams)], quant=8)
        for k in range(c["meta"]["P"]):
            d = copy.deepcopy(c)
            d["faults"] = {"deriv": [[k, 0]]}
            d["ops"] = [["jac"], ["observe"], ["jac"]]
            fcases.append(d)
    for i, c in enumerate(fcases):
        c["id"] = i
    fres = run_harness(binp, "scenario", fcases, os.path.join(COQ, "run", "C03"), timeout_ms=10000, tag="f")
    for c, r in zip(fcases, fres):
        if r.get("panic") is not None or r.get("timeout"):
            run.violation("Jacobian with a failing derivative panicked / hung", {"case": c, "result": r})
            continue
        st = r["steps"]
        if st[0]["v"] is not None:
            run.violation("a Jacobian was produced although derivative %d failed" % c["faults"]["deriv"][0][0], {"case": c, "result": r})
        elif st[2]["v"] is None or st[1]["v"]["resid"] is None:
            run.violation("after a transient derivative failure the next Jacobian request must succeed and the cache must be intact",
                          {"case": c, "result": r})
    run.coverage.update({
        "evaluations": nterms + len(fcases), "distinct_nontrivial": nterms - nskip + len(fcases),
        "rule": "Jacobian observed at the initial and one random parameter vector (far from any optimum: non-zero residuals) for 8 "
                "model families incl. a parameter shared by two functions and functions of two parameters, 1-6 right-hand sides, all "
                "weight kinds, four constructors, f32/f64; every column compared in exact arithmetic with -(I-P) W D_k C from the "
                "certified inverse of the Gram matrix (Model/Numeric.spec_jac_col); plus a failing derivative at every index",
        "code_histogram": {str(k): v for k, v in hist.items()}, "skipped_ill_conditioned": nskip, "failing_derivative_cases": len(fcases),
        "code_shaped_replays": len(jterms), "code_shaped_code_histogram": {str(k): v for k, v in jhist.items()}})
    run.samples = [{"ctor": c["ctor"], "scalar": c["scalar"], "meta": c["meta"]} for c in cases[:3]]
    run.assumptions = ["the differentiability of alpha -> C(alpha) (Golub-Pereyra) is not formalised; C03_gradient is the algebraic first-order identity",
                       "rounding margin 64 u kappa2 sqrt(N M)"]
    return run.finish()
