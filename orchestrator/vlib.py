"""Core of the verification orchestrator (python3, stdlib only).

Builds the harness against /repo's working tree, runs case files through it, writes Coq case
files, evaluates them with coqc (vm_compute), checks the proof obligations (make + pin file +
axiom audit), writes evidence / replays and implements the violation protocol."""
import fcntl
import json
import os
import re
import shutil
import struct
import subprocess
import sys
import time
from concurrent.futures import ThreadPoolExecutor
from fractions import Fraction

ROOT = os.path.dirname(os.path.dirname(os.path.abspath(__file__)))
REPO = os.environ.get("VERIF_REPO", "/repo")
CACHE = os.path.join(ROOT, ".cache")
COQ = os.path.join(ROOT, "coq")
HARNESS = os.path.join(ROOT, "harness")
EVID = os.path.join(ROOT, "evidence")
REPLAYS = os.path.join(ROOT, "replays")
NPROC = min(16, os.cpu_count() or 4)

ENV = dict(os.environ)
ENV.update({"CARGO_NET_OFFLINE": "true", "CARGO_TARGET_DIR": os.path.join(CACHE, "harness-target")})

ALLOWED_AXIOMS = {
    # axioms declared by Coq's standard library that a theorem may depend on (none expected)
    "functional_extensionality_dep", "proof_irrelevance", "classic", "JMeq_eq", "eq_rect_eq",
    "ClassicalDedekindReals.sig_forall_dec", "ClassicalDedekindReals.sig_not_dec",
    "FunctionalExtensionality.functional_extensionality_dep",
}


class CheckError(Exception):
    """infrastructure failure (not a property violation)"""


def log(msg):
    print(msg, flush=True)


# ------------------------------------------------------------------------------------------
# exact float handling

def f64_bits(x):
    return struct.unpack("<Q", struct.pack("<d", x))[0]


def bits_f64(b):
    return struct.unpack("<d", struct.pack("<Q", b))[0]


def f32_bits(x):
    try:
        return struct.unpack("<I", struct.pack("<f", x))[0]
    except OverflowError:            # rounds to infinity in binary32
        return 0x7F800000 if x > 0 else 0xFF800000


def bits_f32(b):
    return struct.unpack("<f", struct.pack("<I", b))[0]


def hx(x, scalar="f64"):
    """python float -> harness hex literal"""
    if scalar == "f32":
        return "s%08x" % f32_bits(x)
    return "d%016x" % f64_bits(x)


def unhx(s):
    """harness hex literal -> python float (exact; f32 widened)"""
    if s[0] == "d":
        return bits_f64(int(s[1:], 16))
    if s[0] == "s":
        return bits_f32(int(s[1:], 16))
    raise ValueError(s)


def hxbits(s):
    return int(s[1:], 16)


def frac(s):
    """harness hex literal -> exact Fraction (finite values only)"""
    return Fraction(unhx(s))


def is_finite_hex(s):
    v = unhx(s)
    return v == v and v not in (float("inf"), float("-inf"))


def round_to(x, scalar):
    """round a python float to the scalar width"""
    if scalar == "f32":
        return bits_f32(f32_bits(x))
    return x


# ------------------------------------------------------------------------------------------
# Coq term rendering

def cz(n):
    return "(%d)%%Z" % n


def cnat(n):
    assert 0 <= n < 5000, "nat literal too large"
    return "%d%%nat" % n


def cN(n):
    return "%d%%N" % n


def cbool(b):
    return "true" if b else "false"


def clist(items):
    return "[" + "; ".join(items) + "]"


def copt(x):
    return "None" if x is None else "(Some %s)" % x


def cq(fr):
    """exact rational -> term of type Qc via VP.Base.QcExec.qmk (num den)"""
    fr = Fraction(fr)
    return "(qmk (%d) %d)" % (fr.numerator, fr.denominator)


# ------------------------------------------------------------------------------------------
# locking

class Lock:
    def __init__(self, name):
        os.makedirs(CACHE, exist_ok=True)
        self.path = os.path.join(CACHE, name + ".lock")

    def __enter__(self):
        self.f = open(self.path, "w")
        fcntl.flock(self.f, fcntl.LOCK_EX)
        return self

    def __exit__(self, *a):
        fcntl.flock(self.f, fcntl.LOCK_UN)
        self.f.close()


# ------------------------------------------------------------------------------------------
# harness

def build_harness(profile="dev"):
    """(re)build the harness against /repo's working tree; returns the binary path"""
    with Lock("cargo"):
        lock_src = os.path.join(REPO, "Cargo.lock")
        if not os.path.exists(lock_src):
            lock_src = os.path.join(HARNESS, "Cargo.lock.base")
        shutil.copyfile(lock_src, os.path.join(HARNESS, "Cargo.lock"))
        cmd = ["cargo", "build", "--offline", "--quiet"]
        if profile == "release":
            cmd.append("--release")
        t0 = time.time()
        r = subprocess.run(cmd, cwd=HARNESS, env=ENV, capture_output=True, text=True, timeout=1500)
        if r.returncode != 0:
            raise CheckError("harness build failed against /repo's working tree:\n" + r.stderr[-4000:])
        sub = "release" if profile == "release" else "debug"
        binp = os.path.join(ENV["CARGO_TARGET_DIR"], sub, "vharness")
        log("[harness] built (%s) in %.1fs" % (profile, time.time() - t0))
        return binp


def run_harness(binp, suite, cases, workdir, timeout_ms=20000, shards=None, tag="h"):
    """run cases through the harness (sharded over processes); returns results in case order"""
    os.makedirs(workdir, exist_ok=True)
    n = len(cases)
    if n == 0:
        return []
    shards = shards or min(NPROC, max(1, n // 4))
    chunks = [cases[i::shards] for i in range(shards)]

    def one(i):
        inp = os.path.join(workdir, "%s_in_%d.json" % (tag, i))
        outp = os.path.join(workdir, "%s_out_%d.jsonl" % (tag, i))
        with open(inp, "w") as f:
            json.dump(chunks[i], f)
        budget = 60 + len(chunks[i]) * (timeout_ms / 1000.0 + 0.2)
        try:
            r = subprocess.run([binp, suite, inp, outp, str(timeout_ms)], capture_output=True, text=True,
                               timeout=budget)
        except subprocess.TimeoutExpired:
            raise CheckError("harness shard %d exceeded its time budget" % i)
        if r.returncode != 0:
            raise CheckError("harness crashed (exit %d): %s" % (r.returncode, r.stderr[-2000:]))
        with open(outp) as f:
            return [json.loads(l) for l in f if l.strip()]

    t0 = time.time()
    with ThreadPoolExecutor(max_workers=shards) as ex:
        outs = list(ex.map(one, range(shards)))
    log("[harness] ran %d cases (%s) in %.1fs" % (n, suite, time.time() - t0))
    res = [None] * n
    for i, o in enumerate(outs):
        if len(o) != len(chunks[i]):
            raise CheckError("harness returned %d results for %d cases" % (len(o), len(chunks[i])))
        for k, r in enumerate(o):
            if isinstance(r, dict) and "head" not in r:
                r["head"] = {}      # panicked / timed-out cases carry no head: readers may still ask r["head"].get(..)
            res[i + k * shards] = r
    return res


# ------------------------------------------------------------------------------------------
# Coq

EXEC_TARGETS = ["Exec/Common.vo", "Exec/C18Run.vo", "Exec/MBRun.vo", "Exec/ProtoRun.vo", "Exec/NumRun.vo", "Exec/BandRun.vo",
                "Model/Stats.vo"]


def coq_make(props=None):
    """regenerate Gen/*.v from the source, then a full .vo build (incremental; no -vos) — of the whole development (props=None: setup),
    or of what ONE property's obligations consist of: its Props file(s) with everything they depend on, and the executable
    instances the correspondence runs evaluate. A proof that no longer goes through after Gen/ was regenerated from a changed
    source thus fails the checks of the properties whose theorems depend on it, not every check."""
    from . import translator
    with Lock("coq"):
        translator.regenerate()
        mk = os.path.join(COQ, "Makefile")
        proj = os.path.join(COQ, "_CoqProject")
        if (not os.path.exists(mk)) or os.path.getmtime(mk) < os.path.getmtime(proj):
            subprocess.run(["coq_makefile", "-f", "_CoqProject", "-o", "Makefile"], cwd=COQ, check=True,
                           capture_output=True)
        t0 = time.time()
        targets = [] if props is None else ["Props/%s.vo" % q for q in props] + EXEC_TARGETS
        r = subprocess.run(["make", "-k", "-j%d" % NPROC] + targets, cwd=COQ, capture_output=True, text=True, timeout=3000)
        log("[coq] make%s: %s in %.1fs" % ("" if props is None else " (" + ", ".join(props) + " + executable instances)",
                                           "ok" if r.returncode == 0 else "FAILED", time.time() - t0))
        return r.returncode == 0, (r.stdout + r.stderr)[-6000:]


def audit_sources():
    """no Admitted / admit / Axiom / Parameter / ... anywhere in the development"""
    bad = []
    pat = re.compile(r"\b(Admitted|admit|Axiom|Axioms|Parameter|Parameters|Conjecture|Conjectures|Hypothesis\b(?!.*\bSection)"
                     r"|Unset\s+Guard|bypass_check|type-in-type|impredicative-set|Admit\s+Obligations)\b")
    for dp, dn, fn in os.walk(COQ):
        if os.path.basename(dp) == "run" or "/run/" in dp + "/":
            continue
        for f in fn:
            if not f.endswith(".v"):
                continue
            path = os.path.join(dp, f)
            text = open(path).read()
            # strip comments (nested)
            out, depth, i = [], 0, 0
            while i < len(text):
                if text.startswith("(*", i):
                    depth += 1
                    i += 2
                elif text.startswith("*)", i) and depth > 0:
                    depth -= 1
                    i += 2
                else:
                    if depth == 0:
                        out.append(text[i])
                    i += 1
            code = "".join(out)
            in_section = 0
            for ln in code.splitlines():
                s = ln.strip()
                if re.match(r"Section\b", s):
                    in_section += 1
                if re.match(r"End\b", s) and in_section > 0:
                    in_section -= 1
                m = re.search(r"\b(Admitted|admit|Axiom|Axioms|Parameter|Parameters|Conjecture|Conjectures|Unset\s+Guard"
                              r"|bypass_check|Admit\s+Obligations)\b", s)
                if m:
                    bad.append("%s: %s" % (os.path.relpath(path, COQ), s[:100]))
                if re.match(r"(Variable|Variables|Hypothesis|Hypotheses|Context)\b", s) and in_section == 0:
                    bad.append("%s: outside a section: %s" % (os.path.relpath(path, COQ), s[:100]))
    proj = open(os.path.join(COQ, "_CoqProject")).read()
    if "type-in-type" in proj or "impredicative-set" in proj:
        bad.append("_CoqProject: forbidden flag")
    return bad


def pin_check(prop):
    """compile the pin file of the property: statements spelled out + Print Assumptions.
    returns dict(obligations, discharged, axioms, ok, output)"""
    pin = os.path.join(COQ, "Pins", prop + ".v")
    text = open(pin).read()
    n_obl = len(re.findall(r"^\s*Print Assumptions\b", text, flags=re.M))
    rundir = os.path.join(COQ, "run", prop)
    os.makedirs(rundir, exist_ok=True)
    tmp = os.path.join(rundir, "Pin_%s.v" % prop)
    shutil.copyfile(pin, tmp)
    r = subprocess.run(["coqc", "-noglob", "-w", "none", "-Q", COQ, "VP", tmp], capture_output=True, text=True, timeout=900, cwd=rundir)
    out = r.stdout + r.stderr
    closed, n_ax_blocks, axioms, in_ax = 0, 0, set(), False
    for ln in out.splitlines():
        if ln.startswith("Closed under the global context"):
            closed += 1
            in_ax = False
        elif ln.startswith("Axioms:"):
            n_ax_blocks += 1
            in_ax = True
        elif in_ax:
            m = re.match(r"^([A-Za-z_][\w.']*)\s*(:|$)", ln)
            if m:
                axioms.add(m.group(1))
            elif ln.strip() == "" or not ln.startswith(" "):
                in_ax = False
    bad_axioms = sorted(a for a in axioms if a.split(".")[-1] not in ALLOWED_AXIOMS and a not in ALLOWED_AXIOMS)
    ok = (r.returncode == 0) and (closed + n_ax_blocks == n_obl) and not bad_axioms
    return {"obligations": n_obl, "discharged": (closed + n_ax_blocks) if r.returncode == 0 else 0,
            "axioms": sorted(axioms), "bad_axioms": bad_axioms, "ok": ok, "output": out[-4000:]}


def _parse_nested(body):
    """parse Coq's printing of a list (list N): returns list of lists of ints"""
    out, cur, depth, num = [], None, 0, ""
    for ch in body:
        if ch == "[":
            depth += 1
            if depth == 2:
                cur = []
        elif ch == "]":
            if num and cur is not None:
                cur.append(int(num))
            num = ""
            if depth == 2:
                out.append(cur)
                cur = None
            depth -= 1
        elif ch.isdigit():
            num += ch
        else:
            if num and cur is not None:
                cur.append(int(num))
            num = ""
    return out


def coq_eval(prop, header, terms, typ="N", shards=None, per_file_timeout=900):
    """evaluate a list of closed terms with vm_compute, sharded over coqc processes.
    Each term evaluates to an N code (typ='N'); returns the list of ints in order."""
    rundir = os.path.join(COQ, "run", prop)
    os.makedirs(rundir, exist_ok=True)
    n = len(terms)
    if n == 0:
        return []
    shards = shards or min(NPROC, max(1, n // 2))
    chunks = [terms[i::shards] for i in range(shards)]

    def one(i):
        path = os.path.join(rundir, "cases_%d.v" % i)
        with open(path, "w") as f:
            f.write(header + "\n")
            f.write("Set Printing Width 1000000.\nSet Printing Depth 1000000.\n")
            for k, t in enumerate(chunks[i]):
                f.write("Definition case_%d : %s := %s.\n" % (k, "N" if typ == "N" else "list N", t))
            f.write("Definition all_cases : list (%s) := [%s].\n" % ("N" if typ == "N" else "list N", "; ".join("case_%d" % k for k in range(len(chunks[i])))))
            f.write("Eval vm_compute in all_cases.\n")
        for attempt in (1, 2):
            try:
                r = subprocess.run(["coqc", "-noglob", "-w", "none", "-Q", COQ, "VP", path], capture_output=True, text=True,
                                   timeout=per_file_timeout, cwd=rundir)
            except subprocess.TimeoutExpired:
                raise CheckError("coqc timed out on %s" % path)
            if r.returncode == 0:
                break
            # a second attempt distinguishes a transient failure of the machine (memory pressure, a killed process) from a real one
            time.sleep(2)
        if r.returncode != 0:
            raise CheckError("coqc failed on %s:\n%s" % (path, (r.stdout + r.stderr)[-3000:]))
        out = r.stdout
        k = out.rfind("     = ")
        if k < 0:
            raise CheckError("cannot parse coqc output: " + out[-500:])
        body = out[k + 7:]
        e = body.rfind("\n     : ")
        if e >= 0:
            body = body[:e]
        body = re.sub(r"%[A-Za-z_]+", "", body).replace("::", "")
        if typ == "N":
            vals = [int(x) for x in re.findall(r"\d+", body)]
        else:
            vals = _parse_nested(body)
        if len(vals) != len(chunks[i]):
            raise CheckError("coqc returned %d values for %d cases" % (len(vals), len(chunks[i])))
        return vals

    t0 = time.time()
    with ThreadPoolExecutor(max_workers=shards) as ex:
        outs = list(ex.map(one, range(shards)))
    log("[coq] evaluated %d cases in %d shards: %.1fs" % (n, shards, time.time() - t0))
    res = [None] * n
    for i, o in enumerate(outs):
        for k, v in enumerate(o):
            res[i + k * shards] = v
    return res


def coq_show(prop, header, term):
    """evaluate one term and return Coq's printed value (for replay files)"""
    rundir = os.path.join(COQ, "run", prop)
    os.makedirs(rundir, exist_ok=True)
    path = os.path.join(rundir, "show.v")
    with open(path, "w") as f:
        f.write(header + "\nSet Printing Width 200.\nSet Printing Depth 100000.\nEval vm_compute in (%s).\n" % term)
    r = subprocess.run(["coqc", "-noglob", "-w", "none", "-Q", COQ, "VP", path], capture_output=True, text=True, timeout=600, cwd=rundir)
    return (r.stdout + r.stderr)[-20000:]


# ------------------------------------------------------------------------------------------
# findings, evidence, violations

def known_findings():
    path = os.path.join(ROOT, "known_findings.txt")
    out = []
    if os.path.exists(path):
        for ln in open(path):
            ln = ln.strip()
            if ln.startswith("open:"):
                m = re.match(r"open:\s*property=(\S+)\s+key=(\S+)\s*(.*)", ln)
                if m:
                    out.append({"property": m.group(1), "key": m.group(2), "text": m.group(3)})
    return out


class Run:
    """bookkeeping of one check run"""

    def __init__(self, prop, tier, seed, level):
        self.prop, self.tier, self.seed, self.level = prop, tier, seed, level
        self.t0 = time.time()
        self.violations = []
        self.known_hits = []
        self.coverage = {}
        self.assumptions = []
        self.samples = []
        os.makedirs(EVID, exist_ok=True)
        os.makedirs(REPLAYS, exist_ok=True)
        self._nrep = 0

    def violation(self, what, replay_obj, key=None, no_failing_input=False):
        """record a violation; `key` identifies the failing input class for known_findings"""
        for kf in known_findings():
            if kf["property"] == self.prop and key is not None and kf["key"] == key:
                if key not in [k for k, _ in self.known_hits]:
                    self.known_hits.append((key, kf["text"] or what))
                return
        if not no_failing_input and len([v for v in self.violations if not v[2]]) >= 5:
            self.more_violations = getattr(self, "more_violations", 0) + 1
            return
        self._nrep += 1
        path = os.path.join(REPLAYS, "%s-%d-%d.json" % (self.prop, self.seed, self._nrep))
        replay_obj = dict(replay_obj)
        replay_obj["property"] = self.prop
        replay_obj["what"] = what
        replay_obj["no_failing_input_found"] = no_failing_input
        with open(path, "w") as f:
            json.dump(replay_obj, f, indent=1, default=str)
        self.violations.append((what, path, no_failing_input))

    def finish(self):
        wall = time.time() - self.t0
        cov = dict(self.coverage)
        cov.setdefault("samples", self.samples[:3] if self.samples else [{"note": "no cases"}])
        ev = {"property_id": self.prop, "tier": self.tier, "seed": self.seed, "level": self.level,
              "coverage": cov, "assumptions": self.assumptions, "wall_s": round(wall, 2),
              "violations": len(self.violations)}
        with open(os.path.join(EVID, self.prop + ".json"), "w") as f:
            json.dump(ev, f, indent=1, default=str)
        for key, text in self.known_hits:
            print("KNOWN-FINDING: property=%s %s (%s)" % (self.prop, text, key))
        # a broken proof obligation / correspondence without a concrete failing input is reported only when
        # the search for a failing input found none; otherwise the concrete inputs are the replays
        concrete = [v for v in self.violations if not v[2]]
        shown = concrete if concrete else self.violations
        for what, path, nofail in shown[:5]:
            log("  violation: " + what)
            print("VIOLATION property=%s replay=%s%s" % (self.prop, path, " no-failing-input-found" if nofail else ""),
                  flush=True)
        if self.violations:
            return 1
        log("[%s] ok (%s, seed %d, %.1fs)" % (self.prop, self.tier, self.seed, wall))
        return 0


def proof_obligations(run, prop, extra_pins=()):
    """make + pin file(s) + audit; records coverage; returns True when all proof obligations check"""
    ok, out = coq_make([prop] + list(extra_pins))
    audit = audit_sources()
    pin = {"obligations": 0, "discharged": 0, "axioms": [], "ok": False, "output": ""}
    if ok:
        pin = pin_check(prop)
        for extra in extra_pins:
            e = pin_check(extra)
            pin = {"obligations": pin["obligations"] + e["obligations"], "discharged": pin["discharged"] + e["discharged"],
                   "axioms": sorted(set(pin["axioms"]) | set(e["axioms"])), "bad_axioms": pin["bad_axioms"] + e["bad_axioms"],
                   "ok": pin["ok"] and e["ok"], "output": pin["output"] + e["output"]}
    run.coverage.update({
        "obligations": max(pin["obligations"], 1), "discharged": pin["discharged"],
        "checker_cmd": "make -C coq Props/<property>.vo Exec/*.vo (coqc 8.16.1, full .vo build of the property's dependency cone) && coqc coq/Pins/%s.v (Check <thm> : <statement>; Print Assumptions)" % "{,".join([prop] + list(extra_pins)),
        "trusted_base": [
            "Coq 8.16.1 kernel incl. vm_compute (no native_compute)",
            "axioms reported by Print Assumptions for the pinned theorems: %s" % (", ".join(pin["axioms"]) or "none (closed under the global context)"),
            "source audit: no Admitted/admit/Axiom/Parameter/Conjecture/guard switches in coq/ (%s)" % ("clean" if not audit else "; ".join(audit)),
            "orchestrator/translator.py (regenerates coq/Gen/*.v from /repo on every run)",
            "correspondence check: harness/ (Rust, drives the real library), orchestrator/ (python3), Coq's printer for N",
        ]})
    if not ok:
        run.violation("Coq development no longer builds (a proof obligation regenerated from the source fails)",
                      {"theorem_or_correspondence": "make -C coq", "output": out}, no_failing_input=True)
        return False
    if audit:
        run.violation("source audit failed: " + "; ".join(audit), {"theorem_or_correspondence": "audit"},
                      no_failing_input=True)
        return False
    if not pin["ok"]:
        run.violation("pinned theorem statements / assumptions of %s no longer check" % prop,
                      {"theorem_or_correspondence": "coq/Pins/%s.v" % prop, "output": pin["output"],
                       "bad_axioms": pin.get("bad_axioms")}, no_failing_input=True)
        return False
    return True


def seed_tier(argv):
    import argparse
    ap = argparse.ArgumentParser()
    ap.add_argument("prop")
    ap.add_argument("--tier", default=os.environ.get("VERIF_TIER") or "quick")
    ap.add_argument("--seed", type=int, default=None)
    ap.add_argument("--replay", default=None)
    a = ap.parse_args(argv)
    tier = os.environ.get("VERIF_TIER") or a.tier
    if tier not in ("quick", "thorough"):
        tier = "quick"
    seed = a.seed
    if seed is None:
        try:
            seed = int(os.environ.get("VERIF_SEED", "20260930"))
        except ValueError:
            seed = 20260930
    return a.prop, tier, seed, a.replay


def replay_generic(prop, path):
    """re-run the single case of a replay file on the current tree and print both sides"""
    rp = json.load(open(path))
    print("replay of %s: %s" % (prop, rp.get("what")))
    binp = build_harness(rp.get("profile", "dev") if rp.get("profile") in ("dev", "release") else "dev")
    workdir = os.path.join(COQ, "run", prop)
    shown = False
    for key in ("case", "weighted", "sequential", "parallel"):
        c = rp.get(key)
        if isinstance(c, dict) and "model" in c and "ctor" in c:
            c = dict(c, id=0)
            r = run_harness(binp, "scenario", [c], workdir, shards=1, tag="replay")[0]
            print("--- implementation on the current tree (%s) ---" % key)
            print(json.dumps(r, indent=1)[:6000])
            shown = True
    if "names" in rp and "ops" in rp:
        from . import mb
        c = mb.to_harness(rp["names"], [tuple(o) for o in rp["ops"]], calls=[tuple(x) for x in rp["calls"]] if rp.get("calls") else None)
        c["id"] = 0
        r = run_harness(binp, "mbuilder", [c], workdir, shards=1, tag="replay")[0]
        print("--- implementation on the current tree ---")
        print(json.dumps(r, indent=1)[:6000])
        shown = True
    if rp.get("coq_term"):
        hdr = None
        t = rp["coq_term"]
        if t.startswith("num_"):
            from . import num
            hdr = num.HEADER
        elif t.startswith("mb_check"):
            from . import mb
            hdr = mb.HEADER
        elif t.startswith("c18_check"):
            from . import c18
            hdr = c18.HEADER
        elif t.startswith(("proto_check", "fit_check")):
            from . import hist
            hdr = hist.HEADER
        if hdr:
            print("--- model verdict on the recorded implementation output (0 = agreement) ---")
            out = coq_show(prop, hdr, t)
            k = out.rfind("     = ")
            print(out[k:k + 400] if k >= 0 else out[-800:])
            shown = True
    if rp.get("model_says"):
        print("--- model (recorded) ---")
        print(str(rp["model_says"])[-1500:])
    if not shown:
        print(json.dumps(rp, indent=1)[:4000])
    return 0
