"""C10 — problem state is a function of the current alpha only (no history, no garbage)"""
import random

from . import hist
from .common import *


def gen(rng, i):
    domain = i % 4 == 3
    rd = i % 6 == 3 and not domain
    c = gen_problem(rng, fail_below=(0.0 if domain else None), dirty_fail=(i % 8 == 7),
                    family=(rng.choice(SCALABLE) if i % 6 == 5 else rng.choice(list(RANKDEF)) if rd else None),
                    eps=(rng.choice([1e-6, 1e-5, -1e-6]) if rd or i % 6 == 1 else None))
    P = c["meta"]["P"]
    lo, hi = c["meta"]["range"]
    sc = c["scalar"]
    pool = [c["model"]["init"]] + [[hx(v, sc) for v in distinct_params(rng, P, lo, hi)] for _ in range(3)]
    # finite extremes: very large / very small parameters make the basis (nearly) rank deficient but stay finite
    if c["meta"]["family"] in ("exp2c", "exp1l", "rat2"):
        pool.append([hx(rng.choice([1e6, 1e-3, 64.0]), sc) for _ in range(P)])
    # parameters at which the model overflows to +-inf / NaN: a legal rejected state (no residuals), after which a good update
    # must give exactly the fresh-problem values again
    if c["meta"]["family"] in ("exp2c", "exp1l"):
        pool.append([hx(-1e-3, sc)] * P)
    if c["meta"]["family"] in ("exp3", "shared", "cosmix"):
        pool.append([hx(-3000.0, sc)] * P)
    # coinciding parameters with HUGE but finite model values (e^80): an exactly / numerically rank-deficient basis of enormous
    # norm — visiting it must leave no trace (e.g. in thresholds derived from the singular values)
    if c["meta"]["family"] in ("exp2c", "exp1l"):
        pool.append([hx(-0.03125, sc)] * P)
    if c["meta"]["family"] in ("exp3", "shared", "cosmix"):
        pool.append([hx(-30.0, sc)] * P)
    if P >= 2 and i % 3 == 0:
        # a vector with ONE non-finite component (NaN / +-inf), the others ordinary: it is what it is — no residuals for NaN, the
        # genuine limit values for infinity — and must not borrow anything from the parameters held before
        bad = list(rng.choice(pool[:4]))
        bad[rng.randrange(P)] = hx(rng.choice([float("nan"), float("inf"), float("-inf")]), sc)
        pool.append(bad)
    ops = []
    refs = []
    nsteps = rng.randint(4, 10)
    for _ in range(nsteps):
        r = rng.random()
        if r < 0.45:
            a = rng.choice(pool)
            if domain and rng.random() < 0.3:
                a = [hx(-2.0, sc)] + a[1:]
            else:
                refs.append(a)
            ops.append(["set", a])
        elif r < 0.75:
            ops.append(["observe"])
        else:
            ops.append(["jac"])
    final = rng.choice(pool)
    refs.append(final)
    refs.append(c["model"]["init"])
    if i % 2 == 0:
        # back and forth: final, other, final[, final] — a state remembered for "the previous parameters" must not resurface
        other = rng.choice([a for a in pool if a != final] or [final])
        ops += [["set", final], ["set", other]] + ([["set", final]] if i % 4 == 0 else [])
    # the final state: queried repeatedly
    ops += [["set", final], ["observe"], ["jac"], ["observe"], ["jac"], ["observe"]]
    seen = []
    for a in refs:
        if a not in seen:
            seen.append(a)
    ops += [["ref", a] for a in seen]
    if i % 5 == 2:
        # converting the problem between its flavours in the middle of a history is no event at all: everything shown afterwards
        # is still what a freshly built problem shows at those parameters (weights, data and threshold included)
        k = len(ops) // 2
        ops = ops[:k] + [["into_par"] if i % 10 == 2 else ["into_seq"]] + ops[k:]
    c["ops"] = ops
    if i % 6 == 5:
        rescale_case(c)         # the same history in units where all parameters are tiny in absolute terms
    return c


def repeated_queries_identical(case, res):
    """consecutive queries without an update in between must be bit-identical"""
    last_obs = last_jac = None
    for o, s in zip(case["ops"], res["steps"]):
        if o[0] == "set":
            last_obs = last_jac = None
        elif o[0] == "observe":
            if last_obs is not None and last_obs != s["v"]:
                return "two residual/coefficient queries without an update in between differ"
            last_obs = s["v"]
        elif o[0] == "jac":
            if last_jac is not None and last_jac != s["v"]:
                return "two Jacobian queries without an update in between differ"
            last_jac = s["v"]
    return None


def shapes_ok(case, res):
    m = case["meta"]
    for o, s in zip(case["ops"], res["steps"]):
        if o[0] == "observe" and s["v"]["resid"] is not None:
            if len(s["v"]["resid"]) != m["N"] * m["S"] or s["v"]["coef"]["r"] != m["M"] or s["v"]["coef"]["c"] != m["S"]:
                return "residual / coefficient shape"
        if o[0] == "jac" and s["v"] is not None:
            if s["v"]["r"] != m["N"] * m["S"] or s["v"]["c"] != m["P"]:
                return "Jacobian shape"
    return None


def main(tier, seed, replay=None):
    run = Run("C10", tier, seed, "proof")
    rng = random.Random(seed)
    proof_obligations(run, "C10", extra_pins=("E2E",))
    binp = build_harness("dev")
    workdir = os.path.join(COQ, "run", "C10")
    n = 160 if tier == "quick" else 2500
    cases = []
    # every small shape once (uninitialised matrices: eval of builder-made models and the Jacobian)
    k = 0
    for fam in ("exp1l", "exp2c", "exp3", "cosmix"):
        for N in range(1, 7):
            for S in (1, 2, 3):
                k += 1
                if tier == "quick" and k % 2:
                    continue
                c = gen_problem(rng, family=fam, N=N, S=S, ctor="mrhs" if k % 4 < 2 else "mrhs_parallel", builder_made=True)
                a = c["model"]["init"]
                c["ops"] = [["observe"], ["jac"], ["set", a], ["observe"], ["jac"], ["ref", a]]
                cases.append(c)
    # constructed state vs re-applied parameters, for every rank-deficient family and user thresholds of both signs
    for fam in RANKDEF:
        for e in (1e-6, -1e-5, 1e-3):
            for ctor in ("new", "mrhs_parallel"):
                c = gen_problem(rng, family=fam, ctor=ctor, eps=e, quant=8)
                a = c["model"]["init"]
                c["ops"] = [["observe"], ["jac"], ["set", a], ["observe"], ["jac"], ["ref", a]]
                cases.append(c)
    # +0.0 and -0.0 are different parameter values (they compare equal, the model values at them need not): builder-made and
    # hand-written models, both orders
    for fam in ("exp2c", "exp1l", "exp1"):
        for bm in (True, False):
            for first in (0.0, -0.0):
                c = gen_problem(rng, family=fam, ctor=rng.choice(["new", "mrhs"]), quant=8, builder_made=bm, scalar="f64")
                P0 = c["meta"]["P"]
                import math
                other = -0.0 if math.copysign(1.0, first) > 0 else 0.0
                a0 = [hx(first, "f64")] * P0
                a1 = [hx(other, "f64")] * P0
                c["ops"] = [["set", a0], ["observe"], ["jac"], ["set", a1], ["observe"], ["jac"], ["ref", a1], ["ref", a0]]
                cases.append(c)
    # neighbouring parameter vectors: an update that moves ONE component by an ulp, a few ulps or a small relative amount — also
    # when another component is many orders of magnitude larger (so that the step is far below machine epsilon times the norm of
    # the vector) — is an update like any other; full-precision model values, so that the neighbour's state differs in its bits
    for fam in ("cosmix", "exp2c", "shared", "rat2"):
        for bm in (True, False):
            for kind in ("ulp", "ulp4", 1e-9, 1e-5):
                for sc0 in ("f64", "f32"):
                    if sc0 == "f32" and kind not in ("ulp", 1e-5):
                        continue
                    c = gen_problem(rng, family=fam, quant=None, builder_made=bm, scalar=sc0,
                                    ctor=rng.choice(["new", "mrhs", "new_parallel", "mrhs_parallel"]))
                    base = list(c["model"]["init"])
                    if fam == "cosmix" and kind in (1e-9, 1e-5):
                        base = [hx(1e8 if sc0 == "f64" else 4096.0, sc0), hx(1e-3, sc0)]       # mixed scales
                    j = len(base) - 1
                    if kind == "ulp":
                        nbv = "%s%0*x" % (base[j][0], len(base[j]) - 1, hxbits(base[j]) + 1)
                    elif kind == "ulp4":
                        nbv = "%s%0*x" % (base[j][0], len(base[j]) - 1, hxbits(base[j]) + 4)
                    else:
                        nbv = hx(round_to(unhx(base[j]) * (1.0 + kind), sc0), sc0)
                    nb = base[:j] + [nbv]
                    c["ops"] = [["set", base], ["observe"], ["jac"], ["set", nb], ["observe"], ["jac"], ["set", base], ["set", nb],
                                ["observe"], ["jac"], ["ref", nb], ["ref", base]]
                    c["meta"]["neighbour"] = str(kind)
                    cases.append(c)
    # the parallel flavour inside small thread pools (one task then computes several Jacobian columns in a row): three to seven
    # nonlinear parameters, pools of 1 and 2 threads — whatever a task keeps between two columns must not show
    for fam in ("exp3", "p5", "p7", "mix4a"):
        for t in (1, 2):
            for ctor in ("new_parallel", "mrhs_parallel"):
                c = gen_problem(rng, family=fam, ctor=ctor, quant=None, scalar="f64", weights=["none", "pos"][t % 2])
                lo_, hi_ = c["meta"]["range"]
                a = [hx(v, "f64") for v in distinct_params(rng, c["meta"]["P"], lo_, hi_)]
                b = [hx(v, "f64") for v in distinct_params(rng, c["meta"]["P"], lo_, hi_)]
                c["threads"] = t
                c["ref_sequential"] = True
                c["ops"] = [["observe"], ["jac"], ["set", a], ["observe"], ["jac"], ["jac"], ["set", b], ["jac"], ["set", a], ["observe"], ["jac"],
                            ["ref", a], ["ref", b], ["ref", c["model"]["init"]]]
                cases.append(c)
    nshape = len(cases)
    for i in range(n):
        cases.append(gen(rng, i))
    for i, c in enumerate(cases):
        c["id"] = i
    results = run_harness(binp, "scenario", cases, workdir, timeout_ms=10000)

    def classify(c, r):
        if r.get("panic") is not None or r.get("timeout"):
            return "panic / hang"
        return repeated_queries_identical(c, r) or shapes_ok(c, r)

    for c, r in zip(cases, results):
        if r.get("panic") is None and not r.get("timeout") and r.get("head", {}).get("build") == "ok":
            d = repeated_queries_identical(c, r) or shapes_ok(c, r)
            if d:
                run.violation("history: " + d, {"case": c, "implementation": r})
            # the harness's models (hand-written and builder-made) store exactly the vector they accept: after a successful update the
            # parameters in effect are bit for bit the ones applied (+0.0 and -0.0 are different values)
            lg = r["steps"][-1].get("log") or []
            for e in lg:
                if e[0] == "S" and e[2] and e[3] is not None and e[1] != e[3]:
                    run.violation("history: a successful update to %r left the parameters %r in effect" % ([unhx(h) for h in e[1]], [unhx(h) for h in e[3]]),
                                  {"case": c, "log_entry": e})
                    break
    nok, nprov = hist.evaluate(run, "C10", cases, results, what="history", classify=classify)
    # release profile: whatever it shows differently from the dev profile goes through the same judgement
    extra = release_differences("scenario", cases, results, workdir, timeout_ms=10000)
    if extra:
        for c, r in extra:
            if r.get("panic") is None and not r.get("timeout") and r.get("head", {}).get("build") == "ok":
                d = repeated_queries_identical(c, r) or shapes_ok(c, r)
                if d:
                    run.violation("history (release profile): " + d, {"case": c, "implementation": r, "profile": "release"})
        hist.evaluate(run, "C10", [c for c, r in extra], [r for c, r in extra], what="history (release profile)", classify=classify)
    run.coverage["release_profile_cases_differing_from_dev"] = len(extra)
    run.coverage.update({
        "evaluations": len(cases), "distinct_nontrivial": len(set(json.dumps([c["model"], c["build"], c["ops"]], sort_keys=True) for c in cases)),
        "rule": "%d shape cases (every N in 1..6 x S in 1..3 over models with M = 2,3,3,4 and P = 1,2,3,2: builder-made, so the "
                "uninitialised evaluation matrix and the uninitialised Jacobian are both exercised) and %d random histories of 4-10 "
                "updates / queries / Jacobian requests (repeated, failing — rejected negative parameters with and without the model "
                "storing them — and finite extreme parameters), each ending in an update followed by repeated queries; every "
                "quantity shown is compared bit for bit with a freshly built problem at the parameters the model attributes it to"
                % (nshape, n),
        "traces_validated_against_impl": nok, "provenance_checks_bit_exact": nprov})
    run.samples = [{"ctor": c["ctor"], "family": c["meta"]["family"], "ops": [o if o[0] != "ref" else ["ref"] for o in c["ops"]][:12]} for c in cases[nshape:nshape + 2]]
    run.assumptions = ["a fresh allocation holding garbage would differ from the reference problem's values (the Coq theorem C10_no_poison covers all shapes)"]
    return run.finish()
