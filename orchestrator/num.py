"""numeric correspondence: implementation outputs -> Model/Numeric.v acceptance predicates (Exec/NumRun.v)"""
from fractions import Fraction

from .common import *

HEADER = ("From Coq Require Import ZArith QArith Qcanon NArith List.\nImport ListNotations.\n"
          "From mathcomp Require Import all_ssreflect all_algebra.\n"
          "From VP Require Import Base.QcField Base.SeqMx Model.Numeric Exec.NumRun.\n"
          "Local Open Scope Z_scope.\n")


def qf(h):
    fr = frac(h)
    return "(q (%d) %d)" % (fr.numerator, fr.denominator)


def qfr(fr):
    fr = Fraction(fr)
    return "(q (%d) %d)" % (fr.numerator, fr.denominator)


def sseq(items):
    return "[:: " + "; ".join(items) + "]" if items else "[::]"


def vec(hexes):
    return sseq([qf(h) for h in hexes])


def mat(m):
    """harness matrix record {r,c,cols} -> smx term"""
    return sseq([vec(col) for col in m["cols"]])


def mat_cols(cols):
    return sseq([vec(col) for col in cols])


def all_finite_mat(m):
    return all(is_finite_hex(h) for col in m["cols"] for h in col)


def params_for(scalar, hard=False):
    """(cu2, floor2, k2max) as Coq terms"""
    if scalar == "f64":
        return "(q 1 (2^94))", "(q 1 (2^60))", "(q %d 1)" % (10 ** 8 if not hard else 10 ** 10)
    return "(q 1 (2^36))", "(q 1 (2^60))", "(q 300 1)"


def cnatm(n):
    return "%d%%N" % n  # nat literal in MathComp files (nat_scope is %N there)


def eps_of(case):
    """the threshold in effect: |last epsilon call| or machine epsilon (as Fraction)"""
    es = [o for o in case["build"] if o[0] == "eps"]
    if es:
        return abs(frac(es[-1][1]))
    return Fraction(1, 2 ** 52) if case["scalar"] == "f64" else Fraction(1, 2 ** 23)


def eps2_of(case):
    e = eps_of(case)
    return qfr(e * e)


def rankdef_term(case, observe, tables, sel, mode=3):
    """Coq term for a state whose basis matrix is exactly rank deficient; sel = independent columns"""
    if observe["resid"] is None or observe["coef"] is None or tables["phi"] is None:
        return None
    if not all_finite_mat(tables["phi"]):
        return None
    m = case["meta"]
    w = weights_of(case)
    cu2, floor2, k2max = params_for(case["scalar"])
    if not all_finite_mat(observe["coef"]) or not all(is_finite_hex(h) for h in observe["resid"]):
        return "8%N"
    return "num_rankdef %s %s %s %s %s %s %s %s %s %s %s %s %s" % (
        cnatm(mode), cu2, floor2, k2max, eps2_of(case), cnatm(m["N"]), cnatm(m["M"]), "None" if w is None else "(Some %s)" % vec(w),
        mat(tables["phi"]), mat_cols(obs_of(case)), sseq([cnatm(j) for j in sel]), mat(observe["coef"]), vec(observe["resid"]))


def svd_term(case, observe, tables, svd):
    """Coq term num_svd ...: the cached SVD factors against the contract svd_spec and the code-shaped solve"""
    if svd is None or svd.get("u") is None or svd.get("vt") is None or observe["coef"] is None or tables["phi"] is None:
        return None
    mats = [svd["u"], svd["vt"], tables["phi"], observe["coef"]]
    if not all(all_finite_mat(x) for x in mats) or not all(is_finite_hex(h) for h in svd["s"]):
        return None
    m = case["meta"]
    w = weights_of(case)
    cu2, floor2, _ = params_for(case["scalar"])
    return "num_svd %s %s %s %s %s %s %s %s %s %s %s %s" % (
        cu2, floor2, qfr(eps_of(case)), cnatm(m["N"]), cnatm(m["M"]), "None" if w is None else "(Some %s)" % vec(w),
        mat(tables["phi"]), mat_cols(obs_of(case)), mat(svd["u"]), vec(svd["s"]), mat(svd["vt"]), mat(observe["coef"]))


def jac_impl_term(case, observe, tables, svd, jac):
    if svd is None or svd.get("u") is None or jac is None or observe["coef"] is None or any(d is None for d in tables["d"]):
        return None
    mats = [svd["u"], observe["coef"], jac] + list(tables["d"])
    if not all(all_finite_mat(x) for x in mats):
        return None
    m = case["meta"]
    w = weights_of(case)
    cu2, floor2, _ = params_for(case["scalar"])
    return "num_jac_impl %s %s %s %s %s %s %s %s %s" % (
        cu2, floor2, cnatm(m["N"]), cnatm(m["M"]), "None" if w is None else "(Some %s)" % vec(w), mat(svd["u"]),
        sseq([mat(d) for d in tables["d"]]), mat(observe["coef"]), mat(jac))


SVD_CODES = {2: "shapes", 40: "U^T U is not the identity", 41: "V^T V^T^T is not the identity",
             42: "U diag(sigma) V^T does not reconstruct the weighted basis matrix", 43: "negative singular value",
             44: "coefficients are not V diag(sigma_i > eps ? 1/sigma_i : 0) U^T (W Y) for the cached factors and the configured threshold"}


def weights_of(case):
    ws = [o for o in case["build"] if o[0] == "weights"]
    if not ws:
        return None
    return ws[-1][1]


def obs_of(case):
    return [o for o in case["build"] if o[0] == "obs"][-1][2]


def state_term(case, observe, tables, jac=None, with_jac=True, mode=7):
    """Coq term num_state ... for one observed state; None if not checkable (absent / non-finite)"""
    if observe["resid"] is None or observe["coef"] is None or tables["phi"] is None:
        return None
    if not all_finite_mat(tables["phi"]) or not all_finite_mat(observe["coef"]):
        return None
    m = case["meta"]
    sc = case["scalar"]
    w = weights_of(case)
    Y = obs_of(case)
    ds = "[::]"
    J = "None"
    if with_jac and jac is not None and all(d is not None for d in tables["d"]):
        if all(all_finite_mat(d) for d in tables["d"]) and all_finite_mat(jac):
            ds = sseq([mat(d) for d in tables["d"]])
            J = "(Some %s)" % mat(jac)
    cu2, floor2, k2max = params_for(sc)
    eps2 = eps2_of(case)
    o = ("{| so_n := %s; so_m := %s; so_w := %s; so_Phi := %s; so_Y := %s; so_Ds := %s; so_C := %s; so_R := %s; so_J := %s |}"
         % (cnatm(m["N"]), cnatm(m["M"]), "None" if w is None else "(Some %s)" % vec(w), mat(tables["phi"]), mat_cols(Y), ds,
            mat(observe["coef"]), vec(observe["resid"]), J))
    return "num_state %s %s %s %s %s %s" % (cnatm(mode), cu2, floor2, k2max, eps2, o)


def own_resid_term(case, observe, tables):
    """Coq term num_own_resid ...: residuals shown vs W (Y - Phi C) for the coefficients shown — any shape, any rank"""
    if observe["resid"] is None or observe["coef"] is None or tables["phi"] is None:
        return None
    if not all_finite_mat(tables["phi"]) or not all_finite_mat(observe["coef"]) or not all(is_finite_hex(h) for h in observe["resid"]):
        return None
    m = case["meta"]
    w = weights_of(case)
    cu2, floor2, _ = params_for(case["scalar"])
    o = ("{| so_n := %s; so_m := %s; so_w := %s; so_Phi := %s; so_Y := %s; so_Ds := [::]; so_C := %s; so_R := %s; so_J := None |}"
         % (cnatm(m["N"]), cnatm(m["M"]), "None" if w is None else "(Some %s)" % vec(w), mat(tables["phi"]), mat_cols(obs_of(case)),
            mat(observe["coef"]), vec(observe["resid"])))
    return "num_own_resid %s %s %s" % (cu2, floor2, o)


STATE_CODES = {1: "rank deficient or too ill-conditioned for the tolerance rule (not compared)", 2: "shapes differ",
               3: "coefficients are not the weighted least-squares solution",
               4: "residuals are not W(Y - Phi C) for the least-squares coefficients",
               5: "residuals are not W(Y - Phi C) for the coefficients the implementation itself reports"}


def state_code_text(code):
    if code >= 10:
        return "Jacobian column %d is not -(I - P) W D_k C" % (code - 10)
    return STATE_CODES.get(code, "code %d" % code)


# ------------------------------------------------------------------------------------------
# statistics

STATS_CODES = {1: "no specification (singular / too ill-conditioned; not compared)", 20: "degrees of freedom are not N - M - P",
               21: "weighted residuals are not W(y - Phi c)", 22: "reduced chi^2 is not ||r_w||^2 / (N - M - P)",
               23: "regression standard error is not sqrt(reduced chi^2)", 24: "covariance is not chi^2 (H^T H)^-1 with H = W [Phi | D_k c]",
               25: "covariance is not symmetric", 26: "negative variance", 27: "variance accessors are not the diagonal segments (linear first)",
               28: "correlation is not covariance / sqrt(c_ii c_jj) within [-1, 1]", 29: "confidence sigma is not sqrt(j_i^T Cov j_i) (unweighted j_i)",
               30: "confidence band radius is not t((1+p)/2; dof) * sigma_i", 31: "shapes"}


def stats_term(case, fitv, tables):
    """Coq term num_stats ... ; the fit result `fitv` carries 'stats', the tables are those at the final parameters"""
    st = fitv["stats"]
    m = case["meta"]
    sc = case["scalar"]
    w = weights_of(case)
    y = obs_of(case)[0]
    c = fitv["lin_coef"]["cols"][0]
    mats = [st["cov"], st["corr"], tables["phi"]] + list(tables["d"])
    if any(x is None for x in mats) or not all(all_finite_mat(x) for x in mats):
        return None
    vecs = [st["wres"], st["nl_var"], st["lin_var"], st["usigma"], c, [st["chi2"], st["rse"]]]
    if not all(is_finite_hex(h) for v in vecs for h in v):
        return None
    bands = []
    for b in st["bands"]:
        if b.get("panic"):
            continue
        if not all(is_finite_hex(h) for h in b["radius"]) or b["t"] is None:
            continue        # a non-finite radius is judged by the caller (C14)
        bands.append("(%s, %s)" % (qfr(Fraction(b["t"])), vec(b["radius"])))
    cu2, floor2, _ = params_for(sc)
    k2max = "(q 1000000 1)" if sc == "f64" else "(q 50 1)"
    o = ("{| sb_dof := %s; sb_rw := %s; sb_chi2 := %s; sb_rse := %s; sb_cov := %s; sb_corr := %s; sb_lin_var := %s; "
         "sb_nl_var := %s; sb_usigma := %s; sb_bands := %s |}"
         % (cnatm(st["dof"]), vec(st["wres"]), qf(st["chi2"]), qf(st["rse"]), mat(st["cov"]), mat(st["corr"]), vec(st["lin_var"]),
            vec(st["nl_var"]), vec(st["usigma"]), sseq(bands)))
    return "num_stats %s %s %s %s %s %s %s %s %s %s %s %s" % (
        cu2, floor2, k2max, cnatm(m["N"]), cnatm(m["M"]), cnatm(m["P"]), "None" if w is None else "(Some %s)" % vec(w),
        mat(tables["phi"]), sseq([mat(d) for d in tables["d"]]), vec(y), vec(c), o)
