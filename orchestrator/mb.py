"""shared by C15 / C16 / C17: model-builder programs on the real SeparableModelBuilder vs Model/ModelBuilder.v"""
import re

from .common import *

HEADER = ("From Coq Require Import List Bool Arith ZArith NArith.\nImport ListNotations.\n"
          "From VP Require Import Model.ModelBuilder Model.SepModel Exec.Common Exec.MBRun.\n")


def name_str(i):
    if i == 0:
        return ""
    if i >= 1000:
        return "c,%d" % i
    if 500 <= i < 600:
        return "v%d" % (i - 500)       # 500 + k and 600 + k differ in ASCII case only
    if 600 <= i < 700:
        return "V%d" % (i - 600)
    if 700 <= i < 800:
        return "w%d" % (i - 700)       # 700 + k, 800 + k, 900 + k differ in surrounding whitespace only
    if 800 <= i < 900:
        return "w%d " % (i - 800)
    if 900 <= i < 1000:
        return " w%d" % (i - 900)
    return "p%d" % i


def name_id(s):
    if s == "":
        return 0
    if s.startswith("c,"):
        return int(s[2:])
    if s.startswith("v"):
        return 500 + int(s[1:])
    if s.startswith("V"):
        return 600 + int(s[1:])
    if s.startswith(" w"):
        return 900 + int(s[2:])
    if s.startswith("w") and s.endswith(" "):
        return 800 + int(s[1:-1])
    if s.startswith("w"):
        return 700 + int(s[1:])
    return int(s[1:])


def to_harness(names, ops, scalar="f64", calls=None):
    prog = [["new", [name_str(i) for i in names]]]
    for o in ops:
        k = o[0]
        if k == "function":
            e = ["function", [name_str(i) for i in o[1]], o[2], o[3]]
            if len(o) > 4 and (o[4] is not None or len(o) > 5):
                e.append(o[4])
            if len(o) > 5 and o[5] is not None:
                e.append([float(o[5][0]), o[5][1]])
            prog.append(e)
        elif k == "partial_deriv":
            e = ["partial_deriv", name_str(o[1]), o[2], o[3]]
            if len(o) > 4 and (o[4] is not None or len(o) > 5):
                e.append(o[4])
            if len(o) > 5 and o[5] is not None:
                e.append([float(o[5][0]), o[5][1]])
            prog.append(e)
        elif k == "invariant":
            e = ["invariant", o[1]]
            if len(o) > 2 and o[2] is not None:
                e.append(o[2])
            prog.append(e)
        elif k == "x":
            prog.append(["x", [hx(float(v), scalar) for v in o[1]]])
        elif k == "init":
            prog.append(["init", [hx(float(v), scalar) for v in o[1]]])
    c = {"scalar": scalar, "prog": prog}
    if calls is not None:
        cs = []
        for cl in calls:
            if cl[0] == "set":
                cs.append(["set", [hx(float(v), scalar) for v in cl[1]]])
            elif cl[0] == "deriv":
                cs.append(["deriv", "max" if cl[1] == "max" else cl[1]])
            else:
                cs.append([cl[0]])
        c["calls"] = cs
    return c


def cfn(arity, tag, ln=None, lenif=None):
    return "{| fn_arity := %s; fn_tag := %s; fn_len := %s; fn_len_if := %s |}" % (
        cnat(arity), cz(tag), copt(None if ln is None else cnat(ln)),
        "None" if lenif is None else "(Some (%s, %s))" % (cz(lenif[0]), cnat(lenif[1])))


def cnames(l):
    return clist([cN(i) for i in l])


def ops_to_coq(ops):
    out = []
    for o in ops:
        k = o[0]
        if k == "function":
            out.append("OFunction %s %s" % (cnames(o[1]), cfn(o[2], o[3], o[4] if len(o) > 4 else None, o[5] if len(o) > 5 else None)))
        elif k == "partial_deriv":
            out.append("OPartialDeriv %s %s" % (cN(o[1]), cfn(o[2], o[3], o[4] if len(o) > 4 else None, o[5] if len(o) > 5 else None)))
        elif k == "invariant":
            ln = o[2] if len(o) > 2 else None
            out.append("OInvariant {| f0_tag := %s; f0_len := %s |}" % (cz(o[1]), copt(None if ln is None else cnat(ln))))
        elif k == "x":
            out.append("OIndepVar %s" % clist([cz(v) for v in o[1]]))
        elif k == "init":
            out.append("OInitParams %s" % clist([cz(v) for v in o[1]]))
    return clist(out)


BIGIDX = 4000  # stands for usize::MAX in the model (nat literals must stay small)


def calls_to_coq(calls):
    out = []
    for c in calls or []:
        if c[0] == "set":
            out.append("MSet %s" % clist([cz(v) for v in c[1]]))
        elif c[0] == "params":
            out.append("MParams")
        elif c[0] == "eval":
            out.append("MEval")
        elif c[0] == "deriv":
            out.append("MDeriv %s" % cnat(BIGIDX if c[1] == "max" else c[1]))
    return clist(out)


def _strs(s):
    return re.findall(r'"((?:[^"\\]|\\.)*)"', s)


def _nums(s):
    return [int(x) for x in re.findall(r"\d+", s)]


def build_err_to_coq(kind, dbg):
    if kind in ("EmptyParameters", "EmptyModel", "MissingX", "MissingInitialParameters", "IllegalCallToPartialDeriv"):
        return kind
    ss = [name_id(s) for s in _strs(dbg)]
    if kind == "DuplicateParameterNames":
        return "DuplicateParameterNames %s" % cnames(ss)
    if kind in ("FunctionParameterNotInModel", "DuplicateDerivative", "UnusedParameter", "CommaInParameterNameNotAllowed"):
        return "%s %s" % (kind, cN(ss[0]))
    if kind in ("InvalidDerivative", "MissingDerivative"):
        return "%s %s %s" % (kind, cN(ss[0]), cnames(ss[1:]))
    if kind == "IncorrectParameterCount":
        m = re.search(r"actual: (\d+), expected: (\d+)", dbg)
        return "IncorrectParameterCount %s %s" % (cnat(int(m.group(1))), cnat(int(m.group(2))))
    return None


def model_err_to_coq(dbg):
    if dbg.startswith("UnexpectedFunctionOutput"):
        m = re.search(r"expected_length: (\d+), actual_length: (\d+)", dbg)
        return "UnexpectedFunctionOutput %s %s" % (cnat(int(m.group(1))), cnat(int(m.group(2))))
    if dbg.startswith("DerivativeIndexOutOfBounds"):
        k = int(re.search(r"index: (\d+)", dbg).group(1))
        return "DerivativeIndexOutOfBounds %s" % cnat(min(k, BIGIDX))
    if dbg.startswith("IncorrectParameterCount"):
        m = re.search(r"expected: (\d+), actual: (\d+)", dbg)
        return "IncorrectParameterCountM %s %s" % (cnat(int(m.group(1))), cnat(int(m.group(2))))
    return None


def ival(h):
    v = unhx(h)
    if v != v or v in (float("inf"), float("-inf")) or v != int(v):
        raise ValueError("non-integer value from an integer-valued closure: %r" % v)
    return int(v)


def mat_to_coq(m):
    return clist([clist([cz(ival(h)) for h in col]) for col in m["cols"]])


def expected_to_coq(res, calls):
    """harness record -> mexpected term (None if it cannot be expressed)"""
    if res.get("panic") is not None:
        return "EPanic"
    h = res["head"]
    if not h["ok"]:
        e = build_err_to_coq(h["kind"], h["dbg"])
        return None if e is None else "EErr (%s)" % e
    rets = []
    for c, r in zip(calls or [], h["calls"]):
        if c[0] == "set":
            rets.append("TSet %s" % ("None" if r["ok"] else "(Some (%s))" % model_err_to_coq(r["dbg"])))
        elif c[0] == "params":
            rets.append("TParams %s" % clist([cz(ival(x)) for x in r["v"]]))
        else:
            if r["ok"]:
                rets.append("TMat (ROk %s)" % mat_to_coq(r["v"]))
            else:
                rets.append("TMat (RErr (%s))" % model_err_to_coq(r["dbg"]))
    return "EOk %s %s %s %s %s" % (cnames([name_id(s) for s in h["names"]]), cnat(h["nfuncs"]), cnat(h["nout"]),
                                   clist([cz(ival(x)) for x in h["init"]]), clist(rets))


def term(names, ops, calls, res):
    ex = expected_to_coq(res, calls)
    if ex is None:
        return None
    return "mb_check %s %s %s (%s)" % (cnames(names), ops_to_coq(ops), calls_to_coq(calls), ex)


def show_term(names, ops):
    return "mb_run %s %s" % (cnames(names), ops_to_coq(ops))


def valid_spec(names, ops, nargs_x=True):
    """independent declarative validity predicate, written from the property text (used to label
    the distribution of generated programs and as a second opinion next to the Coq model)"""
    if len(names) == 0 or len(set(names)) != len(names) or any(n >= 1000 for n in names):
        return False
    nfun = 0
    used = set()
    have_x = False
    have_init = False
    i = 0
    while i < len(ops):
        o = ops[i]
        if o[0] == "partial_deriv":
            return False  # not directly after a function
        if o[0] == "function":
            fps, ar = o[1], o[2]
            if len(fps) == 0 or len(set(fps)) != len(fps) or any(n >= 1000 for n in fps):
                return False
            if any(n not in names for n in fps) or ar != len(fps):
                return False
            ds = []
            j = i + 1
            while j < len(ops) and ops[j][0] == "partial_deriv":
                ds.append(ops[j])
                j += 1
            dn = [d[1] for d in ds]
            if len(set(dn)) != len(dn) or set(dn) != set(fps):
                return False
            if any(d[2] != len(fps) for d in ds):
                return False
            used |= set(fps)
            nfun += 1
            i = j
            continue
        if o[0] == "invariant":
            nfun += 1
        elif o[0] == "x":
            have_x = True
        elif o[0] == "init":
            if len(o[1]) != len(names):
                return False
            have_init = True
        i += 1
    return nfun >= 1 and used == set(names) and have_x and have_init
