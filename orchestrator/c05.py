"""C05 — fitting converges to a least-squares minimiser on identifiable problems (partial: level 'other')"""
import math
import random

from . import fits
from .common import *

CERT = {
    # certified families: basis, parameter generator
    "exp2": ([["expdecay", 0], ["expdecay", 1]], 2),
    "exp2o": ([["expdecay", 0], ["expdecay", 1], ["const"]], 2),
    "exp3o": ([["expdecay", 0], ["expdecay", 1], ["expdecay", 2], ["const"]], 3),
    "gaussdo": ([["gauss", 0, 1], ["expdecay", 2], ["const"]], 3),
    "exp1o": ([["expdecay", 0], ["const"]], 1),
}


def truth_for(rng, fam, xmax):
    if fam == "exp2o":
        # with an offset the slow decay must die out well inside the x range: at tau_2 = 0.4 .. 0.6 xmax and 1 % noise the decay and
        # the constant are nearly collinear and the least-squares minimum can lie at tau_2 -> infinity (thorough tier, seed 3)
        t1 = rng.uniform(0.05, 0.09) * xmax
        return [t1, t1 * rng.uniform(2.5, 3.5)]
    if fam == "exp2":
        t1 = rng.uniform(0.05, 0.12) * xmax
        return [t1, t1 * rng.uniform(3.0, 5.0)]
    if fam == "exp3o":
        t1 = rng.uniform(0.03, 0.05) * xmax
        t2 = t1 * rng.uniform(3.0, 4.0)
        return [t1, t2, t2 * rng.uniform(3.0, 4.0)]
    if fam == "gaussdo":
        return [rng.uniform(0.35, 0.65) * xmax, rng.uniform(0.05, 0.1) * xmax, rng.uniform(0.2, 0.5) * xmax]
    return [rng.uniform(0.1, 0.4) * xmax]


def gen_case(rng, i, tier):
    fam = list(CERT)[i % len(CERT)]
    basis, P = CERT[fam]
    sc = "f32" if i % 7 in (3, 6) else "f64"
    if fam == "exp3o":
        sc = "f64"
    N = rng.choice([32, 48, 64]) if tier == "quick" else rng.choice([32, 64, 128, 256])
    xmax = 10.0
    x = [round_to(xmax * (k + 0.5) / N, sc) for k in range(N)]
    truth = [round_to(t, sc) for t in truth_for(rng, fam, xmax)]
    S = 1 if i % 3 else rng.randint(2, 4)
    ctor = ("mrhs" if S > 1 or i % 2 else "new")
    if ctor == "new":
        S = 1
    if i % 4 == 1:
        ctor += "_parallel"     # the parallel flavour must converge alike
    noise_rel = 0.0 if i % 2 == 0 else rng.choice([0.001, 0.01])
    if fam == "exp3o":
        # three decays plus offset are certified only in double precision and without noise (with noise the problem is too
        # ill-conditioned for the default tolerances: the optimizer stops on xtol with |cos| up to 0.08 at 1 % and 2e-3 at 0.1 %
        # noise on the pinned tree)
        noise_rel = 0.0
    spec = model_spec(x, basis, P, [round_to(t * (1 + rng.uniform(-0.04, 0.04)), sc) for t in truth], scalar=sc,
                      builder_made=(i % 5 == 1))
    Y = []
    for s in range(S):
        c = [rng.uniform(0.5, 3.0) for _ in basis]
        col = []
        for xv in x:
            v = sum(ci * py_basis(b, xv, truth) for ci, b in zip(c, basis))
            col.append(v)
        amp = max(abs(v) for v in col)
        col = [round_to(v + noise_rel * amp * rng.gauss(0, 1) / 3.0, sc) for v in col]
        Y.append([hx(v, sc) for v in col])
    build = [["obs", N, Y]]
    wk = "none"
    if i % 3 == 1 or i % 6 == 0:    # i % 6 == 0: weights together with several right-hand sides
        wk = "pos"
        build.append(["weights", [hx(round_to(rng.uniform(0.5, 2.0), sc), sc) for _ in range(N)]])
    if i % 6 == 4:
        # a few samples masked out by a weight of exactly zero (outlier rejection): the fit must converge all the same
        wk = "zeros"
        build = [o for o in build if o[0] != "weights"]
        wv = [round_to(rng.uniform(0.5, 2.0), sc) for _ in range(N)]
        for j in rng.sample(range(N), 3):
            wv[j] = 0.0
        build.append(["weights", [hx(v, sc) for v in wv]])
    if i % 6 == 2:
        # the sign of a weight is immaterial for the objective (only w^2 enters): every second weight negative, or all of them
        wk = "neg"
        build = [o for o in build if o[0] != "weights"]
        wv = [round_to(rng.uniform(0.5, 2.0), sc) * (-1.0 if (j % 2 or i % 12 == 2) else 1.0) for j in range(N)]
        build.append(["weights", [hx(v, sc) for v in wv]])
    if i % 4 == 3 and fam != "exp3o":
        # a user-chosen singular-value threshold far below every singular value of the weighted basis matrix (nothing is truncated)
        # changes nothing about the fit — whatever else such a number may be used for inside, and however many samples there are
        # (the threshold is absolute: it is not multiplied by the size of the problem or by the largest singular value)
        build.append(["eps", hx([2e-3, -1e-3, 1e-4][i % 3] if sc == "f64" else [2e-3, -1e-3][i % 2], sc)])
    if not spec.get("builder_made") and i % 3 == 0:
        # a hand-written model that computes from what set_params stored (the documented place for caching): the problem builder
        # must hand it the initial guess through set_params before anything is evaluated
        spec["lazy"] = True
    rng.shuffle(build)     # the order of the builder calls must not matter
    case = {"scalar": sc, "ctor": ctor, "model": spec, "faults": None, "build": build,
            "ops": [["observe"], ["fit", {}], ["observe"], ["jac_quiet"], ["ref", [hx(t, sc) for t in truth]]],
            "meta": {"family": fam, "N": N, "M": len(basis), "P": P, "S": S, "weights": wk, "noise_rel": noise_rel, "truth": truth}}
    return case


def metrics(c, r):
    st = r["steps"]
    fit, after, jac, ref = st[1]["v"], st[2]["v"], st[3]["v"], st[4]["v"]
    out = {"ok": fit["ok"], "termination": fit["termination"]}
    if not fit["ok"] or after["resid"] is None:
        return out
    res = [unhx(h) for h in after["resid"]]
    ssq = sum(v * v for v in res)
    out["ssq"] = ssq
    if ref.get("resid") is not None:
        rr = [unhx(h) for h in ref["resid"]]
        out["ssq_truth"] = sum(v * v for v in rr)
    Y = [o for o in c["build"] if o[0] == "obs"][-1][2]
    yn = math.sqrt(sum(unhx(h) ** 2 for col in Y for h in col))
    out["ynorm"] = yn
    if jac is not None:
        worst = 0.0
        rn = math.sqrt(ssq)
        for col in jac["cols"]:
            jc = [unhx(h) for h in col]
            jn = math.sqrt(sum(v * v for v in jc))
            if jn > 0 and rn > 0:
                worst = max(worst, abs(sum(a * b for a, b in zip(jc, res))) / (jn * rn))
        out["cos"] = worst
        out["rel_resid"] = rn / yn if yn > 0 else 0.0
    if fit["best_fit"] is not None:
        # the objective the caller posed: sum over samples and columns of (w_i (y_is - f_is))^2 with the weights and observations
        # exactly as supplied (whatever the order of the builder calls)
        ws = [o for o in c["build"] if o[0] == "weights"]
        wv = [unhx(h) for h in ws[-1][1]] if ws else None
        out["ssq_caller"] = sum(((wv[i] if wv else 1.0) * (unhx(y) - unhx(f))) ** 2
                                for cb, cy in zip(fit["best_fit"]["cols"], Y) for i, (f, y) in enumerate(zip(cb, cy)))
        bf = fit["best_fit"]["cols"]
        out["max_dev"] = max(abs(unhx(a) - unhx(b)) for cb, cy in zip(bf, Y) for a, b in zip(cb, cy)) / max(yn / math.sqrt(len(Y) * len(Y[0])), 1e-300)
    return out


# thresholds: calibrated on the pinned tree (see DESIGN.md §6 C05) with a margin of >= 100x
THR = {"f64": {"cos": 1e-4, "noiseless_dev": 1e-9, "ssq_slack": 1e-6},
       "f32": {"cos": 0.2, "noiseless_dev": 1e-3, "ssq_slack": 1e-2}}
CALIBRATION = ("3000 fits (seed 7) on the pinned tree: noisy f64 cos <= 2e-7, noisy f32 cos <= 1.8e-3, noiseless deviation <= 5e-15 (f64) / "
               "2.4e-6 (f32), SSQ / SSQ(truth) <= 1 + 1e-6; three decays + offset with noise reached cos 0.08 (1 %) / 2e-3 (0.1 %, seed sweep) in f64 and one f32 fit "
               "stepped to a non-finite point: certified without noise and in f64 only")


def main(tier, seed, replay=None):
    run = Run("C05", tier, seed, "other")
    rng = random.Random(seed)
    proof_obligations(run, "C05")
    binp = build_harness("dev")
    n = 60 if tier == "quick" else 3000
    cases = [gen_case(rng, i, tier) for i in range(n)]
    for i, c in enumerate(cases):
        c["id"] = i
    results = run_harness(binp, "scenario", cases, os.path.join(COQ, "run", "C05"), timeout_ms=60000)
    stats = {"ok": 0, "max_cos": {"f64": 0.0, "f32": 0.0}, "max_noiseless_dev": {"f64": 0.0, "f32": 0.0}, "max_ssq_ratio": 0.0}
    fams = {}
    for c, r in zip(cases, results):
        sc = c["scalar"]
        m = c["meta"]
        if r.get("panic") is not None or r.get("timeout") or r["head"].get("build") != "ok":
            run.violation("fit on a certified problem panicked / hung / could not be built", {"case": c, "result": r})
            continue
        mt = metrics(c, r)
        fams[m["family"]] = fams.get(m["family"], 0) + 1
        if not mt["ok"]:
            run.violation("fit on an identifiable problem near the truth did not succeed (%s, %s, noise %g): %s"
                          % (m["family"], sc, m["noise_rel"], mt["termination"]), {"case": c, "metrics": mt})
            continue
        stats["ok"] += 1
        thr = THR[sc]
        if "ssq_caller" in mt:
            tolr = 1e-6 if sc == "f64" else 1e-2
            if abs(mt["ssq_caller"] - mt["ssq"]) > tolr * max(mt["ssq_caller"], mt["ssq"]) + (tolr * 1e-3 * mt["ynorm"]) ** 2:
                run.violation("the sum of squares the problem minimised (%g) is not the weighted sum of squares of the problem the caller posed (%g)"
                              % (mt["ssq"], mt["ssq_caller"]), {"case": c, "metrics": mt})
                continue
        if "ssq_truth" in mt:
            ratio = mt["ssq"] / mt["ssq_truth"] if mt["ssq_truth"] > 0 else (0.0 if mt["ssq"] <= thr["ssq_slack"] * mt["ynorm"] ** 2 else float("inf"))
            if mt["ssq_truth"] > (thr["ssq_slack"] * mt["ynorm"]) ** 2:
                stats["max_ssq_ratio"] = max(stats["max_ssq_ratio"], ratio)
            if mt["ssq"] > mt["ssq_truth"] * (1 + thr["ssq_slack"]) + (thr["ssq_slack"] * mt["ynorm"]) ** 2:
                run.violation("weighted sum of squares at the returned point exceeds that of the generating parameters (%g > %g)"
                              % (mt["ssq"], mt["ssq_truth"]), {"case": c, "metrics": mt})
                continue
        if "cos" in mt and mt.get("rel_resid", 0) > (1e-9 if sc == "f64" else 1e-4):
            stats["max_cos"][sc] = max(stats["max_cos"][sc], mt["cos"])
            if mt["cos"] > thr["cos"]:
                run.violation("residual is not orthogonal to the Jacobian columns at the returned point (cos = %g)" % mt["cos"],
                              {"case": c, "metrics": mt})
                continue
        if m["noise_rel"] == 0.0 and "max_dev" in mt:
            stats["max_noiseless_dev"][sc] = max(stats["max_noiseless_dev"][sc], mt["max_dev"])
            if mt["max_dev"] > thr["noiseless_dev"]:
                run.violation("noiseless observations are not reproduced (relative deviation %g)" % mt["max_dev"], {"case": c, "metrics": mt})
    run.coverage.update({
        "explanation": "PARTIAL. Proved (coq/Props/C05.v): generating parameters give zero residual and the generating coefficients "
                       "(C05_noiseless_*), a point with J^T r = 0 is stationary for the original problem (C05_stationary), the optimizer "
                       "never returns a worse objective and returns a coherent state (C05_descent), coefficients optimal at the returned "
                       "parameters. NOT provable here: convergence of the floating-point trust-region iteration. Explored instead: fits of "
                       "the certified families from starts within 4 % of the truth; success, SSQ vs SSQ at the generating parameters, "
                       "orthogonality, reproduction of noiseless data — thresholds with >= 100x margin over the maxima observed on the pinned tree.",
        "evaluations": len(cases), "distinct_nontrivial": stats["ok"],
        "rule": "families: two and three well separated exponential decays with optional offset, Gaussian + decay + offset, single decay + "
                "offset; builder-made and hand-written; N in 32..256; weights; relative noise 0 / 0.1 % / 1 %; 1-4 right-hand sides; f32/f64; "
                "default optimizer settings",
        "families": fams, "observed_maxima": stats, "thresholds": THR, "calibration": CALIBRATION})
    run.samples = [{"meta": c["meta"], "scalar": c["scalar"], "ctor": c["ctor"]} for c in cases[:3]]
    run.assumptions = ["thresholds are engineering margins calibrated on the pinned tree"]
    return run.finish()
