"""C06 — weights act as row scaling of model and data, applied exactly once"""
import copy
import random

from . import c04
from . import states
from .common import *


def scaled_twin(c, w):
    """the unweighted problem whose basis functions, derivatives and observations have row i multiplied by w_i"""
    sc = c["scalar"]
    d = copy.deepcopy(c)
    d["model"]["rowscale"] = [hx(v, sc) for v in w]
    Y = [o for o in d["build"] if o[0] == "obs"][-1]
    Y[2] = [[hx(round_to(w[i] * unhx(h), sc), sc) for i, h in enumerate(col)] for col in Y[2]]
    d["build"] = [o for o in d["build"] if o[0] != "weights"]
    return d


def feq(a, b):
    """equality of hex floats up to the sign of zero"""
    if a == b:
        return True
    if a is None or b is None:
        return False
    if isinstance(a, str):
        return unhx(a) == unhx(b)
    if isinstance(a, list):
        return len(a) == len(b) and all(feq(x, y) for x, y in zip(a, b))
    if isinstance(a, dict):
        return a.get("r") == b.get("r") and a.get("c") == b.get("c") and feq(a["cols"], b["cols"])
    return False


WKINDS = ["pos", "zeros", "neg", "spread", "dominant", "unit", "const"]


def weights(rng, kind, N):
    if kind == "pos":
        return [dyadic(rng, 0.25, 4, 2) for _ in range(N)]
    if kind == "zeros":
        w = [dyadic(rng, 0.25, 4, 2) for _ in range(N)]
        for i in rng.sample(range(N), max(1, N // 4)):
            w[i] = 0.0
        return w
    if kind == "neg":
        return [rng.choice([-1, 1]) * dyadic(rng, 0.25, 4, 2) for _ in range(N)]
    if kind == "spread":
        return [2.0 ** rng.randint(-12, 12) for _ in range(N)]
    if kind == "dominant":
        w = [2.0 ** -6] * N
        w[rng.randrange(N)] = 64.0
        return w
    if kind == "const":
        return [rng.choice([3.0, 0.25, -1.0, -2.5, 7.0])] * N
    return [1.0] * N


def cond_frobenius(a):
    """||A||_F * ||A^-1||_F of a small square matrix (list of columns), Gauss-Jordan with partial pivoting in floats; None if singular"""
    import math
    n = len(a)
    m = [[a[j][i] for j in range(n)] + [1.0 if i == k else 0.0 for k in range(n)] for i in range(n)]
    for col in range(n):
        piv = max(range(col, n), key=lambda r: abs(m[r][col]))
        if m[piv][col] == 0 or m[piv][col] != m[piv][col]:
            return None
        m[col], m[piv] = m[piv], m[col]
        d = m[col][col]
        m[col] = [v / d for v in m[col]]
        for r in range(n):
            if r != col and m[r][col] != 0:
                f = m[r][col]
                m[r] = [x - f * y for x, y in zip(m[r], m[col])]
    na = math.sqrt(sum(v * v for colv in a for v in colv))
    ni = math.sqrt(sum(m[i][n + k] ** 2 for i in range(n) for k in range(n)))
    return na * ni


def main(tier, seed, replay=None):
    run = Run("C06", tier, seed, "proof")
    rng = random.Random(seed)
    proof_obligations(run, "C06")
    binp = build_harness("dev")
    workdir = os.path.join(COQ, "run", "C06")
    n = 49 if tier == "quick" else 910
    pairs = []
    kinds = {}
    for i in range(n):
        kind = WKINDS[i % len(WKINDS)]
        kinds[kind] = kinds.get(kind, 0) + 1
        c = gen_problem(rng, quant=(8 if i % 6 else None), weights="none", builder_made=False, N=None)
        N = c["meta"]["N"]
        w = weights(rng, kind, N + 2)
        # a few more samples so that zero weights keep the problem over-determined
        c = gen_problem(rng, family=c["meta"]["family"], quant=(8 if i % 6 else None), weights="none", builder_made=False,
                        N=N + 2, scalar=c["scalar"], ctor=c["ctor"])
        sc = c["scalar"]
        w = [round_to(v, sc) for v in w]
        cw = copy.deepcopy(c)
        cw["build"].append(["weights", [hx(v, sc) for v in w]])
        rng.shuffle(cw["build"])        # weights before or after the observations: the same weighted problem
        cw["meta"]["weights"] = kind
        ops = states.observe_at(rng, c, nsets=1)
        if i % 2 == 0:
            cfg = {"patience": rng.choice([2, 5, 30])}
            ops = ops + [["fit", cfg], ["observe"]]
        cw["ops"] = ops
        tw = scaled_twin(cw, w)
        tw["ops"] = ops
        tw["meta"]["weights"] = "none"
        third = None
        if kind == "unit":
            third = copy.deepcopy(c)
            third["ops"] = ops            # no weights at all
        if kind == "zeros":
            third = copy.deepcopy(cw)     # garbage in the samples with weight zero
            Y = [o for o in third["build"] if o[0] == "obs"][-1]
            for col in Y[2]:
                for j, wj in enumerate(w):
                    if wj == 0.0:
                        col[j] = hx(1234.5, sc)
        pairs.append((cw, tw, third, kind))
    # a user-supplied ABSOLUTE threshold with weights far from 1: the threshold refers to the singular values of W Phi in both problems
    # (the twin carries the same threshold and no weights), so the pair must agree bit for bit whatever max|w| is
    for j in range(8 if tier == "quick" else 100):
        c = gen_problem(rng, quant=(8 if j % 4 else None), weights="none", builder_made=False,
                        family=["exp2c", "gaussc", "rat2", "cosmix"][j % 4], ctor=["new", "mrhs", "new_parallel", "mrhs_parallel"][j % 4])
        sc = c["scalar"]
        cw = copy.deepcopy(c)
        scale_up_for_eps(rng, cw)
        w = [unhx(h) for h in [o for o in cw["build"] if o[0] == "weights"][-1][1]]
        if j % 2:
            w = [v / 65536.0 for v in w]        # max|w| << 1 as well (the threshold then sits far ABOVE eps * max|w|)
            for o in cw["build"]:
                if o[0] == "weights":
                    o[1] = [hx(v, sc) for v in w]
                if o[0] == "eps":
                    o[1] = hx(unhx(o[1]) / 65536.0, sc)
            cw["meta"]["eps"] = cw["meta"]["eps"] / 65536.0
        ops = states.observe_at(rng, c, nsets=1)
        cw["ops"] = ops
        tw = scaled_twin(cw, w)
        tw["ops"] = ops
        tw["meta"]["weights"] = "none"
        kinds["scaled+eps"] = kinds.get("scaled+eps", 0) + 1
        pairs.append((cw, tw, None, "scaled+eps"))
    # weights that leave the OBSERVATIONS unchanged (every sample with a weight other than 1 has the observation exactly 0 — masked
    # samples stored as zeros, with weight 0 or any other weight) are weights all the same: they still scale the basis functions and
    # derivatives of those rows
    for j in range(8 if tier == "quick" else 100):
        c = gen_problem(rng, quant=(8 if j % 4 else None), weights="none", builder_made=False,
                        family=["exp2c", "exp1l", "rat2", "cosmix"][j % 4], N=9 + j % 3,
                        ctor=["new", "mrhs", "new_parallel", "mrhs_parallel"][j % 4])
        sc = c["scalar"]
        N = c["meta"]["N"]
        w = [1.0] * N
        for i_ in rng.sample(range(N), 3):
            w[i_] = [0.0, 2.5, -1.0, 0.0][(j + i_) % 4]
        cw = copy.deepcopy(c)
        Yw_ = [o for o in cw["build"] if o[0] == "obs"][-1]
        Yw_[2] = [[hx(0.0, sc) if w[i_] != 1.0 else h for i_, h in enumerate(col)] for col in Yw_[2]]
        cw["build"].append(["weights", [hx(v, sc) for v in w]])
        rng.shuffle(cw["build"])
        cw["meta"]["weights"] = "masked0"
        ops = states.observe_at(rng, c, nsets=1)
        if j % 2 == 0:
            ops = ops + [["fit", {"patience": 5}], ["observe"]]
        cw["ops"] = ops
        tw = scaled_twin(cw, w)
        tw["ops"] = ops
        tw["meta"]["weights"] = "none"
        kinds["masked0"] = kinds.get("masked0", 0) + 1
        pairs.append((cw, tw, None, "masked0"))
    # finite weights times finite model values can overflow: the weighted problem then has no state at those parameters — exactly like
    # the row-scaled twin, whose model values are themselves infinite there — and both recover at the next good update
    for j in range(6 if tier == "quick" else 60):
        c = gen_problem(rng, quant=None, weights="none", builder_made=False, family=["cosmix", "shared", "exp3"][j % 3], N=10,
                        scalar="f64", ctor=["new", "mrhs", "new_parallel", "mrhs_parallel"][j % 4])
        sc = c["scalar"]
        N = c["meta"]["N"]
        w = [1.0, -2.0, 0.0, 0.5, 3.0][: N % 5] + [1.0] * N
        w = w[:N]
        w[N - 1] = [1e200, -1e250, 1e180][j % 3]
        cw = copy.deepcopy(c)
        cw["build"].append(["weights", [hx(v, sc) for v in w]])
        rng.shuffle(cw["build"])
        cw["meta"]["weights"] = "overflowing"
        cw["no_exact"] = True
        bad = [hx(-130.0, sc)] * c["meta"]["P"]           # exp(130 x) ~ 1e141 at x = 2.5: finite, but not after weighting
        ops = list(states.OBS) + [["set", bad]] + states.OBS + [["set", c["model"]["init"]]] + states.OBS
        cw["ops"] = ops
        tw = scaled_twin(cw, w)
        tw["ops"] = ops
        tw["meta"]["weights"] = "none"
        kinds["overflowing"] = kinds.get("overflowing", 0) + 1
        pairs.append((cw, tw, None, "overflowing"))
    cases = []
    for cw, tw, third, kind in pairs:
        cases += [cw, tw] + ([third] if third is not None else [])
    # the weighted problems are also compared with the exact specification (all three relations)
    results, nterms, nskip, hist = states.run_states(run, "C06", binp, cases, 7, lambda code: code >= 2 and code != 1, "weighted problem")
    it = iter(results)
    nexact = 0
    for cw, tw, third, kind in pairs:
        rw, rt = next(it), next(it)
        r3 = next(it) if third is not None else None
        for other, label, exact in ((rt, "the row-scaled unweighted problem", True), (r3, "the problem without weights" if kind == "unit" else
                                                                                       "the problem with other data in the zero-weight samples", kind == "unit")):
            if other is None:
                continue
            if rw.get("steps") is None or other.get("steps") is None:
                continue
            for k, (a, b) in enumerate(zip(rw["steps"], other["steps"])):
                if a["op"] in ("observe", "jac_quiet", "fit"):
                    va, vb = a["v"], b["v"]
                    if a["op"] == "fit":
                        va = {x: va[x] for x in ("ok", "termination", "evaluations", "nonlinear_parameters", "lin_coef", "objective")}
                        vb = {x: vb[x] for x in ("ok", "termination", "evaluations", "nonlinear_parameters", "lin_coef", "objective")}
                    same = (va == vb) if exact else (json.dumps(va) == json.dumps(vb) or all(feq(va[x], vb[x]) for x in va) if isinstance(va, dict) else feq(va, vb))
                    nexact += 1
                    if not same:
                        run.violation("the weighted problem (%s weights) and %s differ at step %d (%s)" % (kind, label, k, a["op"]),
                                      {"weighted": cw, "other_label": label, "step": k, "weighted_shows": a["v"], "other_shows": b["v"]})
                        break
    # reduced chi^2 and covariance: the weighted single-rhs problem and its row-scaled twin, through fit_with_statistics
    from . import statsrun
    spairs = []
    for i in range(12 if tier == "quick" else 200):
        M, P = [(2, 1), (1, 1), (3, 1), (1, 2)][i % 4]
        N = M + P + rng.randint(3, 9)
        c = statsrun.gen_stats_case(rng, M, P, N, scalar="f64", weights="none", noise=0.1, quant=None, probs=[0.9])
        kind = ["pos", "neg", "spread", "const", "zeros"][i % 5]
        w = [round_to(v, "f64") for v in weights(rng, kind, N)]
        if kind == "zeros":
            w = [v if k >= 2 or N - 2 <= M + P else 0.0 for k, v in enumerate(w)] if N - 2 > M + P else [abs(v) + 0.5 for v in w]
        if kind == "spread":
            w = [2.0 ** rng.randint(-3, 3) for _ in range(N)]
        cw = copy.deepcopy(c)
        cw["build"].append(["weights", [hx(v, "f64") for v in w]])
        rng.shuffle(cw["build"])
        tw = scaled_twin(cw, w)
        spairs.append((cw, tw, kind))
    scases = []
    for cw, tw, kind in spairs:
        scases += [cw, tw]
    for i, c in enumerate(scases):
        c["id"] = 7000 + i
    sres = run_harness(binp, "scenario", scases, workdir, timeout_ms=30000, tag="stats")
    nstat = 0
    nskip_stats = 0
    for k, (cw, tw, kind) in enumerate(spairs):
        rw, rt = sres[2 * k], sres[2 * k + 1]
        if rw.get("steps") is None or rt.get("steps") is None:
            run.violation("fit_with_statistics panicked / hung on a weighted problem or its row-scaled twin", {"weighted": cw, "rw": rw, "rt": rt})
            continue
        fw, ft = rw["steps"][1]["v"], rt["steps"][1]["v"]
        if fw["ok"] != ft["ok"]:
            run.violation("fit_with_statistics succeeds for one of (weighted problem, row-scaled twin) only (%s weights)" % kind,
                          {"weighted": cw, "weighted_result": fw, "twin_result": ft})
            continue
        if not fw["ok"]:
            continue
        nstat += 1
        sw, st = fw["stats"], ft["stats"]
        a, b = unhx(sw["chi2"]), unhx(st["chi2"])
        if abs(a - b) > 1e-9 * max(abs(a), abs(b)):
            run.violation("reduced chi^2 of the weighted problem (%r) and of the row-scaled unweighted problem (%r) differ (%s weights)" % (a, b, kind),
                          {"weighted": cw, "chi2_weighted": a, "chi2_twin": b})
            continue
        dg = [abs(unhx(sw["cov"]["cols"][j][j])) for j in range(sw["cov"]["c"])]
        kap = cond_frobenius([[unhx(h) for h in col] for col in st["cov"]["cols"]])
        if min(dg) <= 0 or max(dg) / min(dg) > 1e6 or kap is None or kap > 1e9:
            nstat -= 1
            nskip_stats += 1      # ill-conditioned normal matrix: the two inversions legitimately differ by u * kappa
            continue
        ca = [unhx(h) for col in sw["cov"]["cols"] for h in col]
        cb = [unhx(h) for col in st["cov"]["cols"] for h in col]
        nrm = max(max(abs(v) for v in cb), 1e-300)
        # each of the two covariances is a computed inverse, accurate to about u * kappa(H^T H) = u * kappa(Cov)
        if max(abs(x - y) for x, y in zip(ca, cb)) > max(1e-9, 1e-12 * kap) * nrm:
            run.violation("covariance of the weighted problem and of the row-scaled unweighted problem differ (%s weights)" % kind,
                          {"weighted": cw, "cov_weighted": sw["cov"], "cov_twin": st["cov"]})
    run.coverage.update({
        "statistics_pairs_compared": nstat, "statistics_pairs_skipped_ill_conditioned": nskip_stats,
        "evaluations": len(cases), "distinct_nontrivial": len(pairs),
        "rule": "for each random problem a weight vector of one of the kinds positive / with zeros / with negatives / spread 2^-12..2^12 / one "
                "dominant / all ones; the weighted problem is run next to the unweighted problem whose basis functions, derivatives and "
                "observations are row-scaled by the same floats: coefficients, residuals, Jacobian and (every second case) the whole fit "
                "(termination, evaluations, parameters, coefficients, objective) must be bit-identical; unit weights vs no weights "
                "bit-identical; zero weights vs garbage data in those samples identical up to the sign of zero; every weighted state is "
                "also compared with the exact specification (coefficients, residuals, Jacobian); reduced chi^2 and covariance of fit_with_statistics "
                "on weighted problems vs their row-scaled twins",
        "weight_kinds": kinds, "bit_exact_comparisons": nexact, "state_code_histogram": {str(k): v for k, v in hist.items()},
        "skipped_ill_conditioned": nskip})
    run.samples = [{"kind": kind, "ctor": cw["ctor"], "scalar": cw["scalar"], "meta": cw["meta"]} for cw, tw, t3, kind in pairs[:3]]
    run.assumptions = ["reduced chi^2 (1e-9) and covariance (max(1e-9, 1e-12 * kappa_F(Cov)) of the largest entry; kappa_F > 1e9 skipped) of weighted vs row-scaled problems are compared within tolerance: "
                       "the two compute W*(D_k c) and (W D_k) c in different orders"]
    return run.finish()
