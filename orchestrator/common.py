"""helpers shared by the per-property check modules"""
import random

from .vlib import *  # noqa


def model_spec(x, basis, nparams, init, scalar="f64", quant=None, builder_made=False, fail_below=None,
               dirty_fail=False):
    return {"x": [hx(v, scalar) for v in x], "basis": basis, "nparams": nparams,
            "init": [hx(v, scalar) for v in init], "quant": quant, "builder_made": builder_made,
            "fail_below": None if fail_below is None else hx(fail_below, scalar), "dirty_fail": dirty_fail}


def bits_list(hexes):
    return clist([cz(hxbits(h)) for h in hexes])


def log_to_coq(log, mx_of_eval, mx_of_deriv):
    """harness protocol log -> list (lentry V Mx); mx_of_eval(i)/mx_of_deriv(i,k) give the Coq term
    of the answer matrix of log entry i"""
    out = []
    for i, e in enumerate(log):
        if e[0] == "S":
            out.append("LS %s %s %s" % (bits_list(e[1]), cbool(e[2]), bits_list(e[3])))
        elif e[0] == "E":
            out.append("LE %s" % (copt(mx_of_eval(i)) if e[1] else "None"))
        elif e[0] == "D":
            out.append("LD %s %s" % (cnat(e[1]), copt(mx_of_deriv(i, e[1])) if e[2] else "None"))
    return clist(out)


def steps_by_op(res):
    return [(s["op"], s) for s in res.get("steps", [])]


# ------------------------------------------------------------------------------------------
# scenario generation shared by the problem-level properties

FAMILIES = {
    # name: (basis, nparams, parameter range)
    "exp2c": ([["expdecay", 0], ["expdecay", 1], ["const"]], 2, (0.5, 6.0)),
    "exp1l": ([["expdecay", 0], ["lin"]], 1, (0.5, 6.0)),
    "gaussc": ([["gauss", 0, 1], ["const"]], 2, (0.75, 3.0)),
    "rat2": ([["rat", 0], ["rat", 1]], 2, (0.25, 4.0)),
    "shared": ([["exprate", 0], ["expcos", 0, 1]], 2, (0.25, 1.5)),
    "cosmix": ([["cos", 0], ["exprate", 1], ["const"], ["lin"]], 2, (0.25, 1.5)),
    "poly": ([["poly", 0, 1], ["sq", 0], ["const"]], 2, (-3.0, 3.0)),
    "exp3": ([["exprate", 0], ["exprate", 1], ["exprate", 2]], 3, (0.125, 2.0)),
    "exp1": ([["expdecay", 0]], 1, (0.5, 6.0)),          # a single basis function (M = 1)
}

# exactly rank-deficient bases: (basis, nparams, range, a maximal set of independent columns)
RANKDEF = {
    "dup": ([["expdecay", 0], ["expdecay", 0], ["const"]], 1, (0.5, 6.0), [0, 2]),
    "dep": ([["const"], ["lin"], ["affine"], ["exprate", 0]], 1, (0.25, 1.5), [0, 1, 3]),
    "zero": ([["exprate", 0], ["zero"], ["lin"]], 1, (0.25, 1.5), [0, 2]),
    "dup2": ([["cos", 0], ["const"], ["cos", 0], ["const"]], 1, (0.25, 1.5), [0, 1]),
}


# families used by deterministic classes only (never drawn at random, so the random stream of the checks does not depend on them)
EXTRA_FAMILIES = {
    # one function of FOUR parameters, declared in an order that differs from the model's parameter list
    "mix4a": ([["mix4", 0, 2, 1, 3], ["const"]], 4, (0.25, 3.0)),
    "mix4b": ([["const"], ["mix4", 3, 1, 2, 0]], 4, (0.25, 3.0)),
    "mix4c": ([["mix4", 1, 0, 3, 2], ["lin"]], 4, (0.25, 3.0)),
    "mix4d": ([["mix4", 0, 1, 2, 3], ["const"]], 4, (0.25, 3.0)),
    # five, six and seven nonlinear parameters (functions of different kinds, so that the basis stays well conditioned)
    "p5": ([["exprate", 0], ["cos", 1], ["rat", 2], ["gauss", 3, 4]], 5, (0.25, 3.5)),
    "p6": ([["exprate", 0], ["cos", 1], ["rat", 2], ["gauss", 3, 4], ["exprate", 5]], 6, (0.25, 3.5)),
    "p7": ([["exprate", 0], ["cos", 1], ["rat", 2], ["gauss", 3, 4], ["expcos", 5, 6]], 7, (0.25, 3.5)),
    # one function of EIGHT parameters (the largest arities of the closure dispatch), declared in and out of model order
    "sum8a": ([["sum8", 0, 1, 2, 3, 4, 5, 6, 7], ["const"]], 8, (0.25, 4.5)),
    "sum8b": ([["const"], ["sum8", 7, 5, 6, 4, 3, 1, 2, 0]], 8, (0.25, 4.5)),
    # many basis functions (16 / 24): one decay and a comb of parameter-free bumps
    "comb16": ([["exprate", 0]] + [["bump", j] for j in range(1, 16)], 1, (0.25, 1.5)),
    "comb24": ([["exprate", 0]] + [["bump", j] for j in range(1, 24)], 1, (0.25, 1.5)),
}


def dyadic(rng, lo, hi, bits=4):
    """a random multiple of 2^-bits in [lo, hi]"""
    s = 1 << bits
    return rng.randint(int(lo * s), int(hi * s)) / s


def distinct_params(rng, n, lo, hi, bits=4, sep=0.5):
    for _ in range(200):
        v = [dyadic(rng, lo, hi, bits) for _ in range(n)]
        if all(abs(v[i] - v[j]) >= sep for i in range(n) for j in range(i)) and all(abs(t) > 1e-9 for t in v):
            return v
    return [lo + (hi - lo) * (i + 1) / (n + 1) for i in range(n)]


def gen_problem(rng, scalar=None, family=None, N=None, S=None, ctor=None, weights=None, quant=8, eps=None,
                builder_made=None, fail_below=None, dirty_fail=False):
    """a random well-formed fitting problem; returns the scenario head (no ops)"""
    scalar = scalar or rng.choice(["f64", "f64", "f32"])
    family = family or rng.choice(list(FAMILIES))
    if family in RANKDEF:
        basis, P, (lo, hi), _sel = RANKDEF[family]
    elif family in EXTRA_FAMILIES:
        basis, P, (lo, hi) = EXTRA_FAMILIES[family]
    else:
        basis, P, (lo, hi) = FAMILIES[family]
    M = len(basis)
    if N is None:
        r = rng.random()
        if r < 0.06 and family not in RANKDEF:
            N = M                                   # square system: exact interpolation, zero residual
        elif r < 0.11 and quant is not None:
            # long: beyond any small block / chunk size (only with the small dyadic model values: exact rational arithmetic on 65 rows
            # of 53-bit values took half an hour per check)
            N = rng.choice([17, 33])
        else:
            N = rng.randint(M + 1, M + 6)
    ctor = ctor or rng.choice(["new", "mrhs", "new_parallel", "mrhs_parallel"])
    mr = ctor.startswith("mrhs")
    S = (S or rng.randint(1, 3)) if mr else 1
    x = [0.25 * (i + 1) for i in range(N)]
    init = distinct_params(rng, P, lo, hi)
    if builder_made is None:
        builder_made = rng.random() < 0.4
    if fail_below is not None:
        builder_made = False
    spec = model_spec(x, basis, P, init, scalar=scalar, quant=quant, builder_made=builder_made,
                      fail_below=fail_below, dirty_fail=dirty_fail)
    if not builder_made and fail_below is None and (N + int(init[0] * 16)) % 3 == 0:
        # every third hand-written model computes from what set_params stored (the documented place for caching; before the first
        # set_params it evaluates at all-zero parameters): the problem builder must hand it the initial guess through set_params.
        # Decided from the generated content, so that the random stream of every check stays what it was.
        spec["lazy"] = True
    Y = [[hx(dyadic(rng, -4, 4, 3), scalar) for _ in range(N)] for _ in range(S)]
    build = [["obs", N, Y]]
    wkind = weights if weights is not None else rng.choice(["none", "none", "pos", "mixed", "unit", "const"])
    if wkind != "none":
        if wkind == "unit":
            w = [1.0] * N
        elif wkind == "const":
            w = [rng.choice([3.0, 0.25, -1.0, -2.5])] * N
        elif wkind == "pos":
            w = [dyadic(rng, 0.25, 4, 2) for _ in range(N)]
        else:
            w = [rng.choice([0.0, -1.5, 0.5, 2.0, 1.0, 0.25, 8.0]) for _ in range(N)]
        build.append(["weights", [hx(v, scalar) for v in w]])
    if eps is not None:
        build.append(["eps", hx(eps, scalar)])
    # the order of builder calls must not matter: weights / epsilon before or after the observations
    rng.shuffle(build)
    return {"scalar": scalar, "ctor": ctor, "model": spec, "faults": None, "build": build, "ops": [],
            "meta": {"family": family, "N": N, "M": M, "P": P, "S": S, "weights": wkind, "range": [lo, hi]}}


def scale_up_for_eps(rng, c):
    """a LARGE user threshold (1e-3 .. 0.03) that is still below every singular value: the problem is scaled up through the weights
    (sigma_max >> 1) while the threshold stays absolute — nothing may be truncated, whatever the scale of the matrix. Returns eps."""
    sc = c["scalar"]
    eps = rng.choice([1e-3, -1e-2, 0.03])
    N = c["meta"]["N"]
    c["build"] = [o for o in c["build"] if o[0] not in ("weights", "eps")]
    k = rng.choice([32.0, 256.0, 1024.0])
    c["build"].append(["weights", [hx(k * rng.choice([1.0, 0.5, 2.0]), sc) for _ in range(N)]])
    c["build"].append(["eps", hx(eps, sc)])
    rng.shuffle(c["build"])
    c["meta"]["weights"] = "scaled"
    c["meta"]["eps"] = eps
    return eps


def scale_down_for_tiny_eps(rng, c):
    """a user threshold BELOW machine epsilon (0, 1e-30, -1e-40, 1e-300; f32: 0, 1e-12, -1e-20) on a problem scaled DOWN through the
    weights (2^-60, f32: 2^-30), so that every singular value of W Phi lies between the user's threshold and machine epsilon:
    the threshold is absolute and the user's — nothing may be truncated. Returns eps."""
    sc = c["scalar"]
    eps = rng.choice([0.0, 1e-30, -1e-40, 1e-300] if sc == "f64" else [0.0, 1e-12, -1e-20])
    N = c["meta"]["N"]
    c["build"] = [o for o in c["build"] if o[0] not in ("weights", "eps")]
    k = 2.0 ** (-60 if sc == "f64" else -30)
    c["build"].append(["weights", [hx(k * rng.choice([1.0, 0.5, 2.0]), sc) for _ in range(N)]])
    c["build"].append(["eps", hx(eps, sc)])
    rng.shuffle(c["build"])
    c["meta"]["weights"] = "scaled_down"
    c["meta"]["eps"] = eps
    return eps


SCALABLE = ("exp2c", "gaussc")     # every parameter of these families is a length / position on the x axis


def rescale_case(c, k=None):
    """the same problem in other units: x and every nonlinear parameter (initial guess, updates, reference points) multiplied by 2^-k,
    exactly. Model values are bit-identical (they depend on x / alpha only); the PARAMETERS become tiny in absolute terms — the whole
    parameter range lies below machine epsilon — so anything that compares parameters with an absolute tolerance sees them all as equal.
    Only for the families in SCALABLE."""
    if c["meta"]["family"] not in SCALABLE:
        return c
    sc = c["scalar"]
    k = k or (58 if sc == "f64" else 28)
    f = 2.0 ** -k

    def scl(h):
        return hx(unhx(h) * f, sc)
    c["model"]["x"] = [scl(h) for h in c["model"]["x"]]
    c["model"]["init"] = [scl(h) for h in c["model"]["init"]]
    for o in c["ops"]:
        if o[0] in ("set", "ref"):
            o[1] = [scl(h) for h in o[1]]
    lo, hi = c["meta"]["range"]
    c["meta"]["range"] = [lo * f, hi * f]
    c["meta"]["xscale_log2"] = -k
    return c


def canon_log(log, parallel):
    """parallel Jacobian rounds call the derivatives in a schedule dependent order (and may skip
    calls after a failure): canonicalise each round (the harness numbers them) to index order, cut
    after the first failing index — the sequence the sequential flavour performs"""
    if not parallel:
        return log
    out, i = [], 0
    while i < len(log):
        if log[i][0] != "D":
            out.append(log[i])
            i += 1
            continue
        j = i
        while j < len(log) and log[j][0] == "D" and log[j][3] == log[i][3]:
            j += 1
        run = sorted(log[i:j], key=lambda e: e[1])
        for e in run:
            out.append(e)
            if not e[2]:
                break
        i = j
    return out


# ------------------------------------------------------------------------------------------
# python mirror of the harness's basis functions (only to synthesise observations)
import math


def py_basis(b, x, a):
    k = b[0]
    try:
        if k == "const":
            return 1.0
        if k == "lin":
            return x
        if k == "affine":
            return 1.0 + x
        if k == "zero":
            return 0.0
        if k == "expdecay":
            return math.exp(-x / a[b[1]])
        if k == "exprate":
            return math.exp(-a[b[1]] * x)
        if k == "gauss":
            return math.exp(-(x - a[b[1]]) ** 2 / (2 * a[b[2]] ** 2))
        if k == "rat":
            return 1.0 / (1.0 + a[b[1]] * x)
        if k == "cos":
            return math.cos(a[b[1]] * x)
        if k == "expcos":
            return math.exp(-a[b[1]] * x) * math.cos(a[b[2]] * x)
        if k == "poly":
            return a[b[1]] * x + a[b[2]] * x * x + a[b[1]] * a[b[2]]
        if k == "sq":
            return (a[b[1]] + x) ** 2
        if k == "mix4":
            return math.exp(-a[b[1]] * x) * math.cos(a[b[2]] * x) + a[b[3]] * x * math.exp(-a[b[4]] * x)
        if k == "bump":
            return math.exp(-8.0 * (x - 0.5 * b[1]) ** 2)
        if k == "sum8":
            return sum(math.exp(-a[b[1 + i]] * x) / (x + i + 1) for i in range(8))
    except (OverflowError, ZeroDivisionError):
        return float("inf")
    raise ValueError(k)


def synth_observations(rng, case, truth, noise=0.0, qbits=10):
    """replace the observations of a generated problem by model(truth) * random coefficients + noise"""
    m = case["meta"]
    sc = case["scalar"]
    basis = case["model"]["basis"]
    xs = [unhx(h) for h in case["model"]["x"]]
    S = m["S"]
    Y = []
    for s in range(S):
        c = [rng.choice([-1, 1]) * dyadic(rng, 0.5, 3, 2) for _ in basis]
        col = []
        for x in xs:
            v = sum(ci * py_basis(b, x, truth) for ci, b in zip(c, basis))
            v += noise * rng.uniform(-1, 1)
            v = round(v * (1 << qbits)) / (1 << qbits)
            col.append(hx(v, sc))
        Y.append(col)
    for o in case["build"]:
        if o[0] == "obs":
            o[2] = Y
    return case


def release_differences(suite, cases, results, workdir, timeout_ms=20000, every=1, with_index=False):
    """the same cases through the release build of the harness (no debug assertions, no overflow checks). Returns the (case, release
    result) pairs whose observable output differs from the dev profile's — the caller judges those with the same machinery as the
    dev results (identical output needs no second judgement). Call logs of parallel problems are compared in canonical order."""
    sel = [k for k in range(len(cases)) if k % every == 0]
    rel = run_harness(build_harness("release"), suite, [cases[k] for k in sel], workdir, timeout_ms=timeout_ms, tag="rel")

    def canon(c, r):
        r = {k: v for k, v in r.items() if k != "profile"}
        if "parallel" in str(c.get("ctor", "")) and isinstance(r.get("steps"), list):
            st = []
            for s_ in r["steps"]:
                if isinstance(s_, dict) and "log" in s_:
                    s_ = dict(s_, log=canon_log(s_["log"], True))
                st.append(s_)
            r["steps"] = st
        return r
    out = []
    for k, rr in zip(sel, rel):
        if canon(cases[k], rr) != canon(cases[k], results[k]):
            out.append((k, cases[k], rr) if with_index else (cases[k], rr))
    return out


def with_release(suite, cases, results, workdir, timeout_ms=20000, every=1):
    """cases / results extended by the release-profile runs that differ from the dev profile (marked "profile": "release"), so that
    the caller's judgement loop covers them too; returns (cases, results, number of differing cases)"""
    extra = release_differences(suite, cases, results, workdir, timeout_ms=timeout_ms, every=every)
    cs, rs = list(cases), list(results)
    for c, r in extra:
        cs.append(dict(c, profile="release"))
        rs.append(r)
    return cs, rs, len(extra)
