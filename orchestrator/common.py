"""helpers shared by the per-property check modules"""
import random

from .vlib import *  # noqa


def model_spec(x, basis, nparams, init, scalar="f64", quant=None, builder_made=False, fail_below=None,
               dirty_fail=False):
    return {"x": [hx(v, scalar) for v in x], "basis": basis, "nparams": nparams,
            "init": [hx(v, scalar) for v in init], "quant": quant, "builder_made": builder_made,
            "fail_below": None if fail_below is None else hx(fail_below, scalar), "dirty_fail": dirty_fail}


def bits_list(hexes):
    return clist([cz(hxbits(h)) for h in hexes])


def log_to_coq(log, mx_of_eval, mx_of_deriv):
    """harness protocol log -> list (lentry V Mx); mx_of_eval(i)/mx_of_deriv(i,k) give the Coq term
    of the answer matrix of log entry i"""
    out = []
    for i, e in enumerate(log):
        if e[0] == "S":
            out.append("LS %s %s %s" % (bits_list(e[1]), cbool(e[2]), bits_list(e[3])))
        elif e[0] == "E":
            out.append("LE %s" % (copt(mx_of_eval(i)) if e[1] else "None"))
        elif e[0] == "D":
            out.append("LD %s %s" % (cnat(e[1]), copt(mx_of_deriv(i, e[1])) if e[2] else "None"))
    return clist(out)


def steps_by_op(res):
    return [(s["op"], s) for s in res.get("steps", [])]
