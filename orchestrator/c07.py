"""C07 — multiple right-hand sides: shared alpha, independent per-column coefficients"""
import copy
import random

from . import states
from .common import *


def main(tier, seed, replay=None):
    run = Run("C07", tier, seed, "proof")
    rng = random.Random(seed)
    proof_obligations(run, "C07")
    binp = build_harness("dev")
    n = 30 if tier == "quick" else 600
    groups = []
    for i in range(n):
        S = rng.randint(1, 6)
        par = i % 3 == 2
        many = i % 10 == 5
        if many:
            S = rng.choice([9, 11, 13, 17])
            par = i % 20 == 5
        big = i % 5 == 3
        if big:
            S = max(S, 2)
        c = gen_problem(rng, quant=(8 if i % 6 or many else None), S=S, ctor=("mrhs_parallel" if par else "mrhs"),
                        eps=(rng.choice([1e-3, 1e-2, -1e-3]) if big else None),
                        **({"family": rng.choice(["exp1l", "gaussc", "rat2"]), "N": rng.randint(4, 6)} if many else {}))
        if (c["meta"]["N"] >= 17 or i % 6 == 0) and S > 3 and not many:
            # long problems / full-precision model values with many columns are expensive in exact arithmetic (Qc normalises
            # with a gcd written in Gallina: minutes per state): keep three columns
            S = 3
            c["meta"]["S"] = 3
            Yl = [o for o in c["build"] if o[0] == "obs"][-1]
            Yl[2] = Yl[2][:3]
        Y = [o for o in c["build"] if o[0] == "obs"][-1]
        if big:
            # columns of very different magnitude together with a sizeable absolute threshold: what happens to one column (which
            # singular directions are kept) must not depend on the size of another
            sc0 = c["scalar"]
            kcol = rng.randrange(S)
            Y[2][kcol] = [hx(unhx(h) * 4096.0, sc0) for h in Y[2][kcol]]
            c["meta"]["big_column"] = kcol
        if S >= 2 and i % 4 == 0:
            Y[2][1] = list(Y[2][0])                         # duplicated column
        if S >= 3 and i % 4 == 1:
            sc = c["scalar"]
            Y[2][2] = [hx(round_to(2 * unhx(a) - unhx(b), sc), sc) for a, b in zip(Y[2][0], Y[2][1])]  # dependent column
        if S >= 2 and i % 4 == 2:
            # an observation column that is identically zero (its coefficients are exactly zero): nothing about the OTHER columns
            # may depend on it, wherever it stands — in particular in first position
            zc = 0 if i % 8 == 2 else rng.randrange(S)
            Y[2][zc] = [hx(0.0, c["scalar"])] * c["meta"]["N"]
            c["meta"]["zero_column"] = zc
        ops = states.observe_at(rng, c, nsets=1)
        c["ops"] = ops
        singles = []
        for s in range(S):
            d = copy.deepcopy(c)
            d["ctor"] = "new_parallel" if par else "new"
            Yd = [o for o in d["build"] if o[0] == "obs"][-1]
            Yd[2] = [list(Y[2][s])]
            d["meta"] = dict(c["meta"], S=1)
            d["ops"] = ops
            singles.append(d)
        perm = list(range(S))
        rng.shuffle(perm)
        pc = copy.deepcopy(c)
        Yp = [o for o in pc["build"] if o[0] == "obs"][-1]
        Yp[2] = [list(Y[2][k]) for k in perm]
        groups.append((c, singles, pc, perm))
    cases = []
    for c, singles, pc, perm in groups:
        cases += [c] + singles + [pc]
    results, nterms, nskip, hist = states.run_states(run, "C07", binp, cases, 7, lambda code: code >= 2 and code != 1, "multi-rhs problem")
    # several right-hand sides over exactly rank-deficient bases with a user threshold (truncation active): EVERY column gets the
    # minimum-norm least-squares solution of its own single-column problem
    rterms, rhist = states.run_rankdef(run, "C07", binp, rng, 16 if tier == "quick" else 300, (3, 4, 8),
                                       ctors=["mrhs", "mrhs", "mrhs_parallel"], S=[2, 3, 2, 4], skip_dependency_defect=True)
    run.coverage["rank_deficient_multi_rhs_states"] = len(rterms)
    run.coverage["rank_deficient_code_histogram"] = {str(k): v for k, v in rhist.items()}
    it = iter(results)
    nbit, nbit_eq = 0, 0
    for c, singles, pc, perm in groups:
        rm = next(it)
        rs = [next(it) for _ in singles]
        rp = next(it)
        if rm.get("steps") is None or any(r.get("steps") is None for r in rs) or rp.get("steps") is None:
            continue
        N, S, P, M = c["meta"]["N"], c["meta"]["S"], c["meta"]["P"], c["meta"]["M"]
        for k, st in enumerate(rm["steps"]):
            if st["op"] == "observe" and st["v"]["coef"] is not None:
                for s in range(S):
                    a = rs[s]["steps"][k]["v"]
                    if a["coef"] is None:
                        run.violation("single right-hand side problem has no coefficients where the multi-rhs problem has", {"case": c, "s": s})
                        continue
                    nbit += 1
                    same = a["coef"]["cols"][0] == st["v"]["coef"]["cols"][s] and a["resid"] == st["v"]["resid"][s * N:(s + 1) * N]
                    nbit_eq += 1 if same else 0
                    if S == 1 and not same:
                        run.violation("a one-column multi-rhs problem differs from the single-rhs problem", {"case": c, "step": k,
                                      "multi": st["v"], "single": a})
                # permuted observation columns: permuted coefficient columns / residual blocks (compared through the exact spec above;
                # here: shapes and block correspondence up to rounding of the matrix kernels)
                pv = rp["steps"][k]["v"]
                if pv["coef"] is None or pv["coef"]["c"] != S or len(pv["resid"]) != N * S:
                    run.violation("permuted problem has a different shape", {"case": pc})
            if st["op"] == "jac_quiet" and st["v"] is not None and S == 1:
                a = rs[0]["steps"][k]["v"]
                if a != st["v"]:
                    run.violation("Jacobian of a one-column multi-rhs problem differs from the single-rhs problem", {"case": c})
    run.coverage.update({
        "evaluations": len(cases), "distinct_nontrivial": len(groups),
        "rule": "multi-rhs problems with 1-6 observation columns (every fourth with a duplicated, every fourth with a linearly dependent "
                "column; sequential and parallel), each next to the S single-rhs problems of its columns and to a column-permuted copy; all "
                "of them compared with the exact specification (coefficients, residual blocks, Jacobian blocks), whose per-column / "
                "permutation structure is proved (C07_coeffs_col, C07_resid_col, C07_jac_block, C07_perm); one-column multi-rhs vs "
                "single-rhs bit-exact",
        "state_code_histogram": {str(k): v for k, v in hist.items()}, "skipped_ill_conditioned": nskip,
        "column_vs_single_comparisons": nbit, "of_which_bit_identical": nbit_eq})
    run.samples = [{"ctor": c["ctor"], "scalar": c["scalar"], "meta": c["meta"], "perm": perm} for c, s, pc, perm in groups[:3]]
    run.assumptions = ["multi-column and single-column solves may use different nalgebra kernels: agreement is required through the exact "
                       "specification (tolerance rule), bit-identity only for S = 1"]
    return run.finish()
