"""C15 — model builder accepts exactly valid specifications; errors name a real defect"""
import itertools
import random

from . import mb
from .common import *


def alphabet(names):
    a, b = 1, 2
    ops = []
    for fps in ([a], [b], [a, b], [b, a], [a, a], []):
        for ar in (1, 2):
            ops.append(("function", fps, ar, 1))
    for n in (a, b, 3):
        for ar in (1, 2):
            ops.append(("partial_deriv", n, ar, 2))
    ops.append(("invariant", 3))
    ops.append(("x", [1, 2, 3]))
    ops.append(("init", [5] * len(names)))
    ops.append(("init", [5] * (len(names) + 1)))
    return ops


def random_program(rng):
    """mostly-valid programs with injected defects"""
    P = rng.randint(1, 4)
    names = list(range(1, P + 1))
    if rng.random() < 0.08:
        names[rng.randrange(P)] = rng.choice([0, 1000 + rng.randint(0, 3), names[0]])
    if rng.random() < 0.02:
        names = []
    ops = []
    tag = 1
    groups = []
    remaining = set(names)
    nfun = rng.randint(1, 4)
    for g in range(nfun):
        if rng.random() < 0.2:
            groups.append([("invariant", tag)])
            tag += 1
            continue
        k = rng.randint(1, max(1, min(len(names), 3)))
        pool = list(dict.fromkeys(names)) or [1]
        fps = rng.sample(pool, min(k, len(pool)))
        if remaining and rng.random() < 0.7:
            extra = [n for n in remaining if n not in fps]
            if extra and len(fps) < 10:
                fps = fps + extra[: rng.randint(0, len(extra))]
        remaining -= set(fps)
        ar = len(fps)
        grp = [("function", list(fps), ar, tag)]
        tag += 1
        dorder = list(fps)
        rng.shuffle(dorder)
        for n in dorder:
            grp.append(("partial_deriv", n, ar, tag))
            tag += 1
        groups.append(grp)
    if remaining and rng.random() < 0.85 and names:
        fps = list(remaining)[:10]
        grp = [("function", fps, len(fps), tag)]
        tag += 1
        for n in fps:
            grp.append(("partial_deriv", n, len(fps), tag))
            tag += 1
        groups.append(grp)
    extras = [[("x", [1, 2, 3])], [("init", [7] * len(names))]]
    allg = groups + extras
    rng.shuffle(allg)
    ops = [o for g in allg for o in g]
    # defects
    r = rng.random()
    if r < 0.45 and ops:
        kind = rng.choice(["drop", "dup", "swap", "arity", "name", "initlen", "stray", "repeat_x", "reinit"])
        i = rng.randrange(len(ops))
        if kind == "drop":
            ops.pop(i)
        elif kind == "dup":
            ops.insert(i, ops[i])
        elif kind == "swap" and len(ops) > 1:
            j = rng.randrange(len(ops))
            ops[i], ops[j] = ops[j], ops[i]
        elif kind == "arity":
            o = ops[i]
            if o[0] in ("function", "partial_deriv"):
                ops[i] = (o[0], o[1], max(1, min(10, o[2] + rng.choice([-1, 1]))), o[3])
        elif kind == "name":
            o = ops[i]
            if o[0] == "partial_deriv":
                ops[i] = (o[0], rng.choice([9, 0, 1000, 1]), o[2], o[3])
            elif o[0] == "function" and o[1]:
                f = list(o[1])
                f[rng.randrange(len(f))] = rng.choice([9, 0, 1001, f[0]])
                ops[i] = (o[0], f, o[2], o[3])
        elif kind == "initlen":
            ops.append(("init", [7] * (len(names) + rng.choice([-1, 1, 2]) if len(names) else 1)))
            rng.shuffle(ops)
        elif kind == "stray":
            ops.insert(i, ("partial_deriv", rng.choice(names or [1]), 1, 99))
        elif kind == "repeat_x":
            ops.insert(i, ("x", [4, 5]))
        elif kind == "reinit":
            ops.insert(i, ("init", [8] * len(names)))
    return names, ops


def main(tier, seed, replay=None):
    run = Run("C15", tier, seed, "proof")
    rng = random.Random(seed)
    proof_obligations(run, "C15")
    binp = build_harness("dev")
    progs = []
    maxlen = 3 if tier == "quick" else 4
    for names in ([1], [1, 2]):
        al = alphabet(names)
        if tier == "thorough":
            al = [o for o in al if not (o[0] == "function" and o[1] in ([], [2, 1]))]
        for L in range(0, maxlen + 1):
            for ops in itertools.product(al, repeat=L):
                progs.append((names, list(ops)))
    n_exh = len(progs)
    nrand = 3000 if tier == "quick" else 40000
    for _ in range(nrand):
        progs.append(random_program(rng))
    # names are compared as written: "w1", "w1 " and " w1" are three different names (unusual, legal) — random programs renamed
    # into such whitespace twins keep their verdict
    for _ in range(150 if tier == "quick" else 2000):
        names, ops = random_program(rng)
        pool = [701, 801, 901, 702, 802, 902]
        rng.shuffle(pool)
        ids = sorted(set(list(names) + [a for o in ops if o[0] == "function" for a in o[1]] + [o[1] for o in ops if o[0] == "partial_deriv"]))
        ids = [a for a in ids if 0 < a < 500]
        if len(ids) > len(pool):
            continue
        ren = {a: pool[j] for j, a in enumerate(ids)}
        rn = lambda a: ren.get(a, a)
        names = [rn(a) for a in names]
        ops = [(o[0], [rn(a) for a in o[1]]) + tuple(o[2:]) if o[0] == "function" else
               (o[0], rn(o[1])) + tuple(o[2:]) if o[0] == "partial_deriv" else o for o in ops]
        progs.append((names, ops))
    cases = []
    for i, (names, ops) in enumerate(progs):
        c = mb.to_harness(names, ops, scalar="f64" if i % 7 else "f32")
        c["id"] = i
        cases.append(c)
    workdir = os.path.join(COQ, "run", "C15")
    results = run_harness(binp, "mbuilder", cases, workdir, timeout_ms=10000, shards=NPROC)
    rel = release_differences("mbuilder", cases, results, workdir, timeout_ms=10000, every=(3 if tier == "quick" else 10), with_index=True)
    for k, c, rr in rel:        # release-profile runs that differ from the dev profile are judged like any other
        progs.append(progs[k])
        results.append(rr)
    run.coverage["release_profile_cases_differing_from_dev"] = len(rel)
    terms, idx = [], []
    hist = {}
    nvalid = 0
    distinct = set()
    for (names, ops), r in zip(progs, results):
        if r.get("timeout"):
            run.violation("model builder hung", {"names": names, "ops": ops})
            continue
        t = mb.term(names, ops, None, r)
        if t is None:
            run.violation("model builder returned an error the model cannot express", {"names": names, "ops": ops, "result": r})
            continue
        kind = "panic" if r.get("panic") is not None else ("ok" if r["head"]["ok"] else r["head"]["kind"])
        hist[kind] = hist.get(kind, 0) + 1
        spec_ok = mb.valid_spec(names, ops)
        if spec_ok:
            nvalid += 1
        # second opinion: the declarative validity predicate must agree with the implementation's verdict
        if spec_ok != (kind == "ok"):
            run.violation("build() verdict differs from the declarative validity predicate (spec says %s, implementation %s)"
                          % ("valid" if spec_ok else "invalid", kind),
                          {"names": names, "ops": ops, "implementation": r, "model_term": mb.show_term(names, ops)},
                          key="spec-verdict")
            continue
        terms.append(t)
        idx.append((names, ops, r))
        distinct.add((tuple(names), repr(ops)))
    codes = coq_eval("C15", mb.HEADER, terms, shards=NPROC)
    nbad = 0
    for (names, ops, r), code, t in zip(idx, codes, terms):
        if code != 0:
            nbad += 1
            if nbad <= 3:
                shown = coq_show("C15", mb.HEADER, mb.show_term(names, ops))
                run.violation("model builder disagrees with the model (code %d)" % code,
                              {"names": names, "ops": ops, "implementation": r, "coq_term": t, "model_says": shown})
    run.coverage.update({
        "evaluations": len(progs), "distinct_nontrivial": len(distinct),
        "rule": "every builder program of length <= %d over a %d-call alphabet on model parameter lists [a] and [a,b] "
                "(exhaustive: %d programs) plus %d random mostly-valid programs (1-4 parameters, arities 1-10, 1-5 functions, "
                "shuffled groups) with one injected defect in ~45%%; distinct = distinct (names, call sequence)"
                % (maxlen, len(alphabet([1])), n_exh, nrand),
        "verdict_histogram": hist, "valid_programs": nvalid, "exhaustive_part": n_exh,
        "traces_validated_against_impl": len(idx)})
    run.samples = [{"names": n, "ops": o, "implementation": r.get("head")} for n, o, r in idx[-2:]]
    run.assumptions = ["user closures matter to the builder only through their arity (ARGUMENT_COUNT)",
                       "error values are compared including payloads, parsed from their Debug rendering"]
    return run.finish()
