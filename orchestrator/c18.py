"""C18 — problem builder accepts exactly consistent inputs and starts at the model's alpha"""
import itertools
import random

from .common import *

HEADER = ("From Coq Require Import List Bool Arith ZArith NArith.\nImport ListNotations.\n"
          "From VP Require Import Model.Protocol Model.ProblemBuilder Model.Replay Exec.Common Exec.C18Run.\n")

CTORS = ["new", "mrhs", "new_parallel", "mrhs_parallel"]


def gen_cases(rng, tier):
    cases = []
    cid = 0

    def add(ctor, scalar, nout, rows, cols, wlen, eps, order=None, faults=None, dirty=False, reps=None):
        nonlocal cid
        x = [float(i + 1) for i in range(nout)]
        spec = model_spec(x, [["const"], ["expdecay", 0]], 1, [2.0], scalar=scalar, quant=8,
                          fail_below=(0.0 if dirty else None), dirty_fail=dirty)
        ops = []
        if rows is not None:
            ycols = [[hx(float((3 * i + 7 * j) % 11) - 4.0, scalar) for i in range(rows)] for j in range(cols)]
            ops.append(["obs", rows, ycols])
        if wlen is not None:
            # weights of both signs (a weight is a number, not a magnitude: the weighted data are w_i * y_is, sign included)
            ops.append(["weights", [hx((0.5 + 0.25 * i) * (-1.0 if i % 3 == 1 else 1.0), scalar) for i in range(wlen)]])
        if eps is not None:
            ops.append(["eps", hx(eps, scalar)])
        if reps:
            # repeated calls: earlier ones with different (possibly invalid) values must be overridden
            pre = []
            for r in reps:
                if r == "obs":
                    rr = rng.choice([0, 1, rows or 2, (rows or 2) + 1])
                    cc = cols if cols else 1
                    pre.append(["obs", rr, [[hx(1.0, scalar)] * rr for _ in range(cc)]])
                elif r == "weights":
                    pre.append(["weights", [hx(2.0, scalar)] * rng.choice([0, 1, 3, 5])])
                elif r == "eps":
                    pre.append(["eps", hx(rng.choice([-3.0, 0.125, 1e-3]), scalar)])
            present = set(o[0] for o in ops)
            pre = [o for o in pre if o[0] in present]
            ops = pre + ops
        if order is not None:
            # permute, keeping the relative order of calls of the same kind (the last one must stay last)
            kinds = [o[0] for o in ops]
            perm = list(range(len(ops)))
            rng.shuffle(perm)
            byk = {}
            for i in perm:
                byk.setdefault(kinds[i], []).append(i)
            for k in byk:
                byk[k].sort()
            it = {k: iter(v) for k, v in byk.items()}
            ops = [ops[next(it[kinds[i]])] for i in perm]
        cases.append({"id": cid, "scalar": scalar, "ctor": ctor, "model": spec, "faults": faults,
                      "build": ops, "ops": [["observe"], ["wdata"]],
                      "meta": {"nout": nout, "rows": rows, "cols": cols, "wlen": wlen, "eps": eps}})
        cid += 1

    nouts = [0, 1, 2, 3]
    rowss = [None, 0, 1, 2, 3, 4]
    wl = lambda rows: [None, 0, max((rows or 0) - 1, 0), rows or 0, (rows or 0) + 1]
    epss = [None, 2.0 ** -20, -(2.0 ** -20), 0.0, -0.0]
    k = 0
    for nout in nouts:
        for rows in rowss:
            for wlen in sorted(set(w for w in wl(rows) if w is not None), key=lambda z: z) + [None]:
                for eps in epss:
                    for mr in (True, False):
                        colss = [0, 1, 2] if mr else [1]
                        for cols in colss:
                            if rows is None and cols != colss[0]:
                                continue
                            k += 1
                            if tier == "quick" and k % 3 != 0:
                                continue
                            ctor = ("mrhs" if (k // 3) % 2 == 0 else "mrhs_parallel") if mr else \
                                   ("new" if (k // 3) % 2 == 0 else "new_parallel")
                            scalar = "f64" if k % 5 else "f32"
                            add(ctor, scalar, nout, rows, cols if rows is not None else None, wlen, eps)
    # order / repetition variations and fault variations on valid and invalid inputs
    nvar = 150 if tier == "quick" else 1500
    for _ in range(nvar):
        ctor = rng.choice(CTORS)
        mr = ctor.startswith("mrhs")
        nout = rng.choice([1, 2, 3, 4])
        rows = rng.choice([nout, nout, nout, nout + 1, 0, None])
        cols = rng.choice([1, 2, 3]) if mr else 1
        wlen = rng.choice([None, rows if rows else 1, rows if rows else 1, (rows or 0) + 1])
        eps = rng.choice(epss + [-1e-6, 1e-3])
        faults = rng.choice([None, None, {"at": [0]}, {"at": [1]}, {"persistent_from": 0}, {"persistent_from": 1}])
        dirty = rng.random() < 0.2
        reps = rng.choice([None, ["obs"], ["weights", "eps"], ["obs", "weights", "eps", "obs"]])
        add(ctor, rng.choice(["f64", "f32"]), nout, rows, cols if rows is not None else None, wlen, eps,
            order=True, faults=faults, dirty=dirty, reps=reps)
    return cases


def coq_term(case, res):
    scalar = case["scalar"]
    f64 = scalar == "f64"
    nout = len(case["model"]["x"])
    init = bits_list(case["model"]["init"])
    bops = []
    for i, o in enumerate(case["build"]):
        if o[0] == "obs":
            bops.append("BObs (%s, %s, %s)" % (cnat(o[1]), cnat(len(o[2])), cN(i)))
        elif o[0] == "weights":
            bops.append("BWeights (%s, %s)" % (cnat(len(o[1])), cN(i)))
        else:
            bops.append("BEps %s" % cz(hxbits(o[1])))
    head = res.get("head")
    if head is None:
        return None
    if head["build"] == "err":
        e = head["err"]
        k = e["kind"]
        if k == "InvalidLengthOfData":
            ex = "XErr (InvalidLengthOfData %s %s)" % (cnat(e["x_length"]), cnat(e["y_length"]))
        elif k in ("YDataMissing", "ZeroLengthVector", "InvalidLengthOfWeights"):
            ex = "XErr %s" % k
        else:
            return None
        log = head["log"]
    else:
        steps = dict(steps_by_op(res))
        ob = steps["observe"]["v"]
        wd = steps["wdata"]
        ex = "XOk %s %s %s %s %s" % (bits_list(ob["params"]), cbool(ob["resid"] is not None),
                                      cbool(ob["coef"] is not None), cz(hxbits(wd["eps"])), cbool(wd["unit_weights"]))
        log = steps["end"]["log"]
    lg = log_to_coq(log, lambda i: "(%s, 2%%nat, %s)" % (cnat(nout), cN(i)), lambda i, k: "(0%%nat,0%%nat,%s)" % cN(i))
    return "c18_check %s %s 1%%nat %s %s %s (%s)" % (cbool(f64), cnat(nout), init, lg, clist(bops), ex)


def wdata_ok(case, res):
    """the weighted data must be exactly (IEEE) w_i * y_is of the last observation / weights calls"""
    steps = dict(steps_by_op(res))
    wd = steps["wdata"]["v"]
    obs = [o for o in case["build"] if o[0] == "obs"][-1]
    ws = [o for o in case["build"] if o[0] == "weights"]
    scalar = case["scalar"]
    cols = obs[2]
    if wd["r"] != obs[1] or wd["c"] != len(cols):
        return False
    for j, col in enumerate(cols):
        for i, h in enumerate(col):
            y = unhx(h)
            v = y if not ws else round_to(unhx(ws[-1][1][i]) * y, scalar)
            if hxbits(wd["cols"][j][i]) != hxbits(hx(v, scalar)):
                return False
    return True


def main(tier, seed, replay=None):
    run = Run("C18", tier, seed, "proof")
    rng = random.Random(seed)
    proofs_ok = proof_obligations(run, "C18")
    binp = build_harness("dev")
    cases = gen_cases(rng, tier)
    workdir = os.path.join(COQ, "run", "C18")
    results = run_harness(binp, "scenario", cases, workdir, timeout_ms=10000)
    cases, results, nrel = with_release("scenario", cases, results, workdir, timeout_ms=10000)
    run.coverage["release_profile_cases_differing_from_dev"] = nrel
    terms, idx = [], []
    kinds = {}
    distinct = set()
    for c, r in zip(cases, results):
        if r.get("panic") or r.get("timeout"):
            run.violation("builder panicked / hung: %s" % (r.get("panic") or "timeout"),
                          {"case": c, "result": r})
            continue
        t = coq_term(c, r)
        if t is None:
            run.violation("builder returned an error kind the model does not know", {"case": c, "result": r})
            continue
        terms.append(t)
        idx.append((c, r))
        hk = r["head"]["build"] if r["head"]["build"] == "ok" else r["head"]["err"]["kind"]
        kinds[hk] = kinds.get(hk, 0) + 1
        m = c["meta"]
        distinct.add((c["ctor"], m["nout"], m["rows"], m["cols"], m["wlen"], None if m["eps"] is None else (m["eps"] > 0),
                      hk, json.dumps(c["faults"], sort_keys=True), tuple(o[0] for o in c["build"])))
    codes = coq_eval("C18", HEADER, terms)
    nbad = 0
    for (c, r), code, t in zip(idx, codes, terms):
        ok = code == 0
        if ok and r["head"]["build"] == "ok" and not wdata_ok(c, r):
            ok, code = False, 100
        if not ok:
            nbad += 1
            if nbad <= 3:
                shown = coq_show("C18", HEADER, t.replace("c18_check", "c18_build", 1).rsplit(" (X", 1)[0])
                run.violation("problem builder disagrees with the model (code %d: %s)" % (code, CODES.get(code, "?")),
                              {"case": c, "implementation": r, "coq_term": t, "model_says": shown,
                               "meaning": "the property text decides: the model's verdict is the specified one"})
    # the threshold is USED by its absolute value: the state a freshly built problem exposes, for large absolute thresholds that are
    # still below every singular value of a scaled-up basis (and negative ones), against the exact least-squares specification
    from . import num, states
    ecases = []
    for i in range(24 if tier == "quick" else 400):
        c = gen_problem(rng, quant=(8 if i % 3 else None), scalar=("f32" if i % 6 == 5 else "f64"))
        scale_up_for_eps(rng, c)
        c["ops"] = list(states.OBS)
        ecases.append(c)
    _, neps, nskip_eps, ehist = states.run_states(run, "C18", binp, ecases, 3, lambda code: code in (2, 3, 4, 5), "state right after build()")
    # weights that make W Phi overflow / non-finite although the model itself evaluates to finite values: build() still returns
    # (no panic, no hang), and exposes no residuals / coefficients for a matrix it cannot decompose
    ocases = []
    for i in range(12 if tier == "quick" else 120):
        sc = "f32" if i % 3 == 2 else "f64"
        c = gen_problem(rng, quant=8, scalar=sc, family="exp1l", N=8, weights="none", ctor=CTORS[i % 4])
        big = 3.4028234663852886e38 if sc == "f32" else 1.7976931348623157e308
        bad = [big, float("inf"), -big, float("nan"), float("-inf")][i % 5]
        w = [1.0] * 8
        if i % 2:
            w = [bad] * 8
        else:
            w[rng.randrange(5, 8)] = bad       # the linear basis function exceeds 1 there: max-float * phi overflows
        c["build"].append(["weights", [hx(v, sc) for v in w]])
        rng.shuffle(c["build"])
        c["ops"] = [["observe"], ["tables"]]
        c["id"] = 50000 + i
        ocases.append(c)
    ores = run_harness(binp, "scenario", ocases, workdir, timeout_ms=10000, tag="ovf")
    novf = 0
    for c, r in zip(ocases, ores):
        if r.get("panic") is not None or r.get("timeout") or (r.get("head") or {}).get("build") != "ok":
            run.violation("builder panicked / hung / failed on weights that make the weighted basis matrix non-finite: %s"
                          % (r.get("panic") or ("timeout" if r.get("timeout") else "build failed")), {"case": c, "result": r})
            continue
        st = dict(steps_by_op(r))
        ob, tb = st["observe"]["v"], st["tables"]["v"]
        if tb["phi"] is None:
            continue
        wv = [unhx(h) for h in [o for o in c["build"] if o[0] == "weights"][-1][1]]
        nonfinite = any(not is_finite_hex(hx(round_to(wv[i] * unhx(h), c["scalar"]), c["scalar"]))
                        for col in tb["phi"]["cols"] for i, h in enumerate(col))
        if nonfinite:
            novf += 1
            if ob["resid"] is not None or ob["coef"] is not None:
                run.violation("a problem whose weighted basis matrix is not finite exposes residuals / coefficients right after build()",
                              {"case": c, "observe": ob})
    run.coverage["overflowing_weight_cases"] = novf
    # models with MANY basis functions (16 / 24 well-separated columns, 40 / 60 samples): the freshly built problem exposes residuals,
    # coefficients and a Jacobian like any other, and the residuals are W(Y - Phi C) for the coefficients shown
    wcases = []
    for i in range(6 if tier == "quick" else 40):
        fam = ["comb16", "comb24"][i % 2]
        c = gen_problem(rng, quant=None, scalar=("f32" if i % 3 == 2 else "f64"), family=fam, N=(40 if fam == "comb16" else 60),
                        weights=["none", "pos"][i % 2], ctor=CTORS[i % 4], builder_made=(i % 3 == 1))
        c["ops"] = [["observe"], ["jac_quiet"], ["tables"]]
        c["id"] = 60000 + i
        wcases.append(c)
    wres = run_harness(binp, "scenario", wcases, workdir, timeout_ms=20000, tag="wide")
    nwide = 0
    for c, r in zip(wcases, wres):
        if r.get("panic") is not None or r.get("timeout") or (r.get("head") or {}).get("build") != "ok":
            run.violation("builder panicked / hung / failed on a model with many basis functions", {"case": c, "result": r})
            continue
        st = dict(steps_by_op(r))
        ob, jq, tb = st["observe"]["v"], st["jac_quiet"]["v"], st["tables"]["v"]
        if tb["phi"] is None or not num.all_finite_mat(tb["phi"]):
            continue
        nwide += 1
        if ob["resid"] is None or ob["coef"] is None or jq is None:
            run.violation("a freshly built problem over %d basis functions exposes no residuals / coefficients / Jacobian although the model "
                          "evaluates at its parameters" % c["meta"]["M"], {"case": c, "observe": ob, "jacobian_present": jq is not None})
            continue
        # residuals = W (Y - Phi C) for the coefficients shown (plain products in exact rational arithmetic)
        wv = num.weights_of(c)
        Yc = num.obs_of(c)
        phi = [[frac(h) for h in col] for col in tb["phi"]["cols"]]
        N, S = c["meta"]["N"], len(Yc)
        err = nrm = Fraction(0)
        for s_ in range(S):
            cf = [frac(h) for h in ob["coef"]["cols"][s_]]
            for i_ in range(N):
                w_i = Fraction(1) if wv is None else frac(wv[i_])
                want = w_i * (frac(Yc[s_][i_]) - sum(phi[j_][i_] * cf[j_] for j_ in range(len(cf))))
                err += (want - frac(ob["resid"][s_ * N + i_])) ** 2
                nrm += (w_i * frac(Yc[s_][i_])) ** 2 + (w_i * sum(abs(phi[j_][i_] * cf[j_]) for j_ in range(len(cf)))) ** 2
        tol = Fraction(1, 10 ** 20) if c["scalar"] == "f64" else Fraction(1, 10 ** 8)
        if err > tol * max(nrm, Fraction(1, 10 ** 30)) * c["meta"]["M"] ** 2:
            run.violation("a freshly built problem over %d basis functions: residuals are not W(Y - Phi C) for the coefficients shown"
                          % c["meta"]["M"], {"case": c, "observe": ob})
    run.coverage["many_basis_function_cases"] = nwide
    run.coverage.update({
        "states_after_build_with_large_thresholds": neps, "of_which_skipped_ill_conditioned": nskip_eps,
        "evaluations": len(cases), "distinct_nontrivial": len(distinct),
        "rule": "grid over model output length 0..3 x observation rows absent/0..4 x cols 0..2 x weight length "
                "absent/0/rows-1/rows/rows+1 x epsilon absent/+/-/+0/-0 over the four constructors and f32/f64 "
                "(quick: every third point), plus random programs with permuted and repeated builder calls and "
                "model faults during construction; distinct = distinct (ctor, shape tuple, eps sign, outcome, "
                "fault plan, call order); every case is non-trivial (exercises validation or construction)",
        "outcome_histogram": kinds, "exhaustive": tier == "thorough",
        "traces_validated_against_impl": len(idx)})
    run.samples = [{"case": {k: v for k, v in c.items() if k != "model"}, "implementation_head": r["head"]} for c, r in idx[:2]]
    run.assumptions = ["the four constructors differ only in const generics (checked: all four run the same cases)",
                       "LevMarBuilderError is classified through its Debug rendering"]
    return run.finish()


CODES = {1: "different error kind / payload", 2: "model calls differ from the protocol (log not consumed)",
         3: "params() differ", 4: "residual presence", 5: "coefficient presence", 6: "svd epsilon",
         7: "weights kind", 8: "model rejects, implementation accepts", 9: "model accepts, implementation rejects",
         100: "weighted data is not w_i*y_is of the last calls"}
