"""C08 — construction and fitting always terminate without panicking (partial: level 'other')"""
import copy
import random

from . import fits
from . import statsrun
from .common import *

NAN, INF = float("nan"), float("inf")


def extremes(scalar):
    if scalar == "f32":
        return [0.0, -0.0, 1e-45, 1.17549435e-38, 1e-30, 1e30, 3.4028235e38, INF, -INF, NAN, -1.0, 1.0]
    return [0.0, -0.0, 5e-324, 2.2250738585072014e-308, 1e-300, 1e300, 1.7976931348623157e308, INF, -INF, NAN, -1.0, 1.0]


def poke(rng, c):
    """put one extreme value somewhere; returns a description"""
    sc = c["scalar"]
    v = rng.choice(extremes(sc))
    where = rng.choice(["x", "y", "w", "alpha", "alpha_all", "set", "wlen", "wlen", "ylen"])
    m = c["meta"]
    if where == "wlen":
        # a weight vector of a wrong (but plausible) length: one per data element, one per column, off by one, empty
        L = rng.choice([m["N"] * max(m["S"], 2)] * 5 + [m["S"], m["N"] + 1, max(m["N"] - 1, 0), 0, 2 * m["N"]])
        c["build"] = [o for o in c["build"] if o[0] != "weights"] + [["weights", [hx(rng.uniform(0.5, 2.0), sc) for _ in range(L)]]]
        return where, L
    if where == "ylen":
        ob = [o for o in c["build"] if o[0] == "obs"][-1]
        L = rng.choice([m["N"] + 1, max(m["N"] - 1, 0), 0, 2 * m["N"]])
        ob[1] = L
        ob[2] = [[hx(rng.uniform(-1, 1), sc) for _ in range(L)] for _ in ob[2]]
        return where, L
    if where == "x":
        c["model"]["x"][rng.randrange(m["N"])] = hx(v, sc)
    elif where == "y":
        Y = [o for o in c["build"] if o[0] == "obs"][-1][2]
        Y[rng.randrange(len(Y))][rng.randrange(m["N"])] = hx(v, sc)
    elif where == "w":
        ws = [o for o in c["build"] if o[0] == "weights"]
        if not ws:
            c["build"].append(["weights", [hx(1.0, sc)] * m["N"]])
            ws = [c["build"][-1]]
        ws[-1][1][rng.randrange(m["N"])] = hx(v, sc)
    elif where == "alpha":
        c["model"]["init"][rng.randrange(m["P"])] = hx(v, sc)
    elif where == "alpha_all":
        c["model"]["init"] = [hx(v, sc)] * m["P"]
    else:
        c["ops"].insert(1, ["set", [hx(v, sc)] * m["P"]])
    return where, v


def gen_cases(rng, tier):
    cases = []
    n = 260 if tier == "quick" else 6000
    fams = list(FAMILIES)
    for i in range(n):
        fam = fams[i % len(fams)]
        M = len(FAMILIES[fam][0])
        shape = i % 5
        N = [M + 3, M, 1, 2, M + 1][shape]          # also N < M and N = 1
        stats = (i % 4 == 3)
        ctor = "new" if stats else ["new", "mrhs", "new_parallel", "mrhs_parallel"][i % 4]
        c = gen_problem(rng, family=fam, N=N, ctor=ctor, quant=None, scalar=("f32" if i % 3 == 0 else "f64"),
                        builder_made=(i % 7 == 0))
        lo, hi = c["meta"]["range"]
        cfg = {"patience": rng.choice([1, 3, 10, 100])}
        far = [hx(v, c["scalar"]) for v in [rng.choice([-0.01, -1.0, 0.0, 1e-3, 50.0, -50.0]) for _ in range(c["meta"]["P"])]]
        c["ops"] = [["observe"], ["jac"], ["set", far], ["observe"], ["jac"],
                    (["fit_stats", cfg, [hx(0.9, c["scalar"])]] if stats else ["fit", cfg]), ["observe"], ["jac"]]
        c["meta"]["poke"] = None
        if i % 6 != 5:
            pk = poke(rng, c)
            c["meta"]["poke"] = [pk[0], repr(pk[1])]
        c["meta"]["cfg"] = cfg
        cases.append(c)
    # weight vectors of every plausible wrong length on multi-column problems (one per data element, one per column, off by one, empty)
    for ctor in ("mrhs", "mrhs_parallel", "new"):
        for S in ((2, 3) if ctor != "new" else (1,)):
            for wk in range(6):
                c = gen_problem(rng, family="exp2c", N=5, S=S, ctor=ctor, quant=8, scalar=("f32" if wk % 2 else "f64"), weights="none", builder_made=(wk == 3))
                L = [5 * S, S, 6, 4, 0, 10][wk]
                c["build"] = [o for o in c["build"] if o[0] != "weights"] + [["weights", [hx(1.5, c["scalar"])] * L]]
                cfg = {"patience": 5}
                c["ops"] = [["observe"], ["jac"], ["fit", cfg], ["observe"]]
                c["meta"]["poke"] = ["wlen_grid", L]
                c["meta"]["cfg"] = cfg
                cases.append(c)
    # legal but unusual thresholds: exactly zero (of both signs: "never truncate"), the smallest subnormal, huge, infinite, NaN — on
    # ordinary problems with two to four basis functions; construction, updates and the whole fit return
    for j in range(16 if tier == "quick" else 160):
        fam = ["exp2c", "exp3", "cosmix", "gaussc"][j % 4]
        M = len(FAMILIES[fam][0])
        c = gen_problem(rng, family=fam, N=M + 4 + j % 5, ctor=["new", "mrhs", "new_parallel", "mrhs_parallel"][j % 4], quant=None,
                        scalar=("f32" if j % 5 == 4 else "f64"), builder_made=(j % 3 == 0), weights=["none", "pos"][j % 2])
        e = [0.0, -0.0, 5e-324, 0.0, 1e300, INF, NAN, -0.0][j % 8]
        if c["scalar"] == "f32" and e == 5e-324:
            e = 1e-45
        c["build"] = [o for o in c["build"] if o[0] != "eps"] + [["eps", hx(e, c["scalar"])]]
        rng.shuffle(c["build"])
        cfg = {"patience": 20}
        a = [hx(v, c["scalar"]) for v in distinct_params(rng, c["meta"]["P"], *c["meta"]["range"])]
        c["ops"] = [["observe"], ["jac"], ["set", a], ["observe"], ["jac"], ["fit", cfg], ["observe"], ["jac"]]
        c["meta"]["poke"] = ["threshold", repr(e)]
        c["meta"]["cfg"] = cfg
        cases.append(c)
    # a fit that is "successful" without the optimizer ever looking at the Jacobian (observations identically zero: ResidualsZero) at
    # parameters whose DERIVATIVES are not finite while the basis functions are (tau^2 underflows): the statistics must still return
    for j in range(12 if tier == "quick" else 120):
        fam = ["exp2c", "exp1l", "exp1"][j % 3]
        M = len(FAMILIES[fam][0])
        c = gen_problem(rng, family=fam, N=M + FAMILIES[fam][1] + 2 + j % 3, ctor="new", quant=None, scalar=("f32" if j % 4 == 3 else "f64"),
                        builder_made=(j % 5 == 0), weights=["none", "pos"][j % 2])
        tiny = [1e-200, 1e-300, 5e-324, 1e-160][j % 4] if c["scalar"] == "f64" else [1e-30, 1e-38, 1e-45, 1e-25][j % 4]
        c["model"]["init"] = [hx(tiny, c["scalar"])] * c["meta"]["P"]
        Y = [o for o in c["build"] if o[0] == "obs"][-1]
        Y[2] = [[hx(0.0, c["scalar"])] * c["meta"]["N"] for _ in Y[2]]
        cfg = {}
        c["ops"] = [["observe"], ["jac"], ["fit_stats", cfg, [hx(0.9, c["scalar"])]], ["observe"], ["jac"]]
        c["meta"]["poke"] = ["zero_data_nonfinite_derivatives", repr(tiny)]
        c["meta"]["cfg"] = cfg
        cases.append(c)
    # the same with derivatives that return an ERROR (builder-made model whose derivative closures have a wrong output length) at
    # ordinary parameters: the statistics are the first to evaluate them
    for j in range(8 if tier == "quick" else 60):
        fam = ["exp2c", "exp1l", "exp1"][j % 3]
        M = len(FAMILIES[fam][0])
        c = gen_problem(rng, family=fam, N=M + FAMILIES[fam][1] + 2 + j % 3, ctor="new", quant=8, scalar=("f32" if j % 4 == 3 else "f64"),
                        builder_made=True, weights=["none", "pos"][j % 2])
        c["model"]["deriv_len_delta"] = [1, -1, 3, 2][j % 4]
        Y = [o for o in c["build"] if o[0] == "obs"][-1]
        Y[2] = [[hx(0.0, c["scalar"])] * c["meta"]["N"] for _ in Y[2]]
        cfg = {}
        c["ops"] = [["observe"], ["jac"], ["fit_stats", cfg, [hx(0.9, c["scalar"])]], ["observe"], ["jac"]]
        c["meta"]["poke"] = ["zero_data_failing_derivatives", c["model"]["deriv_len_delta"]]
        c["meta"]["cfg"] = cfg
        cases.append(c)
    return cases


def main(tier, seed, replay=None):
    run = Run("C08", tier, seed, "other")
    rng = random.Random(seed)
    proof_obligations(run, "C08")
    cases = gen_cases(rng, tier)
    for i, c in enumerate(cases):
        c["id"] = i
    classes = {}
    pokes = {}
    ncases = 0
    for profile in ("dev", "release"):
        binp = build_harness(profile)
        results = run_harness(binp, "scenario", cases, os.path.join(COQ, "run", "C08"), timeout_ms=10000, tag=profile)
        for c, r in zip(cases, results):
            ncases += 1
            pk = c["meta"]["poke"]
            pokes[str(pk[0]) if pk else "none"] = pokes.get(str(pk[0]) if pk else "none", 0) + 1
            desc = "%s, N=%d M=%d P=%d S=%d, %s, extreme value %s" % (c["ctor"], c["meta"]["N"], c["meta"]["M"], c["meta"]["P"], c["meta"]["S"],
                                                                   c["scalar"], pk)
            if r.get("skipped"):
                run.violation("cases skipped after too many hung runs", {"case": c}, no_failing_input=True)
                continue
            if r.get("timeout"):
                classes["timeout"] = classes.get("timeout", 0) + 1
                run.violation("did not return within 10 s (%s; %s)" % (profile, desc), {"case": c, "profile": profile}, key=c.get("known_key"))
                continue
            if r.get("panic") is not None:
                classes["panic"] = classes.get("panic", 0) + 1
                run.violation("panicked (%s; %s): %s" % (profile, desc, r["panic"]), {"case": c, "profile": profile, "result": r},
                              key=known_key(r["panic"]))
                continue
            if r["head"].get("build") != "ok":
                classes["build_err"] = classes.get("build_err", 0) + 1
                continue
            steps = r["steps"]
            fi = [k for k, o in enumerate(c["ops"]) if o[0] in ("fit", "fit_stats")][0]
            fit = steps[fi]["v"]
            if fit is None:
                classes["no_stats_flavour"] = classes.get("no_stats_flavour", 0) + 1
                continue
            cls = ("fit_ok" if fit["ok"] else "fit_err:" + fit["termination"].split("(")[0].split(" ")[0])
            classes[cls] = classes.get(cls, 0) + 1
            # non-finite model values must surface as a failed fit / rejected state
            log = steps[-1]["log"]
            last_e = None
            for e in log:
                if e[0] == "E":
                    last_e = e
            after = steps[fi + 1]["v"]
            if last_e is not None and last_e[1] and len(last_e) > 2 and not last_e[2] and after["resid"] is not None:
                run.violation("residuals are exposed although the last model evaluation was non-finite (%s)" % desc, {"case": c, "result": r})
            if fit["ok"] and after["resid"] is None:
                run.violation("a fit reported as successful has no residuals (%s)" % desc, {"case": c, "result": r})
    # model construction: arbitrary builder programs (valid and invalid, incl. closures of a wrong arity or output length), and
    # every call on whatever model results — an error value or a result, never a panic
    from . import c15, mb
    mprogs = []
    import itertools
    jj = 0
    for names0 in ([1], [1, 2]):
        al = c15.alphabet(names0)
        for L in range(0, 4 if tier == "quick" else 4):
            for ops0 in itertools.product(al, repeat=L):
                if tier == "quick" and L == 3 and (jj % 3):
                    jj += 1
                    continue
                jj += 1
                P0 = len(names0)
                calls0 = [("params",), ("eval",)] + [("deriv", k) for k in range(P0)]
                mc = mb.to_harness(names0, list(ops0), scalar="f64", calls=calls0)
                mc["id"] = 100000 + jj
                mprogs.append((names0, list(ops0), calls0, mc))
    for j in range(600 if tier == "quick" else 20000):
        names, ops = c15.random_program(rng)
        P = len(names)
        calls = [("params",), ("eval",)] + [("deriv", k) for k in range(P + 1)] + [("set", [rng.randint(11, 99) for _ in range(P)]), ("eval",)] \
            + [("deriv", k) for k in range(P)]
        mc = mb.to_harness(names, ops, scalar="f64" if j % 2 else "f32", calls=calls)
        mc["id"] = j
        mprogs.append((names, ops, calls, mc))
    mres = run_harness(build_harness("dev"), "mbuilder", [m[3] for m in mprogs], os.path.join(COQ, "run", "C08"), timeout_ms=10000, tag="mb")
    nmb_ok = 0
    for (names, ops, calls, mc), r in zip(mprogs, mres):
        if r.get("timeout") or r.get("panic") is not None:
            classes["model_builder_panic"] = classes.get("model_builder_panic", 0) + 1
            run.violation("model construction or a call on the constructed model panicked / hung: %s" % (r.get("panic") or "timeout"),
                          {"names": names, "ops": ops, "calls": calls, "result": r})
        elif r["head"]["ok"]:
            nmb_ok += 1
    classes["model_builder_programs"] = len(mprogs)
    classes["model_builder_programs_accepted"] = nmb_ok
    run.coverage.update({
        "explanation": "PARTIAL. Proved (coq/Props/C08.v): the protocol never decomposes a non-finite matrix, absent residuals end the fit "
                       "with an error, the optimizer's number of model updates is bounded by its reported evaluations, statistics / model "
                       "builder / builder-made models contain no reachable panic, column loops leave nothing uninitialised. NOT provable "
                       "here: that nalgebra's SVD / LU and the optimizer's QR return without panicking on every FINITE input (external "
                       "code, assumed). Explored instead: IEEE extremes (signed zeros, subnormals, largest finite values, infinities, NaN) "
                       "in x, y, w and alpha, degenerate shapes (N < M, N = 1), adversarial starts, fits with and without statistics, "
                       "each under a 10 s watchdog with panics caught.",
        "evaluations": ncases, "distinct_nontrivial": len(cases),
        "rule": "one extreme IEEE value injected into x / y / w / initial alpha / a caller-driven update for 5 of 6 cases; shapes N in {M+3, M, 1, 2, M+1}; "
                "8 model families, four constructors, f32/f64; history observe-jacobian-set(adversarial)-observe-jacobian-fit[with statistics]-"
                "observe-jacobian; outcome classes recorded; any panic or hang is a violation",
        "outcome_classes": classes, "extreme_value_positions": pokes})
    run.samples = [{"ctor": c["ctor"], "meta": c["meta"]} for c in cases[:3]]
    run.assumptions = ["nalgebra's SVD/LU and levenberg-marquardt's QR terminate without panicking on finite input (explored, not proved)"]
    return run.finish()


def known_key(msg):
    return None
