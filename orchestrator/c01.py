"""C01 — linear coefficients are the weighted least-squares optimum for the current alpha"""
import random

from . import num
from . import states
from .common import *


def gen_cases(rng, tier):
    cases = []
    n = 70 if tier == "quick" else 1500
    for i in range(n):
        quant = 8 if i % 4 else None      # every fourth case: full-precision model values
        # thresholds: default, tiny user values of both signs, and LARGE user values (still below every singular value:
        # nothing may be truncated, whatever the scale of the matrix)
        eps = None if i % 3 else rng.choice([1e-9, -1e-9, 1e-12, 1e-3, -1e-2, 0.03])
        c = gen_problem(rng, quant=quant, eps=eps)
        if eps is not None and abs(eps) >= 1e-3:
            # scale the problem up through the weights so that sigma_max >> 1 while the threshold stays absolute
            N = c["meta"]["N"]
            c["build"] = [o for o in c["build"] if o[0] != "weights"]
            k = rng.choice([32.0, 256.0, 1024.0])
            c["build"].insert(1, ["weights", [hx(k * rng.choice([1.0, 0.5, 2.0]), c["scalar"]) for _ in range(N)]])
            c["meta"]["weights"] = "scaled"
        m = c["meta"]
        lo, hi = m["range"]
        sc = c["scalar"]
        ops = [["observe"], ["tables"], ["svd"]]
        seen_a = []
        for _ in range(2):
            a = [hx(v, sc) for v in distinct_params(rng, m["P"], lo, hi)]
            seen_a.append(a)
            ops += [["set", a], ["observe"], ["tables"], ["svd"]]
        if i % 3 == 1:
            # going back to the preceding parameters and applying them once more (a, b, a, a), then the other ones twice (b, b):
            # whatever is remembered about earlier parameter vectors must not leak into the state of the current ones
            a, b = seen_a
            ops += [["set", a], ["set", a], ["observe"], ["tables"], ["svd"], ["set", b], ["set", b], ["observe"], ["tables"], ["svd"]]
        c["ops"] = ops
        cases.append(c)
    # user thresholds below machine epsilon on problems whose singular values all lie below machine epsilon too (tiny weights):
    # the configured threshold decides, not the resolution of the scalar type
    for j in range(8 if tier == "quick" else 120):
        c = gen_problem(rng, quant=(8 if j % 2 else None), family=["exp2c", "exp1l", "rat2", "gaussc"][j % 4],
                        scalar=("f32" if j % 4 == 3 else "f64"))
        scale_down_for_tiny_eps(rng, c)
        m = c["meta"]
        a = [hx(v, c["scalar"]) for v in distinct_params(rng, m["P"], *m["range"])]
        c["ops"] = [["observe"], ["tables"], ["svd"], ["set", a], ["observe"], ["tables"], ["svd"]]
        cases.append(c)
    # many right-hand sides on the parallel flavour inside SMALL thread pools (2 / 4 threads; 5, 9, 11 columns): however the columns
    # are divided among the workers, every one of them gets its coefficients
    for j in range(6 if tier == "quick" else 48):
        c = gen_problem(rng, quant=8, family=["exp1l", "exp2c", "rat2"][j % 3], ctor="mrhs_parallel", S=[5, 9, 11][j % 3], N=5 + j % 3,
                        scalar=("f32" if j % 6 == 5 else "f64"))
        c["threads"] = [2, 4][j % 2]
        m = c["meta"]
        a = [hx(v, c["scalar"]) for v in distinct_params(rng, m["P"], *m["range"])]
        c["ops"] = [["observe"], ["tables"], ["svd"], ["set", a], ["observe"], ["tables"], ["svd"]]
        cases.append(c)
    return cases


def linearity_twins(run, binp, rng, cases, tier):
    """the coefficients depend linearly on the observations: the same problem with every observation (or one column of several)
    multiplied by 2^-k is solved by exactly 2^-k times the coefficients — bit for bit, since scaling by a power of two commutes with
    every floating-point operation of a linear map (no underflow at these sizes). Regular and exactly rank-deficient bases, default
    and user thresholds."""
    import copy
    twins = []
    pool = [c for c in cases if c.get("profile") != "release"]
    rd = []
    for i in range(12 if tier == "quick" else 200):
        fam = list(RANKDEF)[i % len(RANKDEF)]
        c = gen_problem(rng, family=fam, quant=(8 if i % 3 else None), eps=rng.choice([1e-6, 1e-3, None]))
        c["ops"] = [["observe"]]
        rd.append(c)
    for c in rng.sample(pool, min(len(pool), 20 if tier == "quick" else 300)) + rd:
        k = rng.choice([10, 20, 40])
        f = 2.0 ** -k
        t = copy.deepcopy(c)
        Y = [o for o in t["build"] if o[0] == "obs"][-1]
        S = len(Y[2])
        cols = list(range(S)) if S == 1 or rng.random() < 0.5 else [rng.randrange(S)]
        for s in cols:
            Y[2][s] = [hx(unhx(h) * f, t["scalar"]) for h in Y[2][s]]
        base = copy.deepcopy(c)
        base["ops"] = [["observe"]]
        t["ops"] = [["observe"]]
        twins.append((base, t, f, cols))
    flat = []
    for b, t, f, cols in twins:
        flat += [b, t]
    for i, c in enumerate(flat):
        c["id"] = 9000 + i
    res = run_harness(binp, "scenario", flat, os.path.join(COQ, "run", "C01"), timeout_ms=20000, tag="lin")
    n = 0
    for j, (b, t, f, cols) in enumerate(twins):
        rb, rt = res[2 * j], res[2 * j + 1]
        if rb.get("steps") is None or rt.get("steps") is None or not rb["steps"] or not rt["steps"]:
            continue
        cb, ct = rb["steps"][0]["v"]["coef"], rt["steps"][0]["v"]["coef"]
        if cb is None or ct is None:
            if (cb is None) != (ct is None):
                run.violation("coefficients are present for one of (problem, problem with scaled observations) only", {"case": b, "scaled": t})
            continue
        n += 1
        for s in range(len(cb["cols"])):
            want = [unhx(h) * (f if s in cols else 1.0) for h in cb["cols"][s]]
            got = [unhx(h) for h in ct["cols"][s]]
            if any(not (a == g or (a != a and g != g)) for a, g in zip(want, got)):
                run.violation("coefficients are not linear in the observations: column %d of the observations scaled by 2^%d does not give "
                              "the coefficients scaled by the same factor" % (s, int(round(__import__("math").log2(f)))),
                              {"case": b, "scaled_case": t, "coefficients": cb, "coefficients_of_scaled_problem": ct, "factor": f, "columns": cols})
                break
    run.coverage["linearity_twins_bit_exact"] = n
    return n


def main(tier, seed, replay=None):
    run = Run("C01", tier, seed, "proof")
    rng = random.Random(seed)
    proof_obligations(run, "C01", extra_pins=("E2E",))
    binp = build_harness("dev")
    workdir = os.path.join(COQ, "run", "C01")
    cases = gen_cases(rng, tier)
    for i, c in enumerate(cases):
        c["id"] = i
    results = run_harness(binp, "scenario", cases, workdir, timeout_ms=20000)
    cases, results, nrel = with_release("scenario", cases, results, workdir, timeout_ms=20000)
    run.coverage["release_profile_cases_differing_from_dev"] = nrel
    terms, idx = [], []
    sterms, sidx = [], []
    svd_budget = 60 if tier == "quick" else 2000
    for c, r in zip(cases, results):
        if r.get("panic") is not None or r.get("timeout") or r["head"].get("build") != "ok":
            run.violation("construction / update panicked, hung or failed", {"case": c, "result": r})
            continue
        steps = r["steps"]
        k = 0
        while k + 1 < len(steps):
            if steps[k]["op"] == "observe" and steps[k + 1]["op"] == "tables":
                ob, tb = steps[k]["v"], steps[k + 1]["v"]
                if ob["coef"] is not None and not all(is_finite_hex(h) for col in ob["coef"]["cols"] for h in col):
                    run.violation("non-finite coefficients for finite model values", {"case": c, "step": k, "observe": ob})
                wv = num.weights_of(c)
                if ob["coef"] is None and tb["phi"] is not None and num.all_finite_mat(tb["phi"]) \
                        and (wv is None or all(is_finite_hex(h) for h in wv)):
                    run.violation("state #%d: no coefficients although the model evaluates to finite values" % k,
                                  {"case": c, "step": k, "observe": ob, "tables": tb})
                t = num.state_term(c, ob, tb, with_jac=False, mode=1)
                if t is not None:
                    terms.append(t)
                    idx.append((c, r, k))
                if k + 2 < len(steps) and steps[k + 2]["op"] == "svd" and (len(sterms) < svd_budget):
                    t2 = num.svd_term(c, ob, tb, steps[k + 2]["v"])
                    if t2 is not None:
                        sterms.append(t2)
                        sidx.append((c, r, k))
            k += 1
    nlin = linearity_twins(run, binp, rng, cases[:len(cases)], tier)
    rterms, rhist = states.run_rankdef(run, "C01", binp, rng, 24 if tier == "quick" else 500, (3, 8))
    # the implementation's own factors: contract svd_spec (orthonormal, reconstructing) and the code-shaped truncated solve
    scodes = coq_eval("C01", num.HEADER, sterms, per_file_timeout=1800)
    shist = {}
    for (c, r, k), code, t in zip(sidx, scodes, sterms):
        shist[code] = shist.get(code, 0) + 1
        if code != 0:
            bad = code in (40, 41, 42, 43)
            run.violation("state #%d, cached SVD factors: %s" % (k, num.SVD_CODES.get(code, "code %d" % code)),
                          {"case": c, "step": k, "observe": r["steps"][k]["v"], "svd": r["steps"][k + 2]["v"], "coq_term": t},
                          key=("nalgebra-svd-not-a-decomposition" if code == 42 and (r["steps"][k + 2]["v"] or {}).get("same_as_direct_nalgebra") is True else None))
    codes = coq_eval("C01", num.HEADER, terms, per_file_timeout=1800)
    hist = {}
    nskip = 0
    for (c, r, k), code, t in zip(idx, codes, terms):
        hist[code] = hist.get(code, 0) + 1
        if code == 1:
            nskip += 1
            continue
        if code in (3, 2):
            run.violation("state #%d: %s" % (k, num.state_code_text(code)),
                          {"case": c, "step": k, "observe": r["steps"][k]["v"], "tables": r["steps"][k + 1]["v"], "coq_term": t,
                           "meaning": "the acceptance predicate Model/Numeric.check_state is the property evaluated on the implementation's output"})
    run.coverage.update({
        "evaluations": len(terms) + len(rterms), "distinct_nontrivial": len(terms) - nskip + rhist.get(0, 0),
        "rule": "random problems over 8 model families (hand-written / builder-made, 1-3 right-hand sides, weights none/unit/positive/"
                "mixed with zeros and negatives, user thresholds of both signs, the four constructors, f32/f64); coefficients and residuals "
                "observed at construction and after two caller-driven updates; each observed state is checked in exact rational arithmetic "
                "against the certified least-squares solution with the tolerance rule of Model/Numeric.v (thresholds: default, tiny and "
                "LARGE user values with the problem scaled up through the weights — as long as the threshold is below every singular "
                "value nothing may be truncated); exactly rank-deficient bases (duplicated, dependent, vanishing columns) with a user "
                "threshold: minimum-norm minimiser from a checked full-rank factorisation, finiteness; non-trivial = compared "
                "(not skipped as ill-conditioned)",
        "code_histogram": {str(k): v for k, v in hist.items()}, "skipped_ill_conditioned": nskip,
        "svd_factor_replays": len(sterms), "svd_factor_code_histogram": {str(k): v for k, v in shist.items()},
        "rank_deficient_states": len(rterms), "rank_deficient_code_histogram": {str(k): v for k, v in rhist.items()}})
    run.samples = [{"ctor": c["ctor"], "scalar": c["scalar"], "meta": c["meta"], "step": k} for c, r, k in idx[:3]]
    run.assumptions = ["rounding error of nalgebra's SVD solve stays below 64 u kappa2 sqrt(N M) (engineering margin, see DESIGN.md §4.1)"]
    return run.finish()
