"""C01 — linear coefficients are the weighted least-squares optimum for the current alpha"""
import random

from . import num
from . import states
from .common import *


def gen_cases(rng, tier):
    cases = []
    n = 70 if tier == "quick" else 1500
    for i in range(n):
        quant = 8 if i % 4 else None      # every fourth case: full-precision model values
        # thresholds: default, tiny user values of both signs, and LARGE user values (still below every singular value:
        # nothing may be truncated, whatever the scale of the matrix)
        eps = None if i % 3 else rng.choice([1e-9, -1e-9, 1e-12, 1e-3, -1e-2, 0.03])
        c = gen_problem(rng, quant=quant, eps=eps)
        if eps is not None and abs(eps) >= 1e-3:
            # scale the problem up through the weights so that sigma_max >> 1 while the threshold stays absolute
            N = c["meta"]["N"]
            c["build"] = [o for o in c["build"] if o[0] != "weights"]
            k = rng.choice([32.0, 256.0, 1024.0])
            c["build"].insert(1, ["weights", [hx(k * rng.choice([1.0, 0.5, 2.0]), c["scalar"]) for _ in range(N)]])
            c["meta"]["weights"] = "scaled"
        m = c["meta"]
        lo, hi = m["range"]
        sc = c["scalar"]
        ops = [["observe"], ["tables"], ["svd"]]
        for _ in range(2):
            a = [hx(v, sc) for v in distinct_params(rng, m["P"], lo, hi)]
            ops += [["set", a], ["observe"], ["tables"], ["svd"]]
        c["ops"] = ops
        cases.append(c)
    return cases


def main(tier, seed, replay=None):
    run = Run("C01", tier, seed, "proof")
    rng = random.Random(seed)
    proof_obligations(run, "C01")
    binp = build_harness("dev")
    workdir = os.path.join(COQ, "run", "C01")
    cases = gen_cases(rng, tier)
    for i, c in enumerate(cases):
        c["id"] = i
    results = run_harness(binp, "scenario", cases, workdir, timeout_ms=20000)
    cases, results, nrel = with_release("scenario", cases, results, workdir, timeout_ms=20000)
    run.coverage["release_profile_cases_differing_from_dev"] = nrel
    terms, idx = [], []
    sterms, sidx = [], []
    svd_budget = 60 if tier == "quick" else 2000
    for c, r in zip(cases, results):
        if r.get("panic") is not None or r.get("timeout") or r["head"].get("build") != "ok":
            run.violation("construction / update panicked, hung or failed", {"case": c, "result": r})
            continue
        steps = r["steps"]
        k = 0
        while k + 1 < len(steps):
            if steps[k]["op"] == "observe" and steps[k + 1]["op"] == "tables":
                ob, tb = steps[k]["v"], steps[k + 1]["v"]
                if ob["coef"] is not None and not all(is_finite_hex(h) for col in ob["coef"]["cols"] for h in col):
                    run.violation("non-finite coefficients for finite model values", {"case": c, "step": k, "observe": ob})
                wv = num.weights_of(c)
                if ob["coef"] is None and tb["phi"] is not None and num.all_finite_mat(tb["phi"]) \
                        and (wv is None or all(is_finite_hex(h) for h in wv)):
                    run.violation("state #%d: no coefficients although the model evaluates to finite values" % k,
                                  {"case": c, "step": k, "observe": ob, "tables": tb})
                t = num.state_term(c, ob, tb, with_jac=False, mode=1)
                if t is not None:
                    terms.append(t)
                    idx.append((c, r, k))
                if k + 2 < len(steps) and steps[k + 2]["op"] == "svd" and (len(sterms) < svd_budget):
                    t2 = num.svd_term(c, ob, tb, steps[k + 2]["v"])
                    if t2 is not None:
                        sterms.append(t2)
                        sidx.append((c, r, k))
            k += 1
    rterms, rhist = states.run_rankdef(run, "C01", binp, rng, 24 if tier == "quick" else 500, (3, 8))
    # the implementation's own factors: contract svd_spec (orthonormal, reconstructing) and the code-shaped truncated solve
    scodes = coq_eval("C01", num.HEADER, sterms, per_file_timeout=1800)
    shist = {}
    for (c, r, k), code, t in zip(sidx, scodes, sterms):
        shist[code] = shist.get(code, 0) + 1
        if code != 0:
            bad = code in (40, 41, 42, 43)
            run.violation("state #%d, cached SVD factors: %s" % (k, num.SVD_CODES.get(code, "code %d" % code)),
                          {"case": c, "step": k, "observe": r["steps"][k]["v"], "svd": r["steps"][k + 2]["v"], "coq_term": t},
                          key=("nalgebra-svd-not-a-decomposition" if code == 42 and (r["steps"][k + 2]["v"] or {}).get("same_as_direct_nalgebra") is True else None))
    codes = coq_eval("C01", num.HEADER, terms, per_file_timeout=1800)
    hist = {}
    nskip = 0
    for (c, r, k), code, t in zip(idx, codes, terms):
        hist[code] = hist.get(code, 0) + 1
        if code == 1:
            nskip += 1
            continue
        if code in (3, 2):
            run.violation("state #%d: %s" % (k, num.state_code_text(code)),
                          {"case": c, "step": k, "observe": r["steps"][k]["v"], "tables": r["steps"][k + 1]["v"], "coq_term": t,
                           "meaning": "the acceptance predicate Model/Numeric.check_state is the property evaluated on the implementation's output"})
    run.coverage.update({
        "evaluations": len(terms) + len(rterms), "distinct_nontrivial": len(terms) - nskip + rhist.get(0, 0),
        "rule": "random problems over 8 model families (hand-written / builder-made, 1-3 right-hand sides, weights none/unit/positive/"
                "mixed with zeros and negatives, user thresholds of both signs, the four constructors, f32/f64); coefficients and residuals "
                "observed at construction and after two caller-driven updates; each observed state is checked in exact rational arithmetic "
                "against the certified least-squares solution with the tolerance rule of Model/Numeric.v (thresholds: default, tiny and "
                "LARGE user values with the problem scaled up through the weights — as long as the threshold is below every singular "
                "value nothing may be truncated); exactly rank-deficient bases (duplicated, dependent, vanishing columns) with a user "
                "threshold: minimum-norm minimiser from a checked full-rank factorisation, finiteness; non-trivial = compared "
                "(not skipped as ill-conditioned)",
        "code_histogram": {str(k): v for k, v in hist.items()}, "skipped_ill_conditioned": nskip,
        "svd_factor_replays": len(sterms), "svd_factor_code_histogram": {str(k): v for k, v in shist.items()},
        "rank_deficient_states": len(rterms), "rank_deficient_code_histogram": {str(k): v for k, v in rhist.items()}})
    run.samples = [{"ctor": c["ctor"], "scalar": c["scalar"], "meta": c["meta"], "step": k} for c, r, k in idx[:3]]
    run.assumptions = ["rounding error of nalgebra's SVD solve stays below 64 u kappa2 sqrt(N M) (engineering margin, see DESIGN.md §4.1)"]
    return run.finish()
