"""C17 — builder-made models report misuse as errors and keep their state intact"""
import random

from . import mb
from . import c16
from .common import *


def main(tier, seed, replay=None):
    run = Run("C17", tier, seed, "proof")
    rng = random.Random(seed)
    proof_obligations(run, "C17")
    binp = build_harness("dev")
    progs, calls_l, kinds = [], [], {}
    n = 400 if tier == "quick" else 6000
    for i in range(n):
        names, ops, info = c16.gen_model(rng, P=rng.randint(1, 4))
        P, N = info["P"], info["N"]
        mis = rng.choice(["len_fun", "len_deriv", "len_inv", "index", "count", "mixed", "cancel", "cancel", "len_when", "len_when"])
        kinds[mis] = kinds.get(mis, 0) + 1
        wrong = rng.choice([0, N - 1, N + 1, 2 * N])
        if mis in ("len_fun", "mixed"):
            js = [j for j, o in enumerate(ops) if o[0] == "function"]
            j = rng.choice(js)
            o = ops[j]
            ops[j] = (o[0], o[1], o[2], o[3], wrong)
        if mis in ("len_deriv", "mixed"):
            js = [j for j, o in enumerate(ops) if o[0] == "partial_deriv"]
            j = rng.choice(js)
            o = ops[j]
            ops[j] = (o[0], o[1], o[2], o[3], wrong)
        if mis == "len_when":
            # a function / derivative whose output length depends on the PARAMETER VALUES: right at the initial parameters (and for
            # every evaluation there), wrong once its first argument is >= 200 — the check has to be made on every evaluation
            js = [j for j, o in enumerate(ops) if o[0] in ("function", "partial_deriv")]
            for j in rng.sample(js, min(len(js), rng.randint(1, 2))):
                o = ops[j]
                ops[j] = (o[0], o[1], o[2], o[3], None, (200, wrong))
        if mis == "cancel":
            # two positions of the same evaluation whose wrong lengths add up to the right total (N - d and N + d, or 0 and 2N):
            # the shape contract is per column
            d = rng.choice([1, 2, 3, N])
            la, lb = N - d, N + d
            fj = [j for j, o in enumerate(ops) if o[0] in ("function", "invariant")]
            if len(fj) < 2:
                pos = [j for j in range(len(ops) + 1) if j == len(ops) or ops[j][0] != "partial_deriv"]
                ops.insert(rng.choice(pos), ("invariant", 78))
                fj = [j for j, o in enumerate(ops) if o[0] in ("function", "invariant")]
            ja, jb = rng.sample(fj, 2)
            for j, ln in ((ja, la), (jb, lb)):
                o = ops[j]
                ops[j] = (o[0], o[1], o[2], o[3], ln) if o[0] == "function" else ("invariant", o[1], ln)
            # and two derivatives with respect to the same parameter, when two functions share one
            byname = {}
            for j, o in enumerate(ops):
                if o[0] == "partial_deriv":
                    byname.setdefault(o[1], []).append(j)
            shared = [v for v in byname.values() if len(v) >= 2]
            if shared and rng.random() < 0.7:
                ja, jb = rng.sample(rng.choice(shared), 2)
                for j, ln in ((ja, la), (jb, lb)):
                    o = ops[j]
                    ops[j] = (o[0], o[1], o[2], o[3], ln)
        if mis == "len_inv":
            js = [j for j, o in enumerate(ops) if o[0] == "invariant"]
            if js:
                j = rng.choice(js)
                ops[j] = ("invariant", ops[j][1], wrong)
            else:
                pos = [j for j in range(len(ops) + 1) if j == len(ops) or ops[j][0] != "partial_deriv"]
                ops.insert(rng.choice(pos), ("invariant", 77, wrong))
        calls = [("params",), ("eval",)]
        for _ in range(rng.randint(2, 5)):
            r = rng.random()
            if r < 0.35:
                cnt = rng.choice([0, P - 1, P + 1, P + 2, P]) if mis in ("count", "mixed") or rng.random() < 0.3 else P
                cnt = max(cnt, 0)
                calls.append(("set", [rng.randint(11, 99) for _ in range(cnt)]))
                calls.append(("params",))
            elif r < 0.6:
                calls.append(("eval",))
            else:
                k = rng.choice([P, P + 1, P + 3, "max"]) if mis in ("index", "mixed") and rng.random() < 0.6 else rng.randrange(P)
                calls.append(("deriv", k))
        calls += [("params",), ("eval",)] + [("deriv", k) for k in range(P)]
        if mis == "len_when":
            calls = [("eval",), ("eval",)] + [("deriv", k) for k in range(P)] + calls
            calls += [("set", [rng.randint(200, 299) for _ in range(P)]), ("params",), ("eval",)] + [("deriv", k) for k in range(P)]
            calls += [("eval",), ("set", [rng.randint(11, 99) for _ in range(P)]), ("eval",)] + [("deriv", k) for k in range(P)]
        if i % 8 == 5:
            # a wrong-length initial guess supplied through the builder at every possible position (in particular directly after
            # a function / partial_deriv call): the builder must reject it, so no mis-sized model can come into existence
            bad = ("init", [rng.randint(11, 99) for _ in range(rng.choice([0, max(P - 1, 0), P + 1, P + 2]) if P != 0 else 1)])
            if len(bad[1]) == P:
                bad = ("init", bad[1] + [7])
            ops = [o for o in ops if o[0] != "init"]
            ops.insert(rng.randrange(len(ops) + 1), bad)
            info = dict(info, expect_invalid=True)
            kinds["init_len"] = kinds.get("init_len", 0) + 1
        progs.append((names, ops, info))
        calls_l.append(calls)
    # arbitrary builder programs (valid and invalid alike, e.g. derivative closures of another arity than their function): whatever
    # the builder lets through must then answer every call as the model says — with an error value where something is wrong
    from . import c15
    for j in range(200 if tier == "quick" else 4000):
        names, ops = c15.random_program(rng)
        P = len(names)
        calls = [("params",), ("eval",)] + [("deriv", k) for k in range(P)]
        calls += [("set", [rng.randint(11, 99) for _ in range(P)]), ("eval",)] + [("deriv", k) for k in range(P)] + [("params",)]
        progs.append((names, ops, {"P": P, "free": True}))
        calls_l.append(calls)
        kinds["arbitrary_program"] = kinds.get("arbitrary_program", 0) + 1
    cases = []
    for i, ((names, ops, info), calls) in enumerate(zip(progs, calls_l)):
        c = mb.to_harness(names, ops, scalar="f64" if i % 2 else "f32", calls=calls)
        c["id"] = i
        cases.append(c)
    workdir = os.path.join(COQ, "run", "C17")
    results = run_harness(binp, "mbuilder", cases, workdir, timeout_ms=10000)
    rel = release_differences("mbuilder", cases, results, workdir, timeout_ms=10000, with_index=True)
    for k, c, rr in rel:        # release-profile runs that differ from the dev profile are judged like any other
        progs.append(progs[k])
        calls_l.append(calls_l[k])
        results.append(rr)
    run.coverage["release_profile_cases_differing_from_dev"] = len(rel)
    terms, idx = [], []
    errs = {}
    for (names, ops, info), calls, r in zip(progs, calls_l, results):
        if r.get("timeout") or r.get("panic") is not None:
            run.violation("builder-made model panicked / hung on misuse: %s" % r.get("panic"),
                          {"names": names, "ops": ops, "calls": calls, "result": r})
            continue
        if not r["head"]["ok"] and not info.get("expect_invalid") and not info.get("free"):
            run.violation("a valid builder program was rejected", {"names": names, "ops": ops, "result": r})
            continue
        if info.get("expect_invalid") and r["head"]["ok"]:
            run.violation("a builder program with a wrong-length initial guess produced a model (which then carries a parameter vector of the wrong length)",
                          {"names": names, "ops": ops, "calls": calls, "implementation": r["head"]})
            continue
        for cr in r["head"].get("calls", []):
            if not cr["ok"]:
                k = cr["dbg"].split(" ")[0]
                errs[k] = errs.get(k, 0) + 1
        try:
            t = mb.term(names, ops, calls, r)
        except ValueError as e:
            run.violation("non-integer value: %s" % e, {"names": names, "ops": ops, "calls": calls, "result": r})
            continue
        terms.append(t)
        idx.append((names, ops, calls, r))
    codes = coq_eval("C17", mb.HEADER, terms)
    nbad = 0
    for (names, ops, calls, r), code, t in zip(idx, codes, terms):
        if code != 0:
            nbad += 1
            if nbad <= 3:
                shown = coq_show("C17", mb.HEADER, "match %s with Done m => Some (mb_calls m %s) | _ => None end"
                                 % (mb.show_term(names, ops), mb.calls_to_coq(calls)))
                run.violation("builder-made model disagrees with the model on misuse (code %d: call #%d)" % (code, code - 10),
                              {"names": names, "ops": ops, "calls": calls, "implementation": r["head"], "coq_term": t,
                               "model_says": shown})
    run.coverage.update({
        "evaluations": len(progs), "distinct_nontrivial": len(set((tuple(n), repr(o), repr(c)) for n, o, c, r in idx)),
        "rule": "valid models whose closures return vectors of a wrong length (0, N-1, N+1, 2N) at a random function / derivative / "
                "invariant position, derivative indices P, P+1, P+3, usize::MAX, parameter vectors of length 0, P-1, P+1, P+2, in "
                "random call orders; every call's result (matrix, error kind and payload, parameters afterwards) compared exactly",
        "misuse_kinds": kinds, "error_histogram": errs, "traces_validated_against_impl": len(idx)})
    run.samples = [{"names": n, "ops": o, "calls": c[:8]} for n, o, c, r in idx[:2]]
    run.assumptions = ["usize::MAX is represented by the index %d in the model" % mb.BIGIDX]
    return run.finish()
