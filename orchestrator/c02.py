"""C02 — residuals, best fit, weighted data and coefficients describe one single state"""
import random

from . import c04
from . import fits
from . import num
from . import states
from .common import *


def wdata_exact(case, wd):
    """weighted data must be exactly the IEEE products w_i * y_is of what was supplied"""
    sc = case["scalar"]
    Y = num.obs_of(case)
    w = num.weights_of(case)
    if wd["r"] != len(Y[0]) or wd["c"] != len(Y):
        return False
    for j, col in enumerate(Y):
        for i, h in enumerate(col):
            v = unhx(h) if w is None else round_to(unhx(w[i]) * unhx(h), sc)
            if hxbits(wd["cols"][j][i]) != hxbits(hx(v, sc)):
                return False
    return True


def main(tier, seed, replay=None):
    run = Run("C02", tier, seed, "proof")
    rng = random.Random(seed)
    proof_obligations(run, "C02", extra_pins=("E2E",))
    binp = build_harness("dev")
    n = 50 if tier == "quick" else 1000
    cases = []
    for i in range(n):
        wide = i % 7 == 3
        c = gen_problem(rng, quant=(8 if i % 8 else None), family=(rng.choice(SCALABLE) if i % 6 == 5 else "exp1l" if wide else None),
                        **({"N": 4, "S": (lambda s_: 4 if (i // 7) % 3 == 1 else s_)(rng.choice([6, 7])),      # every third: SQUARE (S = N)
                            "ctor": rng.choice(["mrhs", "mrhs_parallel"]), "weights": rng.choice(["pos", "mixed"])} if wide else {}))
        c["ops"] = [["wdata"]] + states.observe_at(rng, c, nsets=2) + [["wdata"]]
        if i % 5 == 2 and c["meta"]["family"] in ("exp2c", "exp1l", "exp1", "exp3", "shared", "cosmix"):
            # an update to parameters at which the model overflows (values +-inf / NaN, no error): no residuals may be shown for
            # them — in particular not those of the previous parameters — and a good update afterwards gives a proper state again
            bad = [hx(-1e-3 if c["meta"]["family"] in ("exp2c", "exp1l", "exp1") else -3000.0, c["scalar"])] * c["meta"]["P"]
            c["ops"] = c["ops"][:-1] + [["set", bad]] + states.OBS + [["set", c["model"]["init"]]] + states.OBS + [["wdata"]]
        if i % 6 == 5:
            rescale_case(c)     # tiny absolute parameter values (other units): every update is below machine epsilon in absolute terms
        cases.append(c)
    results, nterms, nskip, hist = states.run_states(run, "C02", binp, cases, 2, lambda code: code in (2, 4, 5), "residuals")
    rterms, rhist = states.run_rankdef(run, "C02", binp, rng, 24 if tier == "quick" else 500, (4, 8))
    # ANY shape and rank: as many or fewer samples than basis functions, with coinciding parameters (row-rank deficient) and user
    # thresholds (truncation) — the residuals shown belong to the coefficients shown (Model/Numeric.check_own_resid: plain products)
    wcases = []
    for j in range(12 if tier == "quick" else 200):
        fam = ["exp2c", "exp3", "cosmix", "exp2c"][j % 4]
        M_ = len(FAMILIES[fam][0])
        c = gen_problem(rng, quant=(8 if j % 3 else None), family=fam, N=[M_, M_ - 1, M_, 2][j % 4],
                        eps=[None, 1e-6, 0.5, 1e-3][j % 4], weights=["none", "pos", "mixed"][j % 3])
        sc = c["scalar"]
        P_ = c["meta"]["P"]
        same = [hx(1.5, sc)] * P_                       # coinciding parameters: identical basis columns
        zero = [hx(0.0, sc)] * P_                       # exp(-0 x) = 1 = the constant column (families with a rate parameter)
        c["ops"] = [["observe"], ["tables"], ["set", same], ["observe"], ["tables"], ["set", zero], ["observe"], ["tables"],
                    ["set", c["model"]["init"]], ["observe"], ["tables"]]
        c["id"] = 40000 + j
        wcases.append(c)
    wres = run_harness(binp, "scenario", wcases, os.path.join(COQ, "run", "C02"), timeout_ms=20000, tag="wide")
    wterms, widx = [], []
    for c, r in zip(wcases, wres):
        if r.get("panic") is not None or r.get("timeout") or r["head"].get("build") != "ok":
            run.violation("problem with as many or fewer samples than basis functions: construction / update panicked, hung or failed",
                          {"case": c, "result": r})
            continue
        st = r["steps"]
        for k in range(0, len(st) - 1):
            if st[k]["op"] == "observe" and st[k + 1]["op"] == "tables":
                t = num.own_resid_term(c, st[k]["v"], st[k + 1]["v"])
                if t is not None:
                    wterms.append(t)
                    widx.append((c, r, k))
    wcodes = coq_eval("C02", num.HEADER, wterms, per_file_timeout=1800)
    for (c, r, k), code, t in zip(widx, wcodes, wterms):
        if code != 0:
            run.violation("N <= M problem, state at step %d: %s" % (k, "residuals are not W(Y - Phi C) for the coefficients the implementation itself reports"
                                                                   if code == 5 else "shapes differ"),
                          {"case": c, "step": k, "observe": r["steps"][k]["v"], "tables": r["steps"][k + 1]["v"], "coq_term": t})
    run.coverage["states_with_samples_le_basis_functions"] = len(wterms)
    nwd = 0
    for c, r in zip(cases, results):
        if r.get("steps") and r["head"].get("build") == "ok":
            for s in r["steps"]:
                if s["op"] == "wdata":
                    nwd += 1
                    if not wdata_exact(c, s["v"]):
                        run.violation("weighted data are not W*Y for the observations exactly as supplied (or changed during the history)",
                                      {"case": c, "wdata": s["v"]})
                        break
    # best fit and reported parameters of fit results
    fcases = []
    for i in range(40 if tier == "quick" else 800):
        c = c04.gen_fit_case(rng, i, quant=(8 if i % 4 else None))
        c["ops"] = [["observe"], ["fit", c["meta"]["cfg"]], ["observe"], ["tables"], ["wdata"]]
        fcases.append(c)
    for i, c in enumerate(fcases):
        c["id"] = i
    fres = run_harness(binp, "scenario", fcases, os.path.join(COQ, "run", "C02"), timeout_ms=20000, tag="fit")
    terms, idx = [], []
    for c, r in zip(fcases, fres):
        if r.get("panic") is not None or r.get("timeout") or r["head"].get("build") != "ok":
            run.violation("fit panicked / hung", {"case": c, "result": r})
            continue
        st = r["steps"]
        fit, after, tb, wd = st[1]["v"], st[2]["v"], st[3]["v"], st[4]["v"]
        m = c["meta"]
        if not wdata_exact(c, wd):
            run.violation("weighted data changed during the fit", {"case": c, "wdata": wd})
            continue
        if fit["nonlinear_parameters"] != after["params"]:
            run.violation("nonlinear_parameters() are not the parameters of the final problem", {"case": c, "fit": fit, "after": after})
            continue
        if (fit["lin_coef"] is None) != (after["coef"] is None) or (fit["lin_coef"] is not None and fit["lin_coef"] != after["coef"]):
            run.violation("FitResult::linear_coefficients differ from the final problem's", {"case": c, "fit": fit, "after": after})
            continue
        bf = fit["best_fit"]
        if bf is None or tb["phi"] is None or fit["lin_coef"] is None:
            if (bf is None) != (fit["lin_coef"] is None or tb["phi"] is None):
                run.violation("best_fit presence does not match coefficients / evaluation", {"case": c, "fit": fit})
            continue
        mr = c["ctor"].startswith("mrhs")
        if fit["best_fit_is_vector"] != (not mr) or bf["r"] != m["N"] or bf["c"] != m["S"]:
            run.violation("best fit does not have the shape of the observations", {"case": c, "fit": fit})
            continue
        if not (num.all_finite_mat(tb["phi"]) and num.all_finite_mat(fit["lin_coef"]) and num.all_finite_mat(bf)):
            continue
        cu2, floor2, _ = num.params_for(c["scalar"])
        terms.append("num_bestfit %s %s %s %s %s %s %s" % (cu2, floor2, num.cnatm(m["N"]), num.cnatm(m["M"]), num.mat(tb["phi"]),
                                                         num.mat(fit["lin_coef"]), num.mat(bf)))
        idx.append((c, r))
    codes = coq_eval("C02", num.HEADER, terms, per_file_timeout=1800)
    for (c, r), code, t in zip(idx, codes, terms):
        if code != 0:
            run.violation("best fit is not Phi(alpha) * C for the final parameters and coefficients (code %d)" % code,
                          {"case": c, "implementation": r, "coq_term": t})
    run.coverage.update({
        "evaluations": nterms + len(terms) + nwd, "distinct_nontrivial": nterms - nskip + len(terms),
        "rule": "residual vectors at construction and after two updates for random problems (all families / weights / constructors / widths), "
                "checked in exact arithmetic against W(Y - Phi C) both for the certified least-squares coefficients and for the "
                "coefficients the implementation reports; the same at exactly rank-deficient bases with an active truncation (residuals for the "
                "minimum-norm coefficients); weighted data bit-exact against w_i*y_is before and after the history and after "
                "fits; for fit results: best fit vs Phi(alpha^)*C^ in exact arithmetic, its shape, nonlinear_parameters and coefficients "
                "vs the final problem (exact)",
        "state_code_histogram": {str(k): v for k, v in hist.items()}, "skipped_ill_conditioned": nskip,
        "weighted_data_checks": nwd, "best_fit_checks": len(terms),
        "rank_deficient_states": len(rterms), "rank_deficient_code_histogram": {str(k): v for k, v in rhist.items()}})
    run.samples = [{"ctor": c["ctor"], "scalar": c["scalar"], "meta": c["meta"]} for c in cases[:2]]
    run.assumptions = ["rounding margin 64 u kappa2 sqrt(N M) for quantities behind a solve, 64 u sqrt(N M) for plain products"]
    return run.finish()
