"""C14 — confidence band radius is the two-sided Student-t band of the fitted curve"""
import math
import random

from . import c13
from . import num
from . import statsrun
from fractions import Fraction

from .common import *


def betacf(a, b, x):
    """continued fraction for the regularised incomplete beta function (Lentz)"""
    tiny = 1e-300
    qab, qap, qam = a + b, a + 1.0, a - 1.0
    c, d = 1.0, 1.0 - qab * x / qap
    d = tiny if abs(d) < tiny else d
    d = 1.0 / d
    h = d
    for m in range(1, 400):
        m2 = 2 * m
        aa = m * (b - m) * x / ((qam + m2) * (a + m2))
        d = 1.0 + aa * d
        d = tiny if abs(d) < tiny else d
        c = 1.0 + aa / c
        c = tiny if abs(c) < tiny else c
        d = 1.0 / d
        h *= d * c
        aa = -(a + m) * (qab + m) * x / ((a + m2) * (qap + m2))
        d = 1.0 + aa * d
        d = tiny if abs(d) < tiny else d
        c = 1.0 + aa / c
        c = tiny if abs(c) < tiny else c
        d = 1.0 / d
        de = d * c
        h *= de
        if abs(de - 1.0) < 1e-15:
            break
    return h


def betai(a, b, x):
    if x <= 0:
        return 0.0
    if x >= 1:
        return 1.0
    bt = math.exp(math.lgamma(a + b) - math.lgamma(a) - math.lgamma(b) + a * math.log(x) + b * math.log(1 - x))
    if x < (a + 1) / (a + b + 2):
        return bt * betacf(a, b, x) / a
    return 1 - bt * betacf(b, a, 1 - x) / b


def t_cdf(t, nu):
    x = nu / (nu + t * t)
    p = 0.5 * betai(nu / 2.0, 0.5, x)
    return 1 - p if t > 0 else p


def t_ppf(q, nu):
    lo, hi = 0.0, 1.0
    while t_cdf(hi, nu) < q:
        hi *= 2
        if hi > 1e300:
            break
    for _ in range(200):
        mid = (lo + hi) / 2
        if t_cdf(mid, nu) < q:
            lo = mid
        else:
            hi = mid
    return (lo + hi) / 2


def t_two_sided(p, nu):
    """t with P(|T| <= t) = p, i.e. the quantile t((1+p)/2; nu), computed from the upper tail (1-p)/2 — exact for p close to one,
    where forming (1+p)/2 in floating point would lose the tail"""
    tail = (1.0 - p) / 2.0          # exact for p >= 1/2 (Sterbenz), harmless rounding below

    def upper(t):
        return 0.5 * betai(nu / 2.0, 0.5, nu / (nu + t * t))
    lo, hi = 0.0, 1.0
    while upper(hi) > tail and hi < 1e300:
        hi *= 2
    for _ in range(300):
        mid = (lo + hi) / 2
        if upper(mid) > tail:
            lo = mid
        else:
            hi = mid
    return (lo + hi) / 2


# all representable in f32; the last two are the largest f32 below one and its odd neighbour (the two-sided tail is then 2^-25 and
# 3 * 2^-25: any rounding of 1 + p before the quantile is taken is visible there)
# ... and two tiny ones (2^-149 is the smallest positive f32): 1 + p rounds to 1, the band radius is then 0 — finite and legal
PROBS = [2.0 ** -149, 2.0 ** -60, 0.01, 0.5, 0.683, 0.9, 0.99, 1 - 2.0 ** -20, 1 - 3 * 2.0 ** -24, 1 - 2.0 ** -24]
BAD = [0.0, 1.0, -0.1, 1.5, float("nan"), float("inf")]
# the largest double below one: (1 + p) / 2 is not representable and rounds to 1 (see known_findings.txt)
EDGE = [1 - 2.0 ** -53]
EDGE_KEY = "band-infinite-at-largest-f64-probability-below-one"


BAND_HEADER = ("From Coq Require Import ZArith NArith List.\nImport ListNotations.\nFrom VP Require Import Exec.BandRun.\n")


def band_argument_correspondence(run, binp, pairs):
    """Model/BandFloat.v against the implementation, bit for bit: for every probability handed to confidence_band_radius the Coq
    model says whether the assertion accepts it and which binary64 quantile argument results; the library's own quantile routine
    (distrs, through the harness) is evaluated AT THE MODEL'S ARGUMENT and radius_i must be exactly cast(t * sigma_i)."""
    import math
    want = {}
    for c, r in pairs:
        for h in c["ops"][1][2]:
            want[(c["scalar"], hxbits(h))] = None
    keys = sorted(want)
    terms = ["band_arg%s %d%%Z" % ("64" if sc == "f64" else "32", b) for sc, b in keys]
    outs = coq_eval("C14", BAND_HEADER, terms)
    for k, o in zip(keys, outs):
        want[k] = o
    # the library's quantile routine at the model's arguments
    pcases, pidx = [], []
    for c, r in pairs:
        st = r["steps"][1]["v"]
        if not st.get("ok"):
            continue
        dof = st["stats"]["dof"]
        qs = [want[(c["scalar"], hxbits(h))] for h in c["ops"][1][2]]
        pcases.append({"id": len(pcases), "dof": dof, "q": [str(q - 1) for q in qs if q]})
        pidx.append((c, r, qs))
    pres = run_harness(binp, "ppf", pcases, os.path.join(COQ, "run", "C14"), timeout_ms=20000, tag="ppf")
    n = 0
    for (c, r, qs), pr in zip(pidx, pres):
        sc = c["scalar"]
        ts = iter(pr["head"]["t"])
        st = r["steps"][1]["v"]["stats"]
        sig = [unhx(h) for h in st["usigma"]]
        for h, q, b in zip(c["ops"][1][2], qs, st["bands"]):
            n += 1
            if not q:
                if not b.get("panic"):
                    run.violation("confidence_band_radius accepted probability %r although the assertion of the model (finite, 0 < p < 1) rejects it"
                                  % unhx(h), {"case": c, "p": h, "band": b, "theorem_or_correspondence": "Model/BandFloat.prob_ok"})
                continue
            t = bits_f64(int(next(ts)))
            if b.get("panic"):
                run.violation("confidence_band_radius rejected probability %r although it is finite and strictly between 0 and 1" % unhx(h),
                              {"case": c, "p": h, "band": b, "theorem_or_correspondence": "Model/BandFloat.prob_ok"})
                continue
            for i, (sg, rh) in enumerate(zip(sig, b["radius"])):
                v = t * sg
                try:
                    eh = hx(v, sc)
                except OverflowError:
                    eh = hx(math.copysign(float("inf"), v), sc)
                same = (eh == rh) or (v != v and unhx(rh) != unhx(rh))
                if not same:
                    run.violation("band radius entry %d for p = %r is not cast(t * sigma_i) with t the library's quantile at the argument "
                                  "(p + 1) / 2 formed in binary64 (Model/BandFloat.qarg): implementation %r, model %r"
                                  % (i, unhx(h), unhx(rh), unhx(eh)),
                                  {"case": c, "p": h, "dof": st["dof"], "quantile_argument_bits": q - 1, "t": t, "sigma_i": sg,
                                   "theorem_or_correspondence": "correspondence Exec/BandRun (Model/BandFloat.v vs confidence_band_radius)"})
                    break
    return n


def main(tier, seed, replay=None):
    run = Run("C14", tier, seed, "proof")
    rng = random.Random(seed)
    proof_obligations(run, "C14", extra_pins=("C14F",))
    binp = build_harness("dev")
    cases = []
    k = 0
    combos = [(1, 1), (2, 1), (2, 2), (3, 2), (1, 2)]
    for dof in range(1, 9):
        for (M, P) in combos if tier != "quick" else combos[: 2 + dof % 2]:
            k += 1
            sc = "f32" if k % 5 == 0 else "f64"
            cases.append(statsrun.gen_stats_case(rng, M, P, M + P + dof + (1 if k % 4 == 1 else 0), scalar=sc, weights=["none", "pos", "zeros", "neg"][k % 4] if dof > 2 else ["none", "pos", "neg"][k % 3], noise=0.1,
                                                 quant=(8 if k % 3 else None), probs=PROBS + BAD + (EDGE if sc == "f64" else [])))
    # data in tiny units (f64: 2^-30, also 2^-60) and almost noise-free f32 data: bands on a small absolute scale
    for j in range(6 if tier == "quick" else 60):
        M, P = [(1, 1), (2, 1), (2, 2)][j % 3]
        sc = "f32" if j % 3 == 2 else "f64"
        cases.append(statsrun.gen_stats_case(rng, M, P, M + P + 1 + j % 5, scalar=sc, weights=["none", "pos"][j % 2],
                                             noise=(0.05 if sc == "f64" else 1e-4), qbits=(10 if sc == "f64" else 30),
                                             quant=None, probs=PROBS + BAD + (EDGE if sc == "f64" else []),
                                             yscale=(2.0 ** -30 if j % 2 else 2.0 ** -60) if sc == "f64" else None))
    for k2, c in enumerate(cases):
        if k2 % 4 == 1 and not c["model"].get("builder_made"):
            # the model (every basis function and every derivative) is pinned to zero at one sample: its Jacobian row is exactly
            # zero, the band radius there must be exactly 0 (not 0/0); N was enlarged by one for these cases
            rs = [1.0] * c["meta"]["N"]
            rs[rng.randrange(c["meta"]["N"])] = 0.0
            c["model"]["rowscale"] = [hx(v, c["scalar"]) for v in rs]
            c["meta"]["zero_row"] = True
    results, idx, hist, nerr = c13.run_stats_values(run, "C14", cases, binp, (20, 21, 22, 23, 24, 25, 26, 27, 28, 29, 30, 31), "confidence band")
    # release profile (no debug assertions / overflow checks) on every second case
    _, _, rhist, _ = c13.run_stats_values(run, "C14", [c for k, c in enumerate(cases) if k % 2 == 0], build_harness("release"), (20, 21, 22, 23, 24, 25, 26, 27, 28, 29, 30, 31),
                                          "confidence band (release profile)", tag="rel")
    # many degrees of freedom (the quantile must still be Student's t with exactly N-M-P degrees of freedom): band relation only
    big = []
    for j, N in enumerate([1005, 1203, 2500] if tier == "quick" else [1003, 1005, 1100, 1203, 1500, 2500, 4000]):
        big.append(statsrun.gen_stats_case(rng, 2, 1, N, scalar=("f32" if j % 3 == 2 else "f64"), weights=["none", "pos"][j % 2], noise=0.1,
                                           probs=PROBS))
    for i, c in enumerate(big):
        c["id"] = 5000 + i
    bres = run_harness(binp, "scenario", big, os.path.join(COQ, "run", "C14"), timeout_ms=60000, tag="big")
    bterms, bidx = [], []
    for c, r in zip(big, bres):
        if r.get("panic") is not None or r.get("timeout") or r["head"].get("build") != "ok" or not r["steps"][1]["v"]["ok"]:
            run.violation("fit with statistics on a large well-determined problem failed / panicked", {"case": c, "result": r})
            continue
        st = r["steps"][1]["v"]["stats"]
        m = c["meta"]
        dof = m["N"] - m["M"] - m["P"]
        if st["dof"] != dof:
            run.violation("degrees of freedom %d are not N - M - P = %d" % (st["dof"], dof), {"case": c})
            continue
        cu2, floor2, _ = num.params_for(c["scalar"])
        for b, pr in zip(st["bands"], PROBS):
            pr_eff = unhx(hx(pr, c["scalar"]))
            tt = t_two_sided(pr_eff, dof)
            if b.get("panic"):
                run.violation("probability %r inside (0,1) was rejected (dof %d)" % (pr, dof), {"case": c, "p": pr, "band": b})
                break
            if abs(b["t"] - tt) > 1e-4 * max(1.0, abs(tt)):
                run.violation("quantile mismatch for p=%r, dof=%d: %r vs %r" % (pr, dof, b["t"], tt), {"case": c}, no_failing_input=True)
            # the independent quantile (accurate to ~1e-10) decides: the band must be t * sigma with THIS t up to the accuracy of the
            # library's own quantile routine (1e-5 relative)
            rad = [unhx(h) for h in b["radius"]]
            us = [unhx(h) for h in st["usigma"]]
            # relative 5e-5 on the quantile plus an absolute 1e-12 (in units of sigma_i): for tiny p the exact quantile is ~p while
            # the library's is a rounding residue of the order 1e-16 — both mean "radius zero"
            worst = max((abs(a - tt * u) - 1e-12 * u) / max(tt * u, 1e-300) for a, u in zip(rad, us))
            if worst > 5e-5:
                run.violation("band radius is not t((1+p)/2; N-M-P) * sigma_i at %d degrees of freedom (p=%r, relative deviation %.3g)"
                              % (dof, pr, worst), {"case": c, "p": pr, "t_student": tt, "dof": dof})
                break
            bterms.append("num_band %s %s %s %s %s %s" % (cu2, floor2, num.cnatm(m["N"]), num.qfr(Fraction(b["t"])), num.vec(st["usigma"]), num.vec(b["radius"])))
            bidx.append((c, pr))
    bcodes = coq_eval("C14", num.HEADER, bterms, per_file_timeout=2400)
    for (c, pr), code in zip(bidx, bcodes):
        if code != 0:
            run.violation("band radius is not t * sigma_i (many degrees of freedom, p=%r, code %d)" % (pr, code), {"case": c})
    # every successful fit must come with a finite, non-negative confidence sigma per sample (cases with non-finite statistics are
    # not comparable in exact arithmetic and would otherwise drop out silently). A computed covariance of a nearly singular normal
    # matrix need not be positive semi-definite, and sqrt of a slightly negative rounding residue is NaN: entries are judged only
    # where the quadratic form j_i^T Cov j_i, recomputed here from the reported covariance, is clearly positive.
    for c, r in zip(cases, results):
        if not r.get("steps") or r["head"].get("build") != "ok" or not r["steps"][1]["v"].get("ok"):
            continue
        fitv = r["steps"][1]["v"]
        st = fitv["stats"]
        tb = r["steps"][3]["v"]
        us = [unhx(h) for h in st["usigma"]]
        if len(us) != c["meta"]["N"]:
            run.violation("confidence sigma has the wrong length", {"case": c, "usigma": st["usigma"]})
            continue
        if tb["phi"] is None or any(d is None for d in tb["d"]) or fitv["lin_coef"] is None:
            continue
        cf = [unhx(h) for h in fitv["lin_coef"]["cols"][0]]
        phi = [[unhx(h) for h in col] for col in tb["phi"]["cols"]]
        dcs = []
        for d in tb["d"]:
            dm = [[unhx(h) for h in col] for col in d["cols"]]
            dcs.append([sum(dm[j][i] * cf[j] for j in range(len(cf))) for i in range(c["meta"]["N"])])
        cov = [[unhx(h) for h in col] for col in st["cov"]["cols"]]
        q = len(cov)
        if any(v != v or abs(v) == float("inf") for col in cov for v in col):
            continue
        cn = math.sqrt(sum(v * v for col in cov for v in col))
        clear = []
        zero_rows = []
        for i in range(c["meta"]["N"]):
            j = [phi[k][i] for k in range(len(phi))] + [dc[i] for dc in dcs]
            s2 = sum(j[a] * cov[b][a] * j[b] for a in range(q) for b in range(q))
            clear.append(s2 > 1e-6 * sum(v * v for v in j) * cn)
            if all(v == 0 for v in j):
                zero_rows.append(i)
        # a Jacobian row that is exactly zero: sigma_i = sqrt(0) = 0 whatever the covariance, and every band radius is 0 there
        badz = [i for i in zero_rows if us[i] != 0.0]
        if badz:
            run.violation("confidence sigma at sample %d is %r although row %d of the model-function Jacobian is exactly zero (expected 0)"
                          % (badz[0], us[badz[0]], badz[0]), {"case": c, "usigma": st["usigma"], "zero_rows": zero_rows})
            continue
        bad = [i for i in range(c["meta"]["N"]) if clear[i] and ((us[i] != us[i]) or us[i] < 0 or us[i] == float("inf"))]
        if bad:
            run.violation("confidence sigma sqrt(j_i^T Cov j_i) is not finite / negative at sample %d although the quadratic form is clearly positive (weights: %s)"
                          % (bad[0], c["meta"]["weights"]), {"case": c, "usigma": st["usigma"], "samples": bad})
            continue
        for b, hp in zip(st["bands"], c["ops"][1][2]):
            pv = unhx(hp)
            if b.get("panic") or not (0 < pv < 1) or pv == 1 - 2.0 ** -53:
                continue
            rad = [unhx(h) for h in b["radius"]]
            badr = [i for i in range(len(rad)) if clear[i] and ((rad[i] != rad[i]) or rad[i] < 0 or rad[i] == float("inf"))]
            if badr:
                run.violation("band radius has a non-finite or negative entry at sample %d for p = %r (weights: %s)" % (badr[0], pv, c["meta"]["weights"]),
                              {"case": c, "p": hp, "band": b})
                break
    nband = band_argument_correspondence(run, binp, [(c, r) for c, r in zip(cases, results) if r.get("steps") and r["head"].get("build") == "ok"]
                                         + [(c, r) for c, r in zip(big, bres) if r.get("steps") and r["head"].get("build") == "ok"])
    ndof = {}
    nedge = 0
    for c, r in idx:
        st = r["steps"][1]["v"]["stats"]
        m = c["meta"]
        dof = m["N"] - m["M"] - m["P"]
        ndof[dof] = ndof.get(dof, 0) + 1
        bands = st["bands"]
        good = bands[: len(PROBS)]
        bad = bands[len(PROBS): len(PROBS) + len(BAD)]
        for b in bands[len(PROBS) + len(BAD):]:
            nedge += 1
            rad = None if b.get("panic") else [unhx(h) for h in b["radius"]]
            if rad is None or any((not (v == v)) or v < 0 or v == float("inf") for v in rad):
                run.violation("band radius is not finite for p = 1 - 2^-53, the largest double below one (dof %d): (1 + p) / 2 rounds to 1" % dof,
                              {"case": c, "p": "1 - 2^-53", "band": b}, key=EDGE_KEY)
        for b, pb in zip(bad, BAD):
            if not b.get("panic"):
                run.violation("probability %r outside (0,1) was not rejected" % pb, {"case": c, "band": b})
        prev = None
        for b, pr in zip(good, PROBS):
            if b.get("panic"):
                run.violation("probability %r inside (0,1) was rejected" % pr, {"case": c})
                continue
            # the quantile the harness computed with distrs for (1+p)/2 and N-M-P degrees of freedom, cross-checked against an
            # independent evaluation of the Student-t distribution
            pr_eff = unhx(hx(pr, c["scalar"]))
            tt = t_two_sided(pr_eff, dof)
            if abs(b["t"] - tt) > 1e-4 * max(1.0, abs(tt)):
                run.violation("quantile mismatch for p=%r, dof=%d: %r vs %r" % (pr, dof, b["t"], tt), {"case": c}, no_failing_input=True)
            rad = [unhx(h) for h in b["radius"]]
            if len(rad) != m["N"] or any((not (v == v)) or v < 0 or v == float("inf") for v in rad):
                run.violation("band radius has a non-finite or negative entry / wrong length", {"case": c, "band": b})
            if prev is not None and any(a > bb for a, bb in zip(prev, rad)):
                run.violation("band radius is not non-decreasing in the probability", {"case": c, "p": pr})
            prev = rad
    run.coverage.update({
        "evaluations": len(cases) * (len(PROBS) + len(BAD)), "distinct_nontrivial": len(idx) * len(PROBS),
        "rule": "degrees of freedom 1..8 (N = M+P+dof) and 1000..4000 (band relation and quantile only) over several model shapes, weighted and unweighted, f32/f64; probabilities "
                "%s must be accepted, %s must be rejected by the documented panic; for each accepted p: radius_i = t * sigma_i (exact "
                "arithmetic, Model/Numeric.check_stats code 30) with t the Student-t quantile at (1+p)/2 and N-M-P degrees of freedom "
                "(cross-checked against an independent incomplete-beta evaluation), sigma_i^2 = j_i^T Cov j_i with the unweighted j_i "
                "(code 29), finite, non-negative, one entry per sample, non-decreasing in p" % (PROBS, BAD),
        "large_dof_band_checks": len(bterms), "edge_probability_checks": nedge, "quantile_argument_bit_exact_checks": nband, "dof_histogram": {str(k): v for k, v in sorted(ndof.items())}, "value_code_histogram": {str(k): v for k, v in hist.items()}, "release_profile_value_code_histogram": {str(k): v for k, v in rhist.items()},
        "fits_that_returned_err": nerr})
    run.samples = [{"meta": c["meta"], "scalar": c["scalar"]} for c, r in idx[:3]]
    run.coverage["trusted_base"] = run.coverage.get("trusted_base", []) + [
        "Flocq 4.1.0 (IEEE-754 binary32/binary64 model) for Props/C14F.v; its theorems depend on the standard library's real-number axioms "
        "ClassicalDedekindReals.sig_forall_dec, sig_not_dec, FunctionalExtensionality.functional_extensionality_dep and Classical_Prop.classic"]
    run.assumptions = ["distrs::StudentsT::ppf is the Student-t quantile (checked here to 1e-4 relative: the crate's quantile is itself an approximation)", "C14_mono needs monotonicity of the quantile in q"]
    return run.finish()
