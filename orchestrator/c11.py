"""C11 — parallel problems compute exactly what sequential problems compute"""
import copy
import random

from . import c04
from . import states
from .common import *

SEQ_OF = {"new_parallel": "new", "mrhs_parallel": "mrhs"}


def strip(res):
    """observable part of a scenario result (protocol log excluded: call order inside a parallel Jacobian may differ)"""
    out = []
    for s in res.get("steps", []):
        if s["op"] == "end":
            continue
        if s["op"] in ("fit", "fit_stats"):
            v = dict(s["v"])
            v.pop("log_start", None)
            v.pop("log_after_fit_stats", None)
            out.append((s["op"], json.dumps(v, sort_keys=True)))
        else:
            out.append((s["op"], json.dumps(s.get("v"), sort_keys=True)))
    return out


def main(tier, seed, replay=None):
    run = Run("C11", tier, seed, "proof")
    rng = random.Random(seed)
    proof_obligations(run, "C11")
    binp = build_harness("dev")
    workdir = os.path.join(COQ, "run", "C11")
    n = 40 if tier == "quick" else 400
    threads = [1, 2, 4, 16] if tier == "quick" else list(range(1, 17))
    groups = []
    for i in range(n):
        ctor = "mrhs_parallel" if i % 2 else "new_parallel"
        if i % 3 == 0:
            c = c04.gen_fit_case(rng, i, quant=None)
            c["ctor"] = ctor
            if not ctor.startswith("mrhs"):
                Y = [o for o in c["build"] if o[0] == "obs"][-1]
                Y[2] = Y[2][:1]
                c["meta"]["S"] = 1
            c["ops"] = [["observe"], ["jac_quiet"], ["fit", c["meta"]["cfg"]], ["observe"], ["jac_quiet"], ["into_seq"], ["observe"], ["jac_quiet"]]
        else:
            c = gen_problem(rng, ctor=ctor, quant=None, family=rng.choice(["exp3", "shared", "cosmix", "exp2c", "gaussc"]))
            c["ops"] = states.observe_at(rng, c, nsets=2) + [["into_seq"], ["observe"], ["jac_quiet"]]
        if i % 5 == 1:
            # a large absolute threshold on a scaled-up problem (singular values between eps and eps * sigma_max), and for every
            # third of these an exactly rank-deficient basis: truncation decisions must be the same in both flavours
            if i % 15 == 1:
                c = gen_problem(rng, ctor=ctor, quant=8, family=rng.choice(list(RANKDEF)), eps=rng.choice([1e-6, 1e-3]))
                c["ops"] = states.observe_at(rng, c, nsets=2) + [["into_seq"], ["observe"], ["jac_quiet"]]
            else:
                scale_up_for_eps(rng, c)
        if i % 5 == 2 and c["meta"]["family"] in ("exp3", "shared", "cosmix", "exp2c", "exp2", "exp1l"):
            # parameters at which the model evaluates to non-finite values (overflow), reached after good ones and followed by
            # good ones: the rejected state must look the same in both flavours
            bad = [hx(v, c["scalar"]) for v in ([-3000.0] * c["meta"]["P"] if c["meta"]["family"] != "exp2c" and c["meta"]["family"] != "exp1l"
                                                else [-1e-3] * c["meta"]["P"])]
            good = c["model"]["init"]
            c["ops"] = [o for o in c["ops"]]
            c["ops"][3:3] = [["set", bad], ["observe"], ["jac_quiet"], ["set", good], ["observe"], ["jac_quiet"]]
        if i % 5 == 4:
            # a failing derivative: absent Jacobian under every schedule
            c["faults"] = {"deriv": [[rng.randrange(c["meta"]["P"]), 0]]}
            c["ops"] = [["jac"], ["observe"], ["jac"]] + c["ops"]
        if i % 4 == 1:
            # the other conversion: into_parallel must not change anything observable either
            c["ops"] = [(["into_par"] if o[0] == "into_seq" else o) for o in c["ops"]]
        seq = copy.deepcopy(c)
        seq["ctor"] = SEQ_OF[ctor]
        pars = []
        # three nonlinear parameters (the most any family has) against pools of 1..4 threads for the first groups: work splits that
        # do not divide the columns evenly
        force3 = i < 4
        if force3 and c["meta"]["P"] != 3:
            c = gen_problem(rng, ctor=ctor, quant=None, family="exp3")
            c["ops"] = states.observe_at(rng, c, nsets=2) + [["into_seq"], ["observe"], ["jac_quiet"]]
            seq = copy.deepcopy(c)
            seq["ctor"] = SEQ_OF[ctor]
        many = 4 <= i < 10
        if many:
            # five to seven nonlinear parameters: column blocks of any small size leave a remainder
            c = gen_problem(rng, ctor=ctor, quant=None, family=["p5", "p6", "p7"][i % 3], weights=["pos", "none"][i % 2])
            c["ops"] = states.observe_at(rng, c, nsets=2) + [["into_seq"], ["observe"], ["jac_quiet"]]
            seq = copy.deepcopy(c)
            seq["ctor"] = SEQ_OF[ctor]
        wide = 10 <= i < 13
        if wide:
            # many right-hand sides (at least as many as worker threads): whatever is distributed over the columns of the observations
            # must come back in order
            c = gen_problem(rng, ctor="mrhs_parallel", quant=None, family=["exp2c", "cosmix", "exp3"][i % 3], S=[16, 8, 12][i % 3],
                            weights=["pos", "none"][i % 2])
            c["ops"] = states.observe_at(rng, c, nsets=2) + [["into_seq"], ["observe"], ["jac_quiet"]]
            seq = copy.deepcopy(c)
            seq["ctor"] = "mrhs"
        for t in ([1, 2, 3, 4] if force3 else [1, 2, 3, 4, 16] if many else [2, 4, 8] if wide else threads if i % 4 == 0 else rng.sample(threads, 2)):
            for jitter in (False, True):
                p = copy.deepcopy(c)
                p["threads"] = t
                p["jitter"] = jitter
                pars.append(p)
        groups.append((seq, pars))
    cases = []
    for seq, pars in groups:
        cases += [seq] + pars
    for i, c in enumerate(cases):
        c["id"] = i
    ncmp = 0
    tcount = {}
    for profile in ("dev", "release"):
        # both build profiles: the release build (no debug assertions / overflow checks) must show the same agreement
        pcases = cases if profile == "dev" else [c for g, (seq, pars) in enumerate(groups) if g % 2 == 0 for c in [seq] + pars]
        pgroups = groups if profile == "dev" else [g for k, g in enumerate(groups) if k % 2 == 0]
        results = run_harness(build_harness(profile), "scenario", pcases, workdir, timeout_ms=30000, tag=profile)
        it = iter(results)
        for seq, pars in pgroups:
            rs = next(it)
            base = strip(rs)
            for p in pars:
                rp = next(it)
                ncmp += 1
                tcount[p["threads"]] = tcount.get(p["threads"], 0) + 1
                if rp.get("panic") is not None or rp.get("timeout") or rs.get("panic") is not None or rs.get("timeout"):
                    run.violation("parallel / sequential run panicked or hung (%s profile)" % profile, {"sequential": seq, "parallel": p, "rs": rs, "rp": rp})
                    continue
                got = strip(rp)
                if got != base:
                    k = next((j for j, (a, b) in enumerate(zip(base, got)) if a != b), min(len(base), len(got)))
                    run.violation("parallel problem (%d threads%s, %s profile) differs from the sequential one at operation %d (%s)"
                                  % (p["threads"], ", jitter" if p["jitter"] else "", profile, k, base[k][0] if k < len(base) else "?"),
                                  {"sequential": seq, "parallel": p, "operation": k, "profile": profile,
                                   "sequential_shows": base[k] if k < len(base) else None, "parallel_shows": got[k] if k < len(got) else None})
    run.coverage.update({
        "evaluations": len(cases), "distinct_nontrivial": ncmp,
        "rule": "problems built through new_parallel / mrhs_parallel, run in dedicated rayon pools of %s threads with and without yields "
                "injected into the derivative closures, next to the sequentially built problem on the same inputs: histories of updates with "
                "residuals, coefficients and Jacobians, whole fits (termination, evaluations, parameters, coefficients, objective, best "
                "fit), a failing derivative, and conversion into_sequential / into_parallel followed by further queries — every observable compared "
                "bit for bit" % threads,
        "comparisons_per_pool_size": {str(k): v for k, v in sorted(tcount.items())}})
    run.samples = [{"ctor": p[0]["ctor"], "threads": p[0]["threads"], "ops": [o[0] for o in p[0]["ops"]]} for s, p in groups[:3]]
    run.assumptions = ["rayon hands each column to exactly one task (Rust's aliasing rules); schedules beyond those observed are covered by C11_schedule"]
    return run.finish()
