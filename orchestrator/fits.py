"""fits: derive the optimizer's script from the recorded model protocol and replay it through
Model/LMDriver.v (Exec/ProtoRun.fit_check).  Shared by C04, C09 (faults during fits), C11."""
import re
from fractions import Fraction

from . import hist
from .common import *

HEADER = hist.HEADER


def reason_to_coq(term):
    m = re.match(r"(\w+)", term)
    k = m.group(1)
    if k == "Converged":
        f = "ftol: true" in term
        x = "xtol: true" in term
        return "(Converged %s %s)" % (cbool(f), cbool(x))
    return k


def solver_cfg(rng, scalar, tier_hard=False):
    cfg = {}
    r = rng.random()
    if r < 0.35:
        cfg["patience"] = rng.choice([1, 1, 2, 3])
    elif r < 0.5:
        cfg["patience"] = rng.choice([5, 20])
    if rng.random() < 0.3:
        cfg["stepbound"] = hx(rng.choice([0.1, 1.0, 10.0, 100.0]), scalar)
    if rng.random() < 0.3:
        t = rng.choice([1e-3, 1e-6, 1e-10 if scalar == "f64" else 1e-5])
        cfg["ftol"] = hx(t, scalar)
        cfg["xtol"] = hx(t, scalar)
    if rng.random() < 0.2:
        cfg["gtol"] = hx(rng.choice([0.0, 1e-2, 0.5]), scalar)
    if rng.random() < 0.15:
        cfg["scale_diag"] = False
    if rng.random() < 0.12:
        # tolerances that cannot be met: the optimizer stops with NoImprovementPossible (an unsuccessful termination)
        z = hx(0.0, scalar)
        cfg.update({"ftol": z, "xtol": z, "gtol": z})
        cfg.pop("patience", None)
    return cfg


SUCCESSFUL = ("ResidualsZero", "Orthogonal", "Converged")


def events_of(ev):
    """group protocol entries into events: ('J', ok, i0, i1) a jacobian round, ('T', alpha, ok, i0, i1) a
    parameter update with its evaluation, ('E', ok, i0, i1) an evaluation without update"""
    events = []
    i = 0
    while i < len(ev):
        e = ev[i]
        if e[0] == "D":
            j = i
            ok = True
            while j < len(ev) and ev[j][0] == "D" and ev[j][3] == e[3]:
                ok = ok and ev[j][2]
                j += 1
            events.append(("J", ok, i, j))
            i = j
        elif e[0] == "S":
            if e[2] and i + 1 < len(ev) and ev[i + 1][0] == "E":
                events.append(("T", e[1], ev[i + 1][1], i, i + 2))
                i += 2
            else:
                events.append(("T", e[1], False, i, i + 1))
                i += 1
        else:
            events.append(("E", e[1], i, i + 1))
            i += 1
    return events


def derive_script(case, log, log_start, fit, with_stats=False):
    """returns (script, info); info['fit_log_len'] = number of protocol entries that belong to the
    optimizer's run (the statistics evaluate the model afterwards: J, E, E)"""
    par = "parallel" in case["ctor"]
    ev = canon_log(log[log_start:], par)
    events = events_of(ev)
    reason = reason_to_coq(fit["termination"])
    succ = fit["termination"].startswith(SUCCESSFUL)
    nstat = 0
    if with_stats and succ:
        # strip the trailing statistics calls: J? E? E? (in this order, as far as they got)
        k = len(events)
        pat = []
        while k > 0 and len(pat) < 2 and events[k - 1][0] == "E":
            pat.append(events[k - 1])
            k -= 1
        if k > 0 and events[k - 1][0] == "J":
            # the statistics' derivative round precedes its evaluations; with no E at all it is the
            # statistics' round only if the optimizer's own last event is not this J
            own_last_is_j = reason == "Orthogonal"
            nj = 0
            kk = k
            while kk > 0 and events[kk - 1][0] == "J":
                nj += 1
                kk -= 1
            if nj >= (2 if own_last_is_j else 1):
                k -= 1
        nstat = len(events) - k
        events = events[:k]
    fit_len = events[-1][-1] if events else 0
    nev = fit["evaluations"]
    ntr = nev - 1
    trials = [k for k, e in enumerate(events) if e[0] == "T"]
    script = []
    info = {"trials": ntr, "accepted": 0, "rejected": 0, "reset": False, "ambiguous": False,
            "fit_log_len": log_start + fit_len, "stats_events": nstat}
    if any(e[0] == "E" for e in events):
        return None, {"error": "an evaluation without parameter update inside the optimizer's run"}
    if len(trials) not in (ntr, ntr + 1):
        return None, {"error": "evaluations=%d but %d parameter updates were recorded" % (nev, len(trials))}
    has_reset = len(trials) == ntr + 1
    info["reset"] = has_reset
    real = trials[:ntr]
    for n, k in enumerate(real):
        a = events[k][1]
        last = n == ntr - 1
        nxt = events[k + 1] if k + 1 < len(events) else None
        if not last:
            good = nxt is not None and nxt[0] == "J"
            script.append(("T", a, good, None))
        else:
            if has_reset:
                script.append(("T", a, False, reason))
                good = False
            elif nxt is not None and nxt[0] == "J":
                good = True
                script.append(("T", a, True, None))
                script.append(("S", reason))
            else:
                if reason == "Numerical":
                    info["ambiguous"] = True
                good = reason not in ("User",)
                if reason == "User":
                    script.append(("T", a, False, None))
                else:
                    script.append(("T", a, True, reason))
        info["accepted" if good else "rejected"] += 1
    if ntr == 0:
        if any(e[0] == "J" for e in events):
            script.append(("B",))   # LM::new passed; the run ended after the first Jacobian request
        script.append(("S", reason))
    return script, info


def script_to_coq(script):
    out = []
    for c in script:
        if c[0] == "B":
            out.append("CBegin")
        elif c[0] == "S":
            out.append("CStop %s" % c[1])
        else:
            out.append("CTrial %s %s %s" % (bits_list(c[1]), cbool(c[2]), copt(c[3])))
    return clist(out)


def half_norm2(hexes):
    s = Fraction(0)
    for h in hexes:
        v = frac(h)
        s += v * v
    return s / 2


def fit_term(case, res):
    """Coq term for a scenario whose ops are: pre-ops (set/observe/jac)..., ['fit', cfg], ['observe'], ['ref_current']"""
    steps = res["steps"]
    ops = case["ops"]
    fi = [i for i, o in enumerate(ops) if o[0] in ("fit", "fit_stats")][0]
    fit = steps[fi]["v"]
    log = steps[-1]["log"]
    par = "parallel" in case["ctor"]
    with_stats = ops[fi][0] == "fit_stats"
    script, info = derive_script(case, log, fit["log_start"], fit, with_stats=with_stats)
    if script is None:
        return None, info
    pre_ops, xs = [], []
    for o, s in zip(ops[:fi], steps[:fi]):
        if o[0] == "set":
            pre_ops.append("OSet %s" % bits_list(o[1]))
            xs.append("XSet")
        elif o[0] == "observe":
            v = s["v"]
            pre_ops.append("OObserve")
            xs.append("XObserve %s %s %s" % (bits_list(v["params"]), cbool(v["resid"] is not None), cbool(v["coef"] is not None)))
        elif o[0] == "jac":
            pre_ops.append("OJac")
            xs.append("XJac %s" % cbool(s["v"] is not None))
    after = steps[fi + 1]["v"]  # observe right after the fit
    # the statistics evaluate the model after the fit: not part of the optimizer's protocol
    flog = canon_log(log[: fit["log_start"]], par) + canon_log(log[fit["log_start"]:], par)[: info["fit_log_len"] - fit["log_start"]]
    lg = log_to_coq(flog, lambda i: "(%s, %s)" % (cN(i), cbool(flog[i][2] if len(flog[i]) > 2 else True)), lambda i, k: "(%s, true)" % cN(i))
    x = "XFit %s %s %s %s %s %s" % (cbool(fit["ok"]), reason_to_coq(fit["termination"]), cnat(fit["evaluations"]),
                                    bits_list(after["params"]), cbool(after["resid"] is not None), cbool(after["coef"] is not None))
    t = "fit_check %s %s %s %s %s %s %s (%s)" % (cnat(case["model"]["nparams"]), cnat(len(case["model"]["x"])),
                                                 bits_list(case["model"]["init"]), lg, clist(pre_ops), clist(xs),
                                                 script_to_coq(script), x)
    info["fit"] = fit
    info["after"] = after
    info["log"] = flog
    info["fi"] = fi
    return t, info


FIT_CODES = {1: "the model's calls differ from the recorded protocol", 2: "script exhausted", 3: "Ok/Err differs",
             4: "termination reason differs", 5: "evaluation count differs", 6: "final parameters differ",
             7: "presence of residuals/coefficients differs"}
