"""C16 — built models route parameters by name and place derivatives by parameter index"""
import itertools
import random

from . import mb
from .common import *


def gen_model(rng, P=None, force_arity=None, misuse=False):
    """a valid builder program; returns (names, ops, info)"""
    P = P or rng.randint(1, 6)
    names = rng.sample(range(1, 10), P) if not force_arity else rng.sample(range(1, 30), max(P, force_arity))
    names = list(names)
    P = len(names)
    N = rng.randint(10, 12)
    groups = []
    tag = 1
    remaining = list(names)
    rng.shuffle(remaining)
    nfun = rng.randint(1, 4)
    first = True
    while remaining or nfun > 0:
        nfun -= 1
        if not first and rng.random() < 0.25:
            groups.append([("invariant", tag)])
            tag += 1
            continue
        k = force_arity if (force_arity and first) else rng.randint(1, min(P, 10))
        first = False
        base = remaining[:k]
        remaining = remaining[len(base):]
        others = [n for n in names if n not in base]
        rng.shuffle(others)
        fps = base + others[: k - len(base)]
        rng.shuffle(fps)
        grp = [("function", list(fps), len(fps), tag)]
        tag += 1
        dorder = list(fps)
        rng.shuffle(dorder)
        for n in dorder:
            grp.append(("partial_deriv", n, len(fps), tag))
            tag += 1
        groups.append(grp)
        if tag > 60:
            break
    # invariant functions at any position (also first / last)
    if rng.random() < 0.5:
        groups.insert(rng.randrange(len(groups) + 1), [("invariant", tag)])
        tag += 1
    extras = [[("x", [rng.randint(0, 9) for _ in range(N)])], [("init", [rng.randint(11, 99) for _ in range(P)])]]
    allg = groups + extras
    rng.shuffle(allg)
    ops = [o for g in allg for o in g]
    return names, ops, {"P": P, "N": N}


def gen_big_model(rng, P):
    """a valid model with MANY parameters (beyond any machine-word sized bookkeeping): functions of arity <= 10 covering all of them"""
    names = rng.sample(range(1, 400), P)
    N = 10
    remaining = list(names)
    rng.shuffle(remaining)
    groups, tag = [], 1
    while remaining:
        k = min(len(remaining), rng.randint(6, 10))
        fps = remaining[:k]
        remaining = remaining[k:]
        grp = [("function", list(fps), k, tag)]
        tag += 1
        dorder = list(fps)
        rng.shuffle(dorder)
        for n in dorder:
            grp.append(("partial_deriv", n, k, tag % 100))
            tag += 1
        groups.append(grp)
    extras = [[("x", [rng.randint(0, 9) for _ in range(N)])], [("init", [11 + (i % 88) for i in range(P)])]]
    allg = groups + extras
    rng.shuffle(allg)
    return names, [o for g in allg for o in g], {"P": P, "N": N, "big": True}


def gen_calls(rng, P):
    if P > 60:
        # one update, one evaluation, every derivative index in turn
        return [("params",), ("set", [11 + ((7 * i) % 88) for i in range(P)]), ("eval",)] + [("deriv", k) for k in range(P)]
    calls = [("params",), ("eval",)]
    vals = None
    for _ in range(rng.randint(1, 3)):
        vals = rng.sample(range(11, 99), P)
        calls.append(("set", vals))
        calls.append(("params",))
        calls.append(("eval",))
        ks = list(range(P))
        rng.shuffle(ks)
        for k in ks:
            calls.append(("deriv", k))
    # partial updates: one parameter moves, all others keep their value bit for bit — every derivative and the evaluation must
    # still follow (nothing may be remembered per parameter)
    for _ in range(rng.randint(1, 2)):
        j = rng.randrange(P)
        vals = list(vals)
        vals[j] = vals[j] + 100
        calls.append(("set", vals))
        for k in range(P):
            calls.append(("deriv", k))
        calls.append(("eval",))
    # a rejected update (wrong number of parameters) must leave parameters, evaluation and derivatives as they were
    calls.append(("set", list(vals) + [55]))
    calls.append(("params",))
    calls.append(("eval",))
    calls.append(("deriv", rng.randrange(P)))
    if P > 1:
        calls.append(("set", list(vals)[:-1]))
        calls.append(("params",))
        calls.append(("eval",))
    # and the same vector again
    calls.append(("set", list(vals)))
    calls.append(("deriv", rng.randrange(P)))
    # vectors that compare equal but are not the same: +0 / -0 in one slot ("parameters set on the model are returned unchanged" is
    # judged bit for bit below)
    z = [float(v) for v in vals]
    j = rng.randrange(P)
    for zero in (0.0, -0.0, 0.0, -0.0):
        z = list(z)
        z[j] = zero
        calls.append(("set", z))
        calls.append(("params",))
    calls.append(("eval",))
    return calls


def main(tier, seed, replay=None):
    run = Run("C16", tier, seed, "proof")
    rng = random.Random(seed)
    proof_obligations(run, "C16")
    binp = build_harness("dev")
    progs = []
    # every arity 1..10, several times
    reps = 6 if tier == "quick" else 60
    for ar in range(1, 11):
        for _ in range(reps):
            progs.append(gen_model(rng, P=ar + rng.randint(0, 2), force_arity=ar))
    # all orders of the model parameter list for P <= 4 around one fixed set of functions
    for P in (2, 3, 4):
        base = list(range(1, P + 1))
        fps1 = base[::-1]
        for perm in itertools.permutations(base):
            ops = [("function", fps1, P, 1)] + [("partial_deriv", n, P, 10 + n) for n in base]
            ops += [("invariant", 5), ("function", [base[0]], 1, 6), ("partial_deriv", base[0], 1, 7)]
            ops += [("x", list(range(10))), ("init", [20 + i for i in range(P)])]
            progs.append((list(perm), ops, {"P": P, "N": 10}))
    for _ in range(150 if tier == "quick" else 3000):
        progs.append(gen_model(rng))
    # names that differ in ASCII case only are different parameters (v1 / V1): routing and derivative placement keep them apart
    for rep in range(12 if tier == "quick" else 200):
        names, ops, info = gen_model(rng, P=rng.randint(2, 5))
        pool = [500 + k for k in range(1, 4)] + [600 + k for k in range(1, 4)]
        rng.shuffle(pool)
        ren = {n: pool[j] for j, n in enumerate(names)} if len(names) <= len(pool) else {}
        if ren:
            names = [ren[n] for n in names]
            ops = [(o[0], [ren[a] for a in o[1]]) + tuple(o[2:]) if o[0] == "function" else
                   (o[0], ren[o[1]]) + tuple(o[2:]) if o[0] == "partial_deriv" else o for o in ops]
        progs.append((names, ops, info))
    # many parameters: indices beyond 64 / 128 (bit masks, small fixed-size tables)
    for P in ([66, 70] if tier == "quick" else [65, 66, 70, 96, 129, 130, 200]):
        progs.append(gen_big_model(rng, P))
    cases, calls_l = [], []
    for i, (names, ops, info) in enumerate(progs):
        calls = gen_calls(rng, info["P"])
        c = mb.to_harness(names, ops, scalar="f64" if i % 3 else "f32", calls=calls)
        c["id"] = i
        cases.append(c)
        calls_l.append(calls)
    workdir = os.path.join(COQ, "run", "C16")
    results = run_harness(binp, "mbuilder", cases, workdir, timeout_ms=10000)
    rel = release_differences("mbuilder", cases, results, workdir, timeout_ms=10000, with_index=True)
    for k, c, rr in rel:        # release-profile runs that differ from the dev profile are judged like any other
        progs.append(progs[k])
        calls_l.append(calls_l[k])
        results.append(rr)
    run.coverage["release_profile_cases_differing_from_dev"] = len(rel)
    terms, idx = [], []
    arities = {}
    distinct = set()
    for (names, ops, info), calls, r in zip(progs, calls_l, results):
        if r.get("timeout") or r.get("panic") is not None or not r["head"]["ok"]:
            run.violation("a valid builder program was rejected / panicked", {"names": names, "ops": ops, "result": r})
            continue
        # parameters set on the model are returned unchanged: bit for bit (the integer-valued model below cannot tell +0 from -0)
        sc_ = r.get("scalar_used") or ("f64" if r["head"]["init"] and r["head"]["init"][0][0] == "d" else "f32")
        cur = None
        for cl, cr in zip(calls, r["head"]["calls"]):
            if cl[0] == "set" and cr["ok"]:
                cur = [hx(float(v), sc_) for v in cl[1]]
            elif cl[0] == "params" and cur is not None and cr["v"] != cur:
                run.violation("parameters set on the model are not returned unchanged (bit for bit)",
                              {"names": names, "ops": ops, "calls": calls, "set": cur, "returned": cr["v"]})
                break
        try:
            t = mb.term(names, ops, calls, r)
        except ValueError as e:
            run.violation("builder-made model returned a non-integer value from integer closures: %s" % e,
                          {"names": names, "ops": ops, "calls": calls, "result": r})
            continue
        terms.append(t)
        idx.append((names, ops, calls, r))
        for o in ops:
            if o[0] == "function":
                arities[o[2]] = arities.get(o[2], 0) + 1
        distinct.add((tuple(names), repr(ops)))
    codes = coq_eval("C16", mb.HEADER, terms)
    nbad = 0
    for (names, ops, calls, r), code, t in zip(idx, codes, terms):
        if code != 0:
            nbad += 1
            if nbad <= 3:
                shown = coq_show("C16", mb.HEADER, "match %s with Done m => Some (mb_calls m %s) | _ => None end"
                                 % (mb.show_term(names, ops), mb.calls_to_coq(calls)))
                what = "call #%d returns something else than the model" % (code - 10) if code >= 10 else "built model differs (code %d)" % code
                run.violation("builder-made model disagrees with the model: " + what,
                              {"names": names, "ops": ops, "calls": calls, "implementation": r["head"], "coq_term": t,
                               "model_says": shown})
    run.coverage.update({
        "evaluations": len(progs), "distinct_nontrivial": len(distinct),
        "rule": "valid builder programs with position-encoding integer closures out[i] = args[i mod n] + 100*tag + 10000*x[i] "
                "(a swapped, dropped or misrouted argument changes the output exactly): every arity 1..10 x %d, every order of the "
                "model parameter list for P = 2,3,4, random programs (1-6 parameters, shared parameters, random derivative supply "
                "order, invariant functions at random positions, shuffled builder calls); calls: params/eval, then 1-3 rounds of "
                "set/params/eval/all derivatives in random order; f32 and f64; distinct = distinct (names, program)" % reps,
        "function_arity_histogram": arities, "traces_validated_against_impl": len(idx)})
    run.samples = [{"names": n, "ops": o, "calls": c[:6]} for n, o, c, r in idx[:2]]
    run.assumptions = ["closure outputs are small integers, exact in f32 and f64"]
    return run.finish()
