"""fits with statistics (shared by C12 / C13 / C14)"""
import random

from . import fits
from . import num
from .common import *

HEADER_OUT = ("From Coq Require Import List Bool Arith NArith.\nImport ListNotations.\nFrom VP Require Import Model.Stats.\n"
              "Definition fws_code (r : fws) : N := match r with FWSPanic => 0 | FWSErr => 1 | FWSOk d => (2 + d) end%N.\n")


def family_mp(M, P, shared=False):
    """a model with M basis functions and P nonlinear parameters (P <= 2M); shared: parameter 0 is used by two basis functions
    (its derivative matrix has two non-zero columns)"""
    if shared and M >= 2 and P == 2:
        return [["exprate", 0], ["expcos", 0, 1]] + [["const"], ["lin"]][: M - 2], (0.25, 1.5)
    if P <= M:
        basis = [["exprate", k] for k in range(P)] + [["const"], ["lin"]][: M - P]
        rng_ = (0.25, 2.0)
    else:
        two = P - M          # number of two-parameter functions
        basis = []
        k = 0
        for _ in range(two):
            basis.append(["expcos", k, k + 1])
            k += 2
        while len(basis) < M:
            basis.append(["exprate", k])
            k += 1
        rng_ = (0.25, 1.5)
    assert len(basis) == M
    return basis, rng_


def gen_stats_case(rng, M, P, N, scalar="f64", weights=None, noise=0.05, quant=None, probs=None, ctor="new", faults=None,
                   builder_made=False, patience=None, cfg=None, qbits=10, shared=False, yscale=None):
    basis, (lo, hi) = family_mp(M, P, shared=shared)
    shared = shared and M >= 2 and P == 2
    # well separated parameters keep the normal matrix H^T H reasonably conditioned (otherwise most cases are skipped)
    truth = []
    if shared:
        truth = [round(rng.uniform(0.3, 0.6) * 16) / 16, round(rng.uniform(1.0, 2.5) * 16) / 16]
    elif P <= M:
        r = rng.uniform(0.2, 0.4)
        for _ in range(P):
            truth.append(round(r * 16) / 16)
            r *= rng.uniform(2.5, 4.0)
    else:
        two = P - M
        for _ in range(two):
            truth += [round(rng.uniform(0.2, 0.6) * 16) / 16, round(rng.uniform(1.0, 3.0) * 16) / 16]
        r = rng.uniform(0.8, 1.2)
        while len(truth) < P:
            truth.append(round(r * 16) / 16)
            r *= rng.uniform(2.5, 4.0)
    x = [0.25 * (i + 1) for i in range(N)]
    start = [round_to(t * (1 + rng.uniform(-0.03, 0.03)), scalar) for t in truth]
    spec = model_spec(x, basis, P, start, scalar=scalar, quant=quant, builder_made=builder_made)
    c = {"scalar": scalar, "ctor": ctor, "model": spec, "faults": faults, "build": [["obs", N, [[]]]], "ops": [],
         "meta": {"family": "mp%d%d" % (M, P), "N": N, "M": M, "P": P, "S": 1, "weights": weights or "none", "range": [lo, hi]}}
    synth_observations(rng, c, truth, noise=noise, qbits=qbits)
    if yscale is not None:
        # the same data in other units (an exact power of two): every statistic scales with it exactly
        for o in c["build"]:
            if o[0] == "obs":
                o[2] = [[hx(unhx(h) * yscale, scalar) for h in col] for col in o[2]]
        c["meta"]["yscale_log2"] = int(round(__import__("math").log2(yscale)))
    if weights and weights != "none":
        w = [1.0] * N if weights == "unit" else [rng.choice([0.5, 3.0, 0.25, 2.5])] * N if weights == "const" else [dyadic(rng, 0.5, 3, 2) for _ in range(N)]
        if weights in ("tiny", "huge"):
            # a common factor of 2^-15 / 2^12: H^T H scales by its square, the covariance not at all
            f = 2.0 ** -15 if weights == "tiny" else 2.0 ** 12
            w = [v * f for v in w]
        if weights == "neg":
            # the sign of a weight is immaterial for the fit (only w^2 enters); it must be for the statistics too
            for i in rng.sample(range(N), max(1, N // 3)):
                w[i] = -w[i]
        if weights == "zeros":
            # some samples masked out by a weight of exactly zero (they still count as observations: N is the sample count)
            nz = max(1, min(N - (M + P) - 1, N // 4))
            if N - nz > M + P:
                for i in rng.sample(range(N), nz):
                    w[i] = 0.0
        c["build"].append(["weights", [hx(v, scalar) for v in w]])
        if rng.random() < 0.5:
            c["build"].reverse()
    cfg = dict(cfg or {})
    if patience is not None:
        cfg["patience"] = patience
    probs = probs if probs is not None else [0.5, 0.683, 0.9]
    c["ops"] = [["observe"], ["fit_stats", cfg, [hx(p, scalar) for p in probs]], ["observe"], ["tables"]]
    c["meta"]["cfg"] = cfg
    return c


def outcome(res):
    """implementation: 0 panic, 1 Err, 2 + dof Ok"""
    if res.get("panic") is not None:
        return 0
    st = res["steps"][1]["v"]
    if st is None:
        return None
    if st["ok"]:
        return 2 + st["stats"]["dof"]
    return 1


def model_outcome_term(case, res, profile):
    """Coq term for the model's outcome, from the recorded protocol of the statistics calls"""
    st = res["steps"][1]["v"]
    m = case["meta"]
    log = res["steps"][-1]["log"] if res["steps"][-1]["op"] == "end" else []
    succ = st["termination"].startswith(fits.SUCCESSFUL)
    has_coef = st["lin_coef"] is not None
    # statistics' calls: the events after the optimizer's run
    script, info = fits.derive_script(case, log, st["log_start"], st, with_stats=True)
    jac_ok = eval_ok = True
    if script is not None and succ:
        ev = fits.events_of(canon_log(log[st["log_start"]:], "parallel" in case["ctor"]))
        tail = ev[len(ev) - info["stats_events"]:] if info["stats_events"] else []
        js = [e for e in tail if e[0] == "J"]
        es = [e for e in tail if e[0] == "E"]
        if js and not js[0][1]:
            jac_ok = False
        if es:
            if not es[0][1]:
                jac_ok = False      # the first evaluation belongs to model_function_jacobian
            if len(es) > 1 and not es[1][1]:
                eval_ok = False
    return ("fws_code (fit_with_statistics_outcome %s %s %s %s %s true %d%%N %d%%N %d%%N)"
            % (profile, cbool(succ), cbool(has_coef), cbool(jac_ok), cbool(eval_ok), m["N"], m["M"], m["P"]))
