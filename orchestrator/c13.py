"""C13 — covariance and correlation are those of the full parameter vector (c, alpha)"""
import random

from . import num
from . import statsrun
from .common import *

COMBOS = [(1, 1), (2, 1), (3, 1), (1, 2), (2, 2), (3, 2), (4, 2), (2, 3), (3, 3), (4, 3)]


def run_stats_values(run, prop, cases, binp, codes, what, tag=""):
    workdir = os.path.join(COQ, "run", prop)
    for i, c in enumerate(cases):
        c["id"] = i
    results = run_harness(binp, "scenario", cases, workdir, timeout_ms=30000, tag=tag)
    terms, idx = [], []
    nerr = 0
    for c, r in zip(cases, results):
        if r.get("panic") is not None or r.get("timeout"):
            run.violation("%s: fit_with_statistics panicked / hung: %s" % (what, r.get("panic") or "timeout"), {"case": c, "result": r})
            continue
        if r["head"].get("build") != "ok":
            run.violation("problem construction failed", {"case": c, "result": r})
            continue
        st = r["steps"][1]["v"]
        if not st["ok"]:
            nerr += 1
            continue
        if c["meta"]["N"] <= c["meta"]["M"] + c["meta"]["P"]:
            run.violation("%s: statistics with a covariance matrix were produced for N = %d samples and M + P = %d parameters (no degrees of "
                          "freedom: sigma^2 (H^T H)^-1 does not exist)" % (what, c["meta"]["N"], c["meta"]["M"] + c["meta"]["P"]),
                          {"case": c, "stats": st["stats"]})
            continue
        if st["stats"].get("corr_deprecated") is not None and st["stats"]["corr_deprecated"] != st["stats"]["corr"]:
            run.violation("%s: the deprecated accessor correlation_matrix() differs from calculate_correlation_matrix()" % what,
                          {"case": c, "stats": st["stats"]})
            continue
        t = num.stats_term(c, st, r["steps"][3]["v"])
        if t is not None:
            terms.append(t)
            idx.append((c, r))
        else:
            run.nonfinite_stats = getattr(run, "nonfinite_stats", 0) + 1
            # nothing drops out silently: a successful result some statistic of which is not finite has no term for the exact
            # comparison; what can be said without one is said here. Legitimate: an exact fit (reduced chi^2 = 0) makes every
            # variance 0 and the correlation 0/0. Not legitimate: a non-finite covariance from finite data, a non-finite correlation
            # between two parameters of positive variance, variance accessors that are not the diagonal.
            sx = st["stats"]
            tb = r["steps"][3]["v"]
            wv = num.weights_of(c)
            finite_in = tb.get("phi") is not None and num.all_finite_mat(tb["phi"]) and all(d is not None and num.all_finite_mat(d) for d in tb["d"]) \
                and (wv is None or all(is_finite_hex(h) for h in wv)) and st["lin_coef"] is not None and num.all_finite_mat(st["lin_coef"]) \
                and all(is_finite_hex(h) for h in sx["wres"])
            if finite_in and sx.get("cov") is not None:
                cov = sx["cov"]["cols"]
                K = len(cov)
                if not num.all_finite_mat(sx["cov"]):
                    if is_finite_hex(sx["chi2"]):
                        run.violation("%s: the covariance matrix of a successful fit on finite data has non-finite entries" % what,
                                      {"case": c, "stats": sx})
                    continue
                dg = [unhx(cov[j][j]) for j in range(K)]
                if sx.get("corr") is not None:
                    bad = [(i, j) for j in range(K) for i in range(K)
                           if not is_finite_hex(sx["corr"]["cols"][j][i]) and dg[i] > 0 and dg[j] > 0]
                    if bad:
                        run.violation("%s: correlation entry %r is not finite although both variances are positive" % (what, bad[0]),
                                      {"case": c, "stats": sx})
                        continue
                M_ = c["meta"]["M"]
                if [hxbits(h) for h in sx["lin_var"]] != [hxbits(cov[j][j]) for j in range(M_)] or \
                        [hxbits(h) for h in sx["nl_var"]] != [hxbits(cov[j][j]) for j in range(M_, K)]:
                    run.violation("%s: variance accessors are not the diagonal segments of the covariance (linear first)" % what,
                                  {"case": c, "stats": sx})
    vcodes = coq_eval(prop, num.HEADER, terms, per_file_timeout=2400)
    hist = {}
    for (c, r), code, t in zip(idx, vcodes, terms):
        hist[code] = hist.get(code, 0) + 1
        if code in codes:
            run.violation("%s: %s" % (what, num.STATS_CODES[code]), {"case": c, "stats": r["steps"][1]["v"]["stats"], "coq_term": t})
    return results, idx, hist, nerr


def main(tier, seed, replay=None):
    run = Run("C13", tier, seed, "proof")
    rng = random.Random(seed)
    proof_obligations(run, "C13", extra_pins=("E2E",))
    binp = build_harness("dev")
    cases = []
    reps = 3 if tier == "quick" else 40
    k = 0
    for (M, P) in COMBOS:
        for rep in range(reps):
            k += 1
            N = M + P + rng.randint(2, 10)
            cases.append(statsrun.gen_stats_case(rng, M, P, N, scalar=("f32" if k % 6 == 0 else "f64"),
                                                 weights=["none", "pos", "zeros", "neg", "const"][k % 5], noise=[0.02, 0.1, 0.5][rep % 3],
                                                 quant=(8 if k % 4 else None), probs=[0.683],
                                                 ctor=("new_parallel" if k % 5 == 0 else "new"), builder_made=(k % 4 == 2 and P <= M)))
    # weights with a tiny / huge common factor (normal matrix entries around 1e-10 / 1e7)
    for j in range(8 if tier == "quick" else 100):
        M, P = COMBOS[j % 4]
        cases.append(statsrun.gen_stats_case(rng, M, P, M + P + rng.randint(3, 9), scalar="f64", weights=["tiny", "huge"][j % 2], noise=0.1,
                                             quant=(8 if j % 3 else None), probs=[0.683]))
    # data in tiny units: covariance entries around 1e-20 .. 1e-38
    for j in range(6 if tier == "quick" else 60):
        M, P = COMBOS[j % 3]
        cases.append(statsrun.gen_stats_case(rng, M, P, M + P + rng.randint(3, 9), scalar="f64", weights=["none", "pos", "neg"][j % 3], noise=0.05,
                                             quant=(8 if j % 2 else None), probs=[0.683], yscale=(2.0 ** -30 if j % 2 else 2.0 ** -60)))
    # a user threshold that truncates some (not all) singular values of the weighted basis matrix at the solution: the statistics are
    # those of the coefficients the fit reports (H is built from them)
    for j in range(8 if tier == "quick" else 100):
        M, P = [(3, 1), (3, 2), (2, 1), (3, 3)][j % 4]
        c = statsrun.gen_stats_case(rng, M, P, M + P + rng.randint(4, 9), scalar="f64", weights=["none", "pos", "const"][j % 3], noise=0.05,
                                    quant=(8 if j % 2 else None), probs=[0.683])
        c["build"].append(["eps", hx([0.3, 0.6, 1.0, -0.5][j % 4], "f64")])
        c["meta"]["user_eps"] = True
        cases.append(c)
    # a parameter shared by two basis functions (its derivative matrix has two non-zero columns)
    for j in range(6 if tier == "quick" else 80):
        M = 2 + j % 3
        cases.append(statsrun.gen_stats_case(rng, M, 2, M + 2 + rng.randint(3, 9), scalar=("f32" if j % 5 == 4 else "f64"),
                                             weights=["none", "pos", "neg"][j % 3], noise=0.05, quant=(8 if j % 2 else None), probs=[0.683], shared=True,
                                             builder_made=(j % 2 == 0)))
    # almost noise-free data: variances far below machine epsilon in absolute terms (the covariance scales with the noise, its
    # normalisation to correlations must not)
    for j in range(8 if tier == "quick" else 120):
        M, P = COMBOS[j % len(COMBOS)]
        sc = "f32" if j % 4 == 3 else "f64"
        cases.append(statsrun.gen_stats_case(rng, M, P, M + P + rng.randint(3, 10), scalar=sc, weights=["none", "pos"][j % 2],
                                             noise=(1e-9 if sc == "f64" else 1e-5) * rng.choice([1.0, 0.1, 10.0]), qbits=(44 if sc == "f64" else 30),
                                             quant=None, probs=[0.683]))
    # exactly as many (and fewer) samples than parameters: there is no reduced chi^2, hence no covariance sigma^2 (H^T H)^-1 — a result
    # with a covariance matrix for such a fit is not the covariance of anything (judged in run_stats_values)
    for j in range(8 if tier == "quick" else 40):
        M, P = COMBOS[j % 6]
        cases.append(statsrun.gen_stats_case(rng, M, P, M + P - (1 if j % 4 == 3 and M + P > 2 else 0), scalar=("f32" if j % 5 == 4 else "f64"),
                                             weights=["none", "pos"][j % 2], noise=0.05, quant=(8 if j % 2 else None), probs=[0.683]))
    results, idx, hist, nerr = run_stats_values(run, "C13", cases, binp, (20, 21, 22, 23, 24, 25, 26, 27, 28, 31), "covariance")
    # the same problems in the release profile (no debug assertions, no overflow checks): the statistics must not depend on it
    rel_cases = [c for k, c in enumerate(cases) if tier != "quick" or k % 2 == 0]
    _, ridx, rhist, _ = run_stats_values(run, "C13", rel_cases, build_harness("release"), (20, 21, 22, 23, 24, 25, 26, 27, 28, 31), "covariance (release profile)", tag="rel")
    # ordering: linear coefficients first (in basis order) then nonlinear parameters (declaration order) is what code 24 checks:
    # H's columns are [Phi | D_1 c | ... | D_P c]; slices are checked by code 27
    run.coverage.update({
        "evaluations": len(cases), "distinct_nontrivial": len(idx),
        "rule": "successful fits with statistics for every (M, P) in %s (P <= 2M: functions of one and two parameters), N = M+P+2..10, "
                "unweighted and weighted, three noise levels, f32/f64, sequential/parallel, builder-made variants; the covariance is accepted "
                "iff (H^T H) Cov = chi2 * 1 up to rounding with H = W [Phi | D_1 c | ... | D_P c] built in exact arithmetic from the model tables "
                "(so a wrong column order, a missing weight or chi vs chi^2 changes the equation), symmetry, non-negative diagonal, variance "
                "accessors exactly the diagonal segments split at M, correlation^2 * c_ii * c_jj = c_ij^2 with matching sign and |corr| <= 1"
                % (COMBOS,),
        "value_code_histogram": {str(k): v for k, v in hist.items()}, "fits_that_returned_err": nerr,
        "release_profile_value_code_histogram": {str(k): v for k, v in rhist.items()},
        "successful_fits_with_non_finite_statistics_not_compared": getattr(run, "nonfinite_stats", 0)})
    run.samples = [{"meta": c["meta"], "scalar": c["scalar"], "ctor": c["ctor"]} for c, r in idx[:3]]
    run.assumptions = ["rounding margin 64 u sqrt(N (M+P)) relative to ||H^T H|| ||Cov||"]
    return run.finish()
