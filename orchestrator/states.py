"""shared by C02 / C03 / C06 / C07: scenarios that observe several states (coefficients, residuals,
Jacobian, model tables) and evaluate Model/Numeric.check_state on each"""
from . import num
from .common import *


def triples(case, res):
    """yield (step index, observe, jac, tables) for consecutive observe / jac_quiet / tables steps"""
    steps = res["steps"]
    k = 0
    while k + 2 < len(steps):
        if steps[k]["op"] == "observe" and steps[k + 1]["op"] == "jac_quiet" and steps[k + 2]["op"] == "tables":
            yield k, steps[k]["v"], steps[k + 1]["v"], steps[k + 2]["v"]
            k += 3
        else:
            k += 1


OBS = [["observe"], ["jac_quiet"], ["tables"], ["svd"]]


def observe_at(rng, c, nsets=2):
    m = c["meta"]
    lo, hi = m["range"]
    sc = c["scalar"]
    ops = list(OBS)
    for _ in range(nsets):
        a = [hx(v, sc) for v in distinct_params(rng, m["P"], lo, hi)]
        ops += [["set", a]] + OBS
    return ops


def run_states(run, prop, binp, cases, mode, codes_of_interest, what):
    workdir = os.path.join(COQ, "run", prop)
    for i, c in enumerate(cases):
        c["id"] = i
    results = run_harness(binp, "scenario", cases, workdir, timeout_ms=20000)
    # the release profile (no debug assertions, no overflow checks): whatever it shows differently from the dev profile is judged
    # by the same exact comparison (identical output needs no second evaluation)
    rel = run_harness(build_harness("release"), "scenario", cases, workdir, timeout_ms=20000, tag="rel")
    both = [(c, r, "") for c, r in zip(cases, results)]
    ndiff = 0
    for c, r, rr in zip(cases, results, rel):
        if rr.get("panic") is not None or rr.get("timeout") or rr.get("steps") != r.get("steps") or rr.get("head") != r.get("head"):
            both.append((c, rr, " (release profile)"))
            ndiff += 1
    run.coverage["release_profile_cases_differing_from_dev"] = ndiff
    terms, idx = [], []
    for c, r, prof in both:
        what_p = what + prof
        if r.get("panic") is not None or r.get("timeout") or r["head"].get("build") != "ok":
            run.violation("%s: construction / update panicked, hung or failed" % what_p, {"case": c, "result": r})
            continue
        for k, ob, jq, tb in triples(c, r):
            # nothing may drop out of the exact comparison silently: when the model evaluates to finite values (and the weights
            # are finite) the problem must show finite residuals and coefficients, and — all derivatives given — a finite Jacobian
            w = num.weights_of(c)
            model_ok = tb["phi"] is not None and num.all_finite_mat(tb["phi"]) and (w is None or all(is_finite_hex(h) for h in w))
            if model_ok and w is not None:
                # finite weights times finite values can still overflow: what has to be finite is the WEIGHTED basis matrix (and the
                # weighted observations)
                sc_ = c["scalar"]
                wv_ = [unhx(h) for h in w]
                model_ok = all(is_finite_hex(hx(round_to(wv_[i_] * unhx(h), sc_), sc_)) for col in tb["phi"]["cols"] for i_, h in enumerate(col)) \
                    and all(is_finite_hex(hx(round_to(wv_[i_] * unhx(h), sc_), sc_)) for col in num.obs_of(c) for i_, h in enumerate(col))
            if tb["phi"] is not None and not num.all_finite_mat(tb["phi"]) and (ob["resid"] is not None or ob["coef"] is not None):
                run.violation("%s, state at step %d: residuals / coefficients are exposed although the model values at the parameters in "
                              "effect are not finite (they cannot belong to these parameters)" % (what_p, k),
                              {"case": c, "step": k, "observe": ob, "tables": tb})
                continue
            if model_ok:
                gone = None
                if ob["resid"] is None or ob["coef"] is None:
                    gone = "residuals / coefficients are absent"
                elif not num.all_finite_mat(ob["coef"]) or not all(is_finite_hex(h) for h in ob["resid"]):
                    gone = "residuals / coefficients are not finite"
                elif (mode & 4) and all(d is not None and num.all_finite_mat(d) for d in tb["d"]):
                    if jq is None:
                        gone = "the Jacobian is absent although every derivative evaluates"
                    elif not num.all_finite_mat(jq):
                        gone = "the Jacobian is not finite"
                if gone:
                    run.violation("%s, state at step %d: %s although the model evaluates to finite values" % (what_p, k, gone),
                                  {"case": c, "step": k, "observe": ob, "jacobian": jq, "tables": tb})
                    continue
            if c.get("no_exact"):
                continue        # judged by the caller (bit-exact comparison with a twin); exact arithmetic on 1e200-sized entries is slow
            t = num.state_term(c, ob, tb, jac=jq, with_jac=(mode & 4) != 0, mode=mode)
            if t is not None:
                terms.append(t)
                idx.append((c, r, k, what_p))
    codes = coq_eval(prop, num.HEADER, terms, per_file_timeout=2400)
    hist = {}
    nskip = 0
    for (c, r, k, what_p), code, t in zip(idx, codes, terms):
        hist[code] = hist.get(code, 0) + 1
        if code == 1:
            nskip += 1
        elif codes_of_interest(code):
            run.violation("%s, state at step %d: %s" % (what_p, k, num.state_code_text(code)),
                          {"case": c, "step": k, "observe": r["steps"][k]["v"], "jacobian": r["steps"][k + 1]["v"],
                           "tables": r["steps"][k + 2]["v"], "coq_term": t})
    return results, len(terms), nskip, hist


RD_TEXT = {3: "coefficients are not the minimum-norm least-squares solution", 4: "residuals are not W(Y - Phi C) for the minimum-norm coefficients",
           8: "non-finite coefficients / residuals or wrong shapes"}


def run_rankdef(run, prop, binp, rng, n, codes, ctors=None, S=None, skip_dependency_defect=False):
    """exactly rank-deficient basis matrices with a user threshold (truncation active): the minimum-norm
    minimiser and its residuals are expected, all values finite"""
    workdir = os.path.join(COQ, "run", prop)
    rcases = []
    for i in range(n):
        fam = list(RANKDEF)[i % len(RANKDEF)]
        c = gen_problem(rng, family=fam, quant=(8 if i % 3 else None), eps=rng.choice([1e-6, -1e-6, 1e-5]),
                        builder_made=(i % 4 == 1 and fam != "dup2"), weights=rng.choice(["none", "pos", "unit"]),
                        **({"ctor": ctors[i % len(ctors)], "S": S[i % len(S)]} if ctors else {}))
        m = c["meta"]
        lo, hi = m["range"]
        a = [hx(v, c["scalar"]) for v in distinct_params(rng, m["P"], lo, hi)]
        c["ops"] = [["observe"], ["tables"], ["svd"], ["set", a], ["observe"], ["tables"], ["svd"]]
        c["id"] = 100000 + i
        rcases.append(c)
    # minimised / recorded past disagreements run first (corpus)
    cp = os.path.join(ROOT, "corpus", "rankdef.json")
    if os.path.exists(cp) and not skip_dependency_defect:
        rcases = json.load(open(cp)) + rcases
    rres = run_harness(binp, "scenario", rcases, workdir, timeout_ms=20000, tag="rd")
    rterms, ridx = [], []
    for c, r in zip(rcases, rres):
        if r.get("panic") is not None or r.get("timeout") or r["head"].get("build") != "ok":
            run.violation("rank-deficient problem: construction / update panicked, hung or failed", {"case": c, "result": r})
            continue
        sel = RANKDEF[c["meta"]["family"]][3]
        st = r["steps"]
        for k in (0, 4):
            t = num.rankdef_term(c, st[k]["v"], st[k + 1]["v"], sel, mode=(1 if 3 in codes else 0) + (2 if 4 in codes else 0))
            if t is not None:
                rterms.append(t)
                ridx.append((c, r, k))
    rcodes = coq_eval(prop, num.HEADER, rterms, per_file_timeout=1800)
    rhist = {}
    for (c, r, k), code, t in zip(ridx, rcodes, rterms):
        rhist[code] = rhist.get(code, 0) + 1
        if code in codes and code in RD_TEXT:
            # is the decomposition nalgebra handed back a decomposition of the weighted basis matrix at all?
            bad_svd = nalgebra_defect(c, r["steps"][k + 1]["v"], r["steps"][k + 2]["v"])
            if bad_svd and skip_dependency_defect:
                # the decomposition nalgebra returned is wrong for ALL columns alike (known finding of C01): nothing about how the
                # columns relate to each other follows from this state
                rhist["dependency_defect_not_judged"] = rhist.get("dependency_defect_not_judged", 0) + 1
                continue
            run.violation("rank-deficient state #%d: %s%s" % (k, RD_TEXT[code], " (the SVD factors returned by nalgebra do not reconstruct the matrix)" if bad_svd else ""),
                          {"case": c, "step": k, "observe": r["steps"][k]["v"], "tables": r["steps"][k + 1]["v"], "svd": r["steps"][k + 2]["v"],
                           "coq_term": t, "svd_is_a_decomposition": not bad_svd},
                          key=("nalgebra-svd-not-a-decomposition" if bad_svd else None))
    return rterms, rhist


def nalgebra_defect(case, tables, svd):
    """attribution to the known finding: the cached factors do not reconstruct W Phi AND they are bit for bit what nalgebra's
    svd(true, true) returns when the harness calls it directly on W Phi (computed from the model and the supplied weights) —
    so the library handed the right matrix to the dependency and stored what came back"""
    return (not svd_reconstructs(case, tables, svd)) and bool(svd) and svd.get("same_as_direct_nalgebra") is True


def svd_reconstructs(case, tables, svd):
    """exact check of the contract svd_spec on the factors the implementation cached (hook verif_svd):
    || W Phi - U diag(s) V^T ||_F <= 1e-9 ||W Phi||_F"""
    from fractions import Fraction
    if svd is None or svd.get("u") is None or svd.get("vt") is None or tables.get("phi") is None:
        return True
    w = num.weights_of(case)
    phi = [[frac(h) for h in col] for col in tables["phi"]["cols"]]
    n = len(phi[0])
    if w is not None:
        wf = [frac(h) for h in w]
        phi = [[wf[i] * col[i] for i in range(n)] for col in phi]
    U = [[frac(h) for h in col] for col in svd["u"]["cols"]]
    S = [frac(h) for h in svd["s"]]
    Vt = [[frac(h) for h in col] for col in svd["vt"]["cols"]]     # columns of V^T: Vt[j][k] = (V^T)_{k j}
    err = Fraction(0)
    nrm = Fraction(0)
    for j, col in enumerate(phi):
        for i in range(n):
            rec = sum(U[k][i] * S[k] * Vt[j][k] for k in range(len(S)))
            err += (col[i] - rec) ** 2
            nrm += col[i] ** 2
    return err <= Fraction(1, 10 ** 18) * max(nrm, Fraction(1, 10 ** 30))
