"""histories of caller-driven operations on a problem (shared by C02 / C09 / C10):
runs the scenario through the harness, replays the recorded model protocol through
Exec/ProtoRun.v (Model/Protocol.v + Model/Replay.v) and compares what every operation shows."""
from .common import *

HEADER = ("From Coq Require Import List Bool Arith ZArith NArith.\nImport ListNotations.\n"
          "From VP Require Import Model.Protocol Model.Replay Model.LMDriver Exec.Common Exec.ProtoRun.\n")

VISIBLE = ("set", "observe", "jac")


def coq_term(case, res):
    """returns (term, meta) or (None, reason)"""
    head = res.get("head")
    if head is None or head.get("build") != "ok":
        return None, "build failed"
    steps = res["steps"]
    ops = case["ops"]
    log = steps[-1]["log"]
    par = "parallel" in case["ctor"]
    log = canon_log(log, par)
    np_ = case["model"]["nparams"]
    nout = len(case["model"]["x"])
    cops, xs = [], []
    for o, s in zip(ops, steps):
        if o[0] == "set":
            cops.append("OSet %s" % bits_list(o[1]))
            xs.append("XSet")
        elif o[0] == "observe":
            v = s["v"]
            cops.append("OObserve")
            xs.append("XObserve %s %s %s" % (bits_list(v["params"]), cbool(v["resid"] is not None), cbool(v["coef"] is not None)))
        elif o[0] == "jac":
            cops.append("OJac")
            xs.append("XJac %s" % cbool(s["v"] is not None))
    lg = log_to_coq(log, lambda i: "(%s, %s)" % (cN(i), cbool(log[i][2] if len(log[i]) > 2 else True)), lambda i, k: "(%s, true)" % cN(i))
    t = "proto_check %s %s %s %s %s %s" % (cnat(np_), cnat(nout), bits_list(case["model"]["init"]), lg, clist(cops), clist(xs))
    return t, {"log": log}


def alpha_at(case, log, idx):
    """parameters the model held when log entry idx was answered"""
    cur = case["model"]["init"]
    for e in log[: idx + 1]:
        if e[0] == "S":
            cur = e[3]
    return cur


def check_provenance(case, res, prov, log):
    """the cached quantities shown must be bit-identical to those of a fresh problem at the
    parameters the cache was computed for (model provenance); returns list of problems"""
    steps = res["steps"]
    ops = case["ops"]
    refs = {}
    for o, s in zip(ops, steps):
        if o[0] == "ref":
            refs[tuple(o[1])] = s["v"]
    probs = []
    it = iter(prov)
    nchecked = 0
    for i, (o, s) in enumerate(zip(ops, steps)):
        if o[0] == "observe":
            t = next(it)
            if t == 0:
                continue
            a = tuple(alpha_at(case, log, t - 1))
            # the parameters reported must be the ones the cache belongs to
            if tuple(s["v"]["params"]) != a:
                probs.append((i, "params() reports %s but the cached quantities were computed for %s" % (s["v"]["params"], list(a))))
                continue
            r = refs.get(a)
            if r is None or r.get("build") == "err":
                continue
            nchecked += 1
            if s["v"]["resid"] != r["resid"]:
                probs.append((i, "residuals differ from those of a fresh problem at the same parameters"))
            if s["v"]["coef"] != r["coef"]:
                probs.append((i, "coefficients differ from those of a fresh problem at the same parameters"))
        elif o[0] == "jac":
            t = next(it)
            if t == 0:
                continue
            P = case["model"]["nparams"]
            tags = [next(it) for _ in range(P)]
            a = tuple(alpha_at(case, log, tags[0] - 1)) if tags else None
            r = refs.get(a)
            if r is None or r.get("build") == "err" or r.get("jac") is None:
                continue
            nchecked += 1
            if s["v"] != r["jac"]:
                probs.append((i, "Jacobian differs from that of a fresh problem at the same parameters"))
    return probs, nchecked


def evaluate(run, prop, cases, results, what="history", classify=None):
    """common evaluation; returns (n_ok_cases, n_prov_checked)"""
    terms, idx = [], []
    for c, r in zip(cases, results):
        if r.get("panic") is not None or r.get("timeout"):
            run.violation("%s: the library panicked / hung: %s" % (what, r.get("panic") or "timeout"), {"case": c, "result": r},
                          key=c.get("known_key"))
            continue
        t, meta = coq_term(c, r)
        if t is None:
            run.violation("%s: problem construction failed unexpectedly" % what, {"case": c, "result": r})
            continue
        terms.append(t)
        idx.append((c, r, meta))
    outs = coq_eval(prop, HEADER, terms, typ="LN")
    nprov = 0
    nok = 0
    for (c, r, meta), o, t in zip(idx, outs, terms):
        code, prov = o[0], o[1:]
        if code != 0:
            what2 = ("the model's calls to the user model differ from the recorded protocol" if code == 1 else
                     "operation #%d (%s) shows something else than the model" % (code - 10, c["ops"][code - 10][0]) if code >= 10
                     else "length mismatch")
            shown = coq_show(prop, HEADER, t.replace("proto_check", "proto_show", 1)) if False else ""
            direct = classify(c, r) if classify else "x"
            run.violation("%s: %s%s" % (what, what2, "" if direct else " (the property's own predicate holds on this input)"),
                          {"case": c, "implementation": r, "coq_term": t, "code": code, "property_predicate": direct,
                           "theorem_or_correspondence": "correspondence Exec/ProtoRun.proto_check (Model/Protocol.v vs src/solvers/levmar/mod.rs)"},
                          no_failing_input=not direct)
            continue
        probs, n = check_provenance(c, r, prov, meta["log"])
        nprov += n
        if probs:
            run.violation("%s: %s (operation #%d)" % (what, probs[0][1], probs[0][0]),
                          {"case": c, "implementation": r, "problems": probs, "coq_term": t})
            continue
        nok += 1
    return nok, nprov
