"""C12 — fit statistics satisfy their defining identities; under-determined fits give Err"""
import random

from . import num
from . import statsrun
from .common import *

COMBOS = [(1, 1), (2, 1), (3, 1), (1, 2), (2, 2), (3, 2), (2, 3), (3, 3)]


def main(tier, seed, replay=None):
    run = Run("C12", tier, seed, "proof")
    rng = random.Random(seed)
    proof_obligations(run, "C12", extra_pins=("E2E",))
    workdir = os.path.join(COQ, "run", "C12")
    cases = []
    k = 0
    for (M, P) in COMBOS:
        for N in range(1, 10):
            for weights in ("none", "pos"):
                k += 1
                if tier == "quick" and weights == "pos" and k % 3:
                    continue
                cases.append(statsrun.gen_stats_case(rng, M, P, N, scalar=("f32" if k % 4 == 0 else "f64"), weights=weights,
                                                     quant=(8 if k % 6 else None), probs=[0.683], patience=30))
    # larger, well-determined problems (identities), and faults during the statistics calls
    for i in range(20 if tier == "quick" else 400):
        M, P = COMBOS[i % len(COMBOS)]
        cases.append(statsrun.gen_stats_case(rng, M, P, M + P + rng.randint(1, 8), scalar=("f32" if i % 5 == 0 else "f64"),
                                             weights=rng.choice(["none", "pos", "unit", "zeros", "zeros", "const", "neg"]), quant=(8 if i % 2 else None),
                                             ctor=("new_parallel" if i % 3 == 0 else "new"), builder_made=(i % 4 == 1 and P <= M)))
    # fits that end UNSUCCESSFULLY on a well-determined problem with a model that never fails: tolerances that cannot be met
    # (NoImprovementPossible), no patience (LostPatience): "the fit failed => Err" must hold for every kind of failure
    for i in range(16 if tier == "quick" else 200):
        M, P = COMBOS[i % len(COMBOS)]
        sc = "f32" if i % 4 == 0 else "f64"
        zero = hx(0.0, sc)
        cfg = [{"ftol": zero, "xtol": zero, "gtol": zero}, {"ftol": zero, "xtol": zero, "gtol": zero, "patience": 1000},
               {"patience": 1}, {"ftol": zero, "xtol": zero}][i % 4]
        cases.append(statsrun.gen_stats_case(rng, M, P, M + P + rng.randint(2, 8), scalar=sc, weights=rng.choice(["none", "pos"]),
                                             noise=0.1, cfg=cfg, ctor=("new_parallel" if i % 3 == 0 else "new")))
    # (almost) exact data: residuals many orders of magnitude below the data (relative 1e-12 .. 1e-6) are still residuals — reduced
    # chi^2 and the standard error are their squared norm over N - M - P and its root, not zero
    for j in range(10 if tier == "quick" else 120):
        M, P = [(2, 1), (1, 1), (3, 1), (2, 2), (1, 2)][j % 5]
        sc = "f32" if j % 4 == 3 else "f64"
        cases.append(statsrun.gen_stats_case(rng, M, P, M + P + rng.randint(2, 8), scalar=sc, weights=["none", "pos", "const"][j % 3],
                                             noise=0.0, quant=None, probs=[0.683], qbits=([30, 40, 36][j % 3] if sc == "f64" else [14, 18][j % 2]),
                                             yscale=([None, 2.0 ** 20, 2.0 ** -20][j % 3])))
        cases[-1]["meta"]["near_exact"] = True
    # EXACTLY zero residuals with non-zero coefficients (constant data, one basis function that is identically 1 at the initial rate 0:
    # the optimizer stops at once with ResidualsZero, a success): reduced chi^2 and the standard error are exactly 0, not NaN
    for j in range(8 if tier == "quick" else 32):
        N0 = [8, 16, 4, 9, 32, 5, 64, 12][j % 8]
        c = statsrun.gen_stats_case(rng, 1, 1, N0, scalar=("f32" if j % 4 == 3 else "f64"), weights=["none", "const", "unit"][j % 3],
                                    noise=0.0, quant=None, probs=[0.683])
        sc = c["scalar"]
        c["model"]["init"] = [hx(0.0, sc)]
        for o in c["build"]:
            if o[0] == "obs":
                o[2] = [[hx([2.0, -0.5, 1024.0][j % 3], sc)] * N0]
        c["meta"]["exact_zero_residuals"] = True
        cases.append(c)
    # a user threshold that truncates some singular values at the solution: the parameter count stays M + P
    for j in range(8 if tier == "quick" else 100):
        M, P = [(3, 1), (2, 1), (3, 2), (2, 2)][j % 4]
        N = M + P + [0, 1, 4, 7][j % 4] if j % 2 else M + P + rng.randint(1, 8)
        c = statsrun.gen_stats_case(rng, M, P, N, scalar="f64", weights=["none", "pos"][j % 2], quant=(8 if j % 3 else None), probs=[0.683])
        c["build"].append(["eps", hx([0.3, 0.6, 1.0, -0.5][j % 4], "f64")])
        cases.append(c)
    # the model errs WHILE THE STATISTICS ARE COMPUTED (the last calls of a successful run): a transient or persistent failure at
    # each of the final call indices — Err expected, never Ok with statistics, never a panic
    import copy
    fbases = [statsrun.gen_stats_case(rng, M, P, M + P + 3 + j, scalar="f64", weights=["none", "pos"][j % 2], quant=8, probs=[0.683])
              for j, (M, P) in enumerate([(2, 1), (2, 2), (1, 1), (3, 2)] if tier == "quick" else COMBOS)]
    for j, b in enumerate(fbases):
        b["id"] = 8000 + j
    fb_res = run_harness(build_harness("dev"), "scenario", fbases, workdir, timeout_ms=20000, tag="fbase")
    for b, r in zip(fbases, fb_res):
        if r.get("steps") is None or r["head"].get("build") != "ok" or not r["steps"][1]["v"].get("ok"):
            continue
        K = len(r["steps"][-1]["log"])
        P = b["meta"]["P"]
        for k in range(max(0, K - (P + 4)), K):
            for plan in ({"at": [k]}, {"persistent_from": k}):
                c = copy.deepcopy(b)
                c["faults"] = plan
                c["meta"]["fault_plan"] = plan
                cases.append(c)
    for i, c in enumerate(cases):
        c["id"] = i
    total_terms = 0
    ndropped = 0
    relation = {"N<M+P": 0, "N=M+P": 0, "N>M+P": 0}
    out_hist = {}
    codes_hist = {}
    term_hist = {}
    for profile, pr in (("dev", "Debug"), ("release", "Release")):
        binp = build_harness(profile)
        results = run_harness(binp, "scenario", cases, workdir, timeout_ms=20000, tag=profile)
        oterms, oidx, vterms, vidx = [], [], [], []
        for c, r in zip(cases, results):
            m = c["meta"]
            rel = "N<M+P" if m["N"] < m["M"] + m["P"] else "N=M+P" if m["N"] == m["M"] + m["P"] else "N>M+P"
            if profile == "dev":
                relation[rel] += 1
            if r.get("timeout"):
                run.violation("fit_with_statistics did not return (%s, N=%d M=%d P=%d)" % (profile, m["N"], m["M"], m["P"]), {"case": c, "profile": profile})
                continue
            if r.get("panic") is not None:
                key = "underflow-N<M+P" if "subtract with overflow" in r["panic"] and m["N"] < m["M"] + m["P"] else None
                run.violation("fit_with_statistics panicked in the %s profile with N=%d, M=%d, P=%d: %s" % (profile, m["N"], m["M"], m["P"], r["panic"]),
                              {"case": c, "profile": profile, "result": r}, key=key)
                continue
            if r["head"].get("build") != "ok":
                run.violation("problem construction failed", {"case": c, "result": r})
                continue
            imp = statsrun.outcome(r)
            tk = r["steps"][1]["v"]["termination"].split("(")[0].split(" ")[0].split("{")[0]
            term_hist[tk] = term_hist.get(tk, 0) + 1
            out_hist[(profile, "ok" if imp >= 2 else "err")] = out_hist.get((profile, "ok" if imp >= 2 else "err"), 0) + 1
            oterms.append(statsrun.model_outcome_term(c, r, pr))
            oidx.append((c, r, imp))
            if imp >= 2:
                st = r["steps"][1]["v"]
                if m["N"] <= m["M"] + m["P"]:
                    run.violation("fit_with_statistics succeeded although N <= M + P", {"case": c, "result": st})
                    continue
                # the reported weighted residuals are the final residuals of the fit
                after = r["steps"][2]["v"]
                if after["resid"] is None or len(after["resid"]) != len(st["stats"]["wres"]):
                    run.violation("weighted residuals and final residuals have different shapes", {"case": c})
                else:
                    d2 = sum((frac(a) - frac(b)) ** 2 for a, b in zip(after["resid"], st["stats"]["wres"]))
                    n2 = sum(frac(a) ** 2 for a in after["resid"]) + 1
                    tol = Fraction(1, 10 ** 18) if c["scalar"] == "f64" else Fraction(1, 10 ** 7)
                    if d2 > tol * n2:
                        run.violation("weighted residuals of the statistics differ from the final residuals of the fit", {"case": c, "stats": st["stats"]["wres"], "final": after["resid"]})
                t = num.stats_term(c, st, r["steps"][3]["v"])
                if t is not None:
                    vterms.append(t)
                    vidx.append((c, r))
                else:
                    # nothing drops out silently: when some statistic is not finite (e.g. a correlation 0/0) the exact comparison has no
                    # term for this case; the defining identities of THIS property are then evaluated directly on the reported values
                    # (exact rational arithmetic on the implementation's own weighted residuals)
                    ndropped += 1
                    sx = st["stats"]
                    if all(is_finite_hex(h) for h in sx["wres"]) and sx["dof"] > 0:
                        want = sum(frac(h) ** 2 for h in sx["wres"]) / sx["dof"]
                        tolr = Fraction(1, 10 ** 9) if c["scalar"] == "f64" else Fraction(1, 10 ** 3)
                        if not is_finite_hex(sx["chi2"]) or abs(frac(sx["chi2"]) - want) > tolr * want:
                            run.violation("statistics (%s): reduced chi^2 (%r) is not ||r_w||^2 / (N - M - P) = %r of the reported weighted residuals"
                                          % (profile, unhx(sx["chi2"]), float(want)), {"case": c, "profile": profile, "stats": sx})
                        elif not is_finite_hex(sx["rse"]) or abs(frac(sx["rse"]) ** 2 - frac(sx["chi2"])) > 4 * tolr * frac(sx["chi2"]):
                            run.violation("statistics (%s): regression standard error (%r) is not the square root of the reduced chi^2 (%r)"
                                          % (profile, unhx(sx["rse"]), unhx(sx["chi2"])), {"case": c, "profile": profile, "stats": sx})
        ocodes = coq_eval("C12", statsrun.HEADER_OUT, oterms)
        for (c, r, imp), mo, t in zip(oidx, ocodes, oterms):
            if mo == 0:
                run.violation("the model itself predicts a panic (unexpected)", {"case": c, "coq_term": t}, no_failing_input=True)
            elif mo != imp:
                # the model assumes the normal matrix is invertible; an Err for a well-determined, successfully fitted problem is
                # acceptable only when the exact normal matrix is singular / too ill-conditioned (decided below through check_stats)
                if mo >= 2 and imp == 1:
                    continue
                run.violation("fit_with_statistics outcome differs from the model (%s): implementation %s, model %s"
                              % (profile, "Err" if imp == 1 else "Ok(dof=%d)" % (imp - 2), "Err" if mo == 1 else "Ok(dof=%d)" % (mo - 2)),
                              {"case": c, "profile": profile, "implementation": r["steps"][1]["v"], "coq_term": t})
        vcodes = coq_eval("C12", num.HEADER, vterms, per_file_timeout=2400)
        total_terms += len(vterms)
        for (c, r), code, t in zip(vidx, vcodes, vterms):
            codes_hist[code] = codes_hist.get(code, 0) + 1
            if code in (20, 21, 22, 23, 31):
                run.violation("statistics (%s): %s" % (profile, num.STATS_CODES[code]), {"case": c, "profile": profile,
                              "stats": r["steps"][1]["v"]["stats"], "coq_term": t})
    run.coverage.update({
        "evaluations": 2 * len(cases), "distinct_nontrivial": len(cases),
        "rule": "every (N, M, P) with N in 1..9 and (M, P) in %s — all relations between N and M+P — unweighted and weighted, f32/f64, "
                "plus larger well-determined problems (parallel / builder-made variants), each run in BOTH build profiles (overflow "
                "checks on and off): outcome (Ok(dof) / Err / panic) compared with Model/Stats.fit_with_statistics_outcome, and for Ok: "
                "degrees of freedom, weighted residuals, reduced chi^2, regression standard error against Model/Numeric.spec_stats in "
                "exact arithmetic, weighted residuals against the final residuals of the fit" % (COMBOS,),
        "relation_histogram": relation, "termination_histogram": term_hist, "outcome_histogram": {"%s/%s" % k: v for k, v in out_hist.items()},
        "value_code_histogram": {str(k): v for k, v in codes_hist.items()}, "value_checks": total_terms, "successful_results_with_non_finite_statistics_judged_directly": ndropped, "exhaustive": True})
    run.samples = [{"meta": c["meta"], "scalar": c["scalar"], "ctor": c["ctor"]} for c in cases[:3]]
    run.assumptions = ["try_inverse succeeds whenever the exact normal matrix is invertible and well-conditioned (otherwise the case is not compared)",
                       "usize is 64 bits"]
    return run.finish()
