"""C04 — fit() reports success truthfully and returns a coherent, no-worse final state"""
import random

from . import fits
from . import translator
from .common import *


def gen_fit_case(rng, i, quant=None, family=None, eps=None, scalar=None):
    c = gen_problem(rng, quant=quant, N=None, family=family, eps=eps, scalar=scalar)
    m = c["meta"]
    lo, hi = m["range"]
    P = m["P"]
    sc = c["scalar"]
    truth = distinct_params(rng, P, lo, hi)
    kind = rng.choice(["near", "near", "far", "random", "exact_start"])
    if kind != "random":
        synth_observations(rng, c, truth, noise=rng.choice([0.0, 0.0, 0.01, 0.1]))
    if kind == "near":
        start = [t * (1 + rng.uniform(-0.05, 0.05)) for t in truth]
    elif kind == "exact_start":
        start = list(truth)
    else:
        start = distinct_params(rng, P, lo, hi)
    start = [round_to(v, sc) for v in start]
    c["model"]["init"] = [hx(v, sc) for v in start]
    cfg = fits.solver_cfg(rng, sc)
    c["ops"] = [["observe"], ["fit", cfg], ["observe"], ["jac_quiet"], ["ref_current"], ["tables"], ["svd"]]
    c["meta"]["kind"] = kind
    c["meta"]["cfg"] = cfg
    return c


def check_numbers(c, r, info, out):
    """claims checked on the implementation's own numbers (rounding slack only where two different
    summation orders meet)"""
    sc = c["scalar"]
    tol = Fraction(1, 10 ** 11) if sc == "f64" else Fraction(1, 10 ** 4)
    fit = info["fit"]
    steps = r["steps"]
    before = steps[0]["v"]
    after = info["after"]
    P = c["model"]["nparams"]
    cfg = c["meta"]["cfg"]
    patience = cfg.get("patience", 100)
    problems = []
    if fit["evaluations"] > patience * (P + 1):
        problems.append("evaluations %d exceed the budget patience*(P+1) = %d" % (fit["evaluations"], patience * (P + 1)))
    if fit["was_successful"] != fit["ok"]:
        problems.append("Ok/Err does not match was_successful()")
    obj = unhx(fit["objective"])
    if fit["ok"]:
        if after["resid"] is None or fit["lin_coef"] is None:
            problems.append("successful fit without residuals / coefficients")
        else:
            h = half_norm(after["resid"])
            fo = Fraction(obj)
            if abs(fo - h) > tol * max(h, Fraction(1, 10 ** 30)):
                problems.append("reported objective %r is not half the squared norm of the final residuals (%r)" % (obj, float(h)))
            if before["resid"] is not None:
                h0 = half_norm(before["resid"])
                if fo > h0 * (1 + tol):
                    problems.append("objective %r exceeds the objective at the initial guess %r" % (obj, float(h0)))
            if fit["nonlinear_parameters"] != after["params"]:
                problems.append("nonlinear_parameters() differ from the final problem's parameters")
            if fit["lin_coef"] != after["coef"]:
                problems.append("FitResult::linear_coefficients differ from the final problem's coefficients")
    return problems


def half_norm(hexes):
    return fits.half_norm2(hexes)


def main(tier, seed, replay=None):
    run = Run("C04", tier, seed, "proof")
    rng = random.Random(seed)
    binp = build_harness("dev")
    workdir = os.path.join(COQ, "run", "C04")
    # the success table of the linked optimizer crate, regenerated before the proofs are checked
    tab = run_harness(binp, "termination", [{"id": 0}], workdir, shards=1, tag="term")[0]["head"]
    translator.gen_termination(tab)
    proof_obligations(run, "C04", extra_pins=("E2E",))
    n = 140 if tier == "quick" else 3000
    cases = [gen_fit_case(rng, i, quant=(10 if i % 3 == 0 else None)) for i in range(n)]
    # fits over exactly rank-deficient bases with a user threshold (truncation active along the whole fit) and fits with a
    # large user threshold on a well-conditioned basis
    for i in range(24 if tier == "quick" else 400):
        fam = list(RANKDEF)[i % len(RANKDEF)]
        cases.append(gen_fit_case(rng, i, quant=8, family=fam, eps=rng.choice([1e-6, 1e-5])))
    for i in range(40 if tier == "quick" else 600):
        c = gen_fit_case(rng, i, quant=(8 if i % 2 else None), scalar=("f32" if i % 4 == 3 else "f64"))
        scale_up_for_eps(rng, c)
        cases.append(c)
    # recorded past disagreements run first (corpus): two fits over a rank-deficient basis on which the nalgebra finding shows
    cp = os.path.join(ROOT, "corpus", "c04_fits.json")
    if os.path.exists(cp):
        cases = json.load(open(cp)) + cases
    for i, c in enumerate(cases):
        c["id"] = i
    results = run_harness(binp, "scenario", cases, workdir, timeout_ms=20000)
    cases, results, nrel = with_release("scenario", cases, results, workdir, timeout_ms=20000, every=2)
    run.coverage["release_profile_cases_differing_from_dev"] = nrel
    terms, idx = [], []
    hist_term, stats = {}, {"accepted": 0, "rejected": 0, "reset": 0, "ambiguous": 0}
    for c, r in zip(cases, results):
        if r.get("panic") is not None or r.get("timeout"):
            run.violation("fit panicked / hung: %s" % (r.get("panic") or "timeout"), {"case": c, "result": r}, key=c.get("known_key"))
            continue
        if r["head"].get("build") != "ok":
            run.violation("problem construction failed", {"case": c, "result": r})
            continue
        t, info = fits.fit_term(c, r)
        if t is None:
            run.violation("the recorded optimizer protocol does not have the shape lm.rs produces: %s" % info.get("error"),
                          {"case": c, "result": r, "theorem_or_correspondence": "lm_contract (recorded script)"}, no_failing_input=True)
            continue
        probs = check_numbers(c, r, info, run)
        if probs:
            run.violation("fit: " + probs[0], {"case": c, "implementation": r, "problems": probs})
            continue
        terms.append(t)
        idx.append((c, r, info))
        k = info["fit"]["termination"].split("(")[0].split(" ")[0]
        hist_term[k] = hist_term.get(k, 0) + 1
        for kk in ("accepted", "rejected"):
            stats[kk] += info[kk]
        stats["reset"] += 1 if info["reset"] else 0
        stats["ambiguous"] += 1 if info["ambiguous"] else 0
    # the final state of every successful fit, numerically: coefficients optimal for the final parameters and
    # residuals = W(Y - Phi C) (exact arithmetic; rank-deficient bases against the minimum-norm specification)
    from . import num
    nterms, nidx = [], []
    for c, r, info in idx:
        st = r["steps"]
        after, tb = st[info["fi"] + 1]["v"], st[info["fi"] + 4]["v"]
        # failed fits too: whatever state a fit leaves behind must be coherent (coefficients optimal for the parameters in
        # effect, residuals theirs) whenever it exposes residuals at all
        if after["resid"] is None or after["coef"] is None:
            continue
        fam = c["meta"]["family"]
        if fam in RANKDEF:
            t = num.rankdef_term(c, after, tb, RANKDEF[fam][3], mode=3)
        else:
            t = num.state_term(c, after, tb, with_jac=False, mode=3)
        if t is not None:
            nterms.append(t)
            nidx.append((c, r, fam in RANKDEF))
    ncodes = coq_eval("C04", num.HEADER, nterms, per_file_timeout=2400)
    nhist = {}
    for (c, r, rd), code, t in zip(nidx, ncodes, nterms):
        nhist[code] = nhist.get(code, 0) + 1
        if code in (3, 4, 5, 8):
            from . import states
            # the open finding of C01/C02 (nalgebra's SVD not a decomposition on some exactly rank-deficient matrices) also shows in
            # the final state of fits over such bases; attributed under the same narrow rule
            fi = [k for k, o in enumerate(c["ops"]) if o[0] == "fit"][0]
            stp = r["steps"]
            key = None
            if rd and len(stp) > fi + 5 and stp[fi + 5]["op"] == "svd" and states.nalgebra_defect(c, stp[fi + 4]["v"], stp[fi + 5]["v"]):
                key = "nalgebra-svd-not-a-decomposition"
            run.violation("fit: final state — %s" % (states.RD_TEXT.get(code) if rd else num.state_code_text(code)),
                          {"case": c, "implementation": r, "coq_term": t}, key=key)
    outs = coq_eval("C04", fits.HEADER, terms, typ="LN")
    nok = 0
    for (c, r, info), o, t in zip(idx, outs, terms):
        code = o[0]
        if code == 6 and info["ambiguous"]:
            continue
        if code != 0:
            direct = check_numbers(c, r, info, run)
            run.violation("fit: %s" % fits.FIT_CODES.get(code, "pre-operation %d differs" % (code - 10)),
                          {"case": c, "implementation": r, "coq_term": t, "code": code,
                           "theorem_or_correspondence": "correspondence Exec/ProtoRun.fit_check (Model/LMDriver.v vs LevMarSolver::fit + levenberg-marquardt 0.14)"},
                          no_failing_input=not direct)
            continue
        tag, obj_final, updates, evals = o[1], o[2], o[3], o[4]
        # the final state must be bit-identical to a fresh problem at the final parameters
        ref = r["steps"][info["fi"] + 3]["v"]
        after = info["after"]
        if tag > 0 and ref.get("build") != "err":
            a_tag = hist_alpha(c, info["log"], tag - 1)
            if a_tag != after["params"]:
                run.violation("fit: the final cached state was computed for other parameters than the problem reports",
                              {"case": c, "implementation": r})
                continue
            jq = r["steps"][info["fi"] + 2]["v"]
            if ref["resid"] != after["resid"] or ref["coef"] != after["coef"] or ref["jac"] != jq:
                run.violation("fit: final residuals / coefficients / Jacobian differ from a fresh problem at the final parameters",
                              {"case": c, "implementation": r})
                continue
        nok += 1
    # fits on problems with as many or fewer samples than basis functions, started at coinciding parameters (row-rank deficient,
    # with and without a truncating threshold): the state before and after the fit shows residuals that are W(Y - Phi C) for the
    # coefficients it shows (Model/Numeric.check_own_resid: any shape, any rank), and fit() does not take a non-zero residual for zero
    from . import num as _num
    wcases = []
    for j in range(8 if tier == "quick" else 80):
        fam = ["exp2c", "exp3", "cosmix", "exp2c"][j % 4]
        M_ = len(FAMILIES[fam][0])
        c = gen_problem(rng, quant=(8 if j % 2 else None), family=fam, N=[M_, M_ - 1, M_, 2][j % 4], eps=[None, 1e-2, 1e-6, 0.5][j % 4],
                        weights=["none", "pos", "mixed"][j % 3])
        c["model"]["init"] = [hx(1.5, c["scalar"])] * c["meta"]["P"]
        c["ops"] = [["observe"], ["tables"], ["fit", {"patience": 5}], ["observe"], ["tables"]]
        c["id"] = 70000 + j
        wcases.append(c)
    wres = run_harness(binp, "scenario", wcases, os.path.join(COQ, "run", "C04"), timeout_ms=20000, tag="wide")
    wterms, widx = [], []
    for c, r in zip(wcases, wres):
        if r.get("panic") is not None or r.get("timeout") or r["head"].get("build") != "ok":
            run.violation("fit on a problem with N <= M panicked, hung or could not be built", {"case": c, "result": r})
            continue
        st = r["steps"]
        for k in (0, 3):
            t = _num.own_resid_term(c, st[k]["v"], st[k + 1]["v"])
            if t is not None:
                wterms.append(t)
                widx.append((c, r, k))
    wcodes = coq_eval("C04", _num.HEADER, wterms, per_file_timeout=1800)
    for (c, r, k), code, t in zip(widx, wcodes, wterms):
        if code != 0:
            run.violation("fit on a problem with N <= M, state %s the fit: residuals are not W(Y - Phi C) for the coefficients shown"
                          % ("before" if k == 0 else "after"),
                          {"case": c, "observe": r["steps"][k]["v"], "fit": r["steps"][2]["v"], "coq_term": t})
    run.coverage["wide_fit_states_checked"] = len(wterms)
    run.coverage.update({
        "evaluations": len(cases), "distinct_nontrivial": sum(1 for c, r, i in idx if i["trials"] > 0),
        "rule": "random fitting problems over 8 model families (hand-written and builder-made, 1-3 right-hand sides, weights incl. "
                "zeros and negatives, the four constructors, f32/f64), observations synthesised near the model or random, starts "
                "near / far / exact, optimizer settings drawn from patience 1-3/5/20/100, step bounds, tolerances, gtol incl. 0 and "
                "0.5, scale_diag; the optimizer's run is recorded through the model protocol, turned into a script and replayed "
                "through Model/LMDriver.v; non-trivial = at least one trial step",
        "termination_histogram": hist_term, "steps": stats, "traces_validated_against_impl": nok,
        "final_states_checked_numerically": len(nterms), "final_state_code_histogram": {str(k): v for k, v in nhist.items()}})
    run.samples = [{"ctor": c["ctor"], "family": c["meta"]["family"], "kind": c["meta"]["kind"], "cfg": c["meta"]["cfg"],
                    "termination": i["fit"]["termination"], "evaluations": i["fit"]["evaluations"],
                    "accepted": i["accepted"], "rejected": i["rejected"], "reset": i["reset"]} for c, r, i in idx[:3]]
    run.assumptions = ["levenberg-marquardt 0.14's numerical decisions are an oracle (script); its call pattern is checked on every recorded run",
                       "objective identities are checked on the implementation's numbers with a relative slack of 1e-11 (f64) / 1e-4 (f32)"]
    return run.finish()


def hist_alpha(case, log, idx):
    cur = case["model"]["init"]
    for e in log[: idx + 1]:
        if e[0] == "S":
            cur = e[3]
    return cur


from fractions import Fraction  # noqa
