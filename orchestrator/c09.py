"""C09 — model failures propagate as absent values and failed fits, never as stale data"""
import copy
import random

from . import hist
from .common import *


def base_scenarios(rng, tier):
    out = []
    n = 14 if tier == "quick" else 80
    for i in range(n):
        dirty = i % 5 == 3
        domain = i % 5 in (3, 4)
        c = gen_problem(rng, fail_below=(0.0 if domain else None), dirty_fail=dirty,
                        ctor=["new", "mrhs", "new_parallel", "mrhs_parallel"][i % 4])
        P = c["meta"]["P"]
        lo, hi = c["meta"]["range"]
        sc = c["scalar"]
        a1 = [hx(v, sc) for v in distinct_params(rng, P, lo, hi)]
        a2 = [hx(v, sc) for v in distinct_params(rng, P, lo, hi)]
        init = c["model"]["init"]
        ops = [["observe"], ["jac"], ["set", a1], ["observe"], ["jac"]]
        if domain:
            bad = [hx(-1.5, sc)] + a1[1:]
            ops += [["set", bad], ["observe"], ["jac"]]
        ops += [["set", a2], ["observe"], ["set", a1], ["observe"], ["jac"], ["set", init], ["observe"]]
        refs = [init, a1, a2]
        ops += [["ref", a] for a in refs]
        c["ops"] = ops
        out.append(c)
    return out


def predicate(case, res):
    """the property evaluated directly on the implementation's outputs; returns a description of the
    failure or None"""
    if res.get("panic") is not None:
        return "panic: %s" % res["panic"]
    if res.get("timeout"):
        return "did not return"
    steps = res["steps"]
    ops = case["ops"]
    log = steps[-1].get("log", [])
    # which set operations failed (S not ok, or the E after it not ok / missing)
    set_outcomes = []
    i = 2  # entries 0,1 belong to build (S,E) unless the S failed
    # walk the log: every S opens an update; it succeeded iff S ok and next entry is E ok
    updates = []
    k = 0
    while k < len(log):
        e = log[k]
        if e[0] == "S":
            ok = e[2] and k + 1 < len(log) and log[k + 1][0] == "E" and log[k + 1][1]
            updates.append(ok)
        k += 1
    # updates[0] is build's
    ui = 0
    last_ok = updates[0] if updates else False
    refs = {tuple(o[1]): s["v"] for o, s in zip(ops, steps) if o[0] == "ref"}
    for o, s in zip(ops, steps):
        if o[0] == "set":
            ui += 1
            last_ok = updates[ui] if ui < len(updates) else False
        elif o[0] == "observe":
            v = s["v"]
            if not last_ok and (v["resid"] is not None or v["coef"] is not None):
                return "residuals / coefficients are present after a failed parameter update"
            if v["resid"] is not None:
                r = refs.get(tuple(v["params"]))
                if r is not None and r.get("build") != "err" and (r["resid"] != v["resid"] or r["coef"] != v["coef"]):
                    return "values present do not belong to the parameters reported"
        elif o[0] == "jac":
            if not last_ok and s["v"] is not None:
                return "a Jacobian is present after a failed parameter update"
    return None


def fit_fault_phase(run, rng, binp, workdir, tier):
    """faults at every call index of complete fits (with and without statistics)"""
    from . import c04
    from . import fits
    from . import statsrun
    bases = []
    nb = 8 if tier == "quick" else 60
    for i in range(nb):
        if i % 2 == 0:
            c = c04.gen_fit_case(rng, i, quant=8)
            c["ctor"] = ["new", "mrhs"][i % 4 // 2]
            if c["ctor"] == "new":
                Y = [o for o in c["build"] if o[0] == "obs"][-1]
                Y[2] = Y[2][:1]
                c["meta"]["S"] = 1
            c["meta"]["cfg"]["patience"] = rng.choice([2, 3, 4]) if i % 4 else 100
            c["ops"] = [["observe"], ["fit", c["meta"]["cfg"]], ["observe"], ["jac_quiet"], ["ref_current"]]
        else:
            c = statsrun.gen_stats_case(rng, 2, 1 + i % 2, 8, quant=8, patience=(3 if i % 4 == 1 else None), probs=[])
            c["ops"] = [["observe"], ["fit_stats", c["meta"]["cfg"], []], ["observe"], ["jac_quiet"], ["ref_current"]]
        bases.append(c)
    for i, b in enumerate(bases):
        b["id"] = i
    bres = run_harness(binp, "scenario", bases, workdir, timeout_ms=20000, tag="fbase")
    cases = []
    for b, r in zip(bases, bres):
        if r.get("steps") is None or r["head"].get("build") != "ok":
            continue
        K = len(r["steps"][-1]["log"])
        cases.append(b)
        for k in range(K):
            for plan in ({"at": [k]}, {"persistent_from": k}):
                c = copy.deepcopy(b)
                c["faults"] = plan
                cases.append(c)
    for i, c in enumerate(cases):
        c["id"] = i
    results = run_harness(binp, "scenario", cases, workdir, timeout_ms=20000, tag="ffault")
    terms, idx = [], []
    outcomes = {}
    for c, r in zip(cases, results):
        if r.get("panic") is not None or r.get("timeout"):
            run.violation("fit under fault injection panicked / hung: %s" % (r.get("panic") or "timeout"), {"case": c, "result": r})
            continue
        if r["head"].get("build") != "ok":
            continue
        st = r["steps"]
        fit, after = st[1]["v"], st[2]["v"]
        log = st[-1]["log"]
        # direct predicate: a failure met by the optimizer (absent residuals at a trial, absent Jacobian) => Err(User);
        # whatever is present afterwards belongs to the reported parameters (checked against a fresh problem)
        flog = log[fit["log_start"]:]
        ok_all = all((e[2] if e[0] in ("S", "D") else e[1]) for e in flog)
        outcomes[(fit["ok"], fit["termination"].split("(")[0].split(" ")[0])] = outcomes.get((fit["ok"], fit["termination"].split("(")[0].split(" ")[0]), 0) + 1
        ref = st[4]["v"]
        if after["resid"] is not None and ref.get("build") != "err" and ref.get("resid") is not None:
            if after["resid"] != ref["resid"] or after["coef"] != ref["coef"]:
                run.violation("after a fit with an injected fault the residuals / coefficients present do not belong to the reported parameters",
                              {"case": c, "implementation": r})
                continue
        if fit["ok"] and after["resid"] is None and "fit_stats" not in [o[0] for o in c["ops"]]:
            # Ok with absent values is possible only when the fault hit nothing but the final re-application
            pass
        t, info = fits.fit_term(c, r)
        if t is None:
            run.violation("recorded optimizer protocol under faults does not have the shape lm.rs produces: %s" % info.get("error"),
                          {"case": c, "result": r, "theorem_or_correspondence": "lm_contract (recorded script)"}, no_failing_input=True)
            continue
        terms.append(t)
        idx.append((c, r, info))
    outs = coq_eval("C09", fits.HEADER, terms, typ="LN")
    nok = 0
    for (c, r, info), o, t in zip(idx, outs, terms):
        code = o[0]
        if code == 6 and info["ambiguous"]:
            continue
        st = r["steps"][1]["v"]
        is_stats = c["ops"][1][0] == "fit_stats"
        if code == 3 and is_stats:
            # fit_with_statistics turns a successful fit into Err when the statistics fail: compare the fit part only
            continue
        if code != 0:
            run.violation("fit under fault injection: %s" % fits.FIT_CODES.get(code, "code %d" % code),
                          {"case": c, "implementation": r, "coq_term": t, "code": code,
                           "theorem_or_correspondence": "correspondence Exec/ProtoRun.fit_check under faults"}, no_failing_input=True)
            continue
        nok += 1
    return len(cases), nok, {"%s/%s" % k: v for k, v in outcomes.items()}


def main(tier, seed, replay=None):
    run = Run("C09", tier, seed, "proof")
    rng = random.Random(seed)
    proof_obligations(run, "C09")
    binp = build_harness("dev")
    workdir = os.path.join(COQ, "run", "C09")
    bases = base_scenarios(rng, tier)
    for i, b in enumerate(bases):
        b["id"] = i
    base_res = run_harness(binp, "scenario", bases, workdir, timeout_ms=10000, tag="base")
    cases = []
    positions = 0
    for b, r in zip(bases, base_res):
        if r.get("panic") is not None or r.get("timeout") or r["head"].get("build") != "ok":
            run.violation("fault-free base scenario failed", {"case": b, "result": r})
            continue
        log = r["steps"][-1]["log"]
        par = "parallel" in b["ctor"]
        cases.append(b)
        if not par:
            K = len(log)
            for k in range(K):
                for plan in ({"at": [k]}, {"persistent_from": k}):
                    c = copy.deepcopy(b)
                    c["faults"] = plan
                    cases.append(c)
                    positions += 1
        else:
            nse = sum(1 for e in log if e[0] != "D")
            for k in range(nse):
                for plan in ({"at_se": [k]}, {"persistent_from_se": k}):
                    c = copy.deepcopy(b)
                    c["faults"] = plan
                    cases.append(c)
                    positions += 1
            rounds = sum(1 for o in b["ops"] if o[0] == "jac")
            for rd in range(rounds):
                for k in range(b["meta"]["P"]):
                    c = copy.deepcopy(b)
                    c["faults"] = {"deriv": [[k, rd]]}
                    cases.append(c)
                    positions += 1
    for i, c in enumerate(cases):
        c["id"] = i
    results = run_harness(binp, "scenario", cases, workdir, timeout_ms=10000)
    cases, results, nrel = with_release("scenario", cases, results, workdir, timeout_ms=10000)
    run.coverage["release_profile_cases_differing_from_dev"] = nrel
    # the property's own predicate on every case (independent of the model)
    for c, r in zip(cases, results):
        d = predicate(c, r)
        if d is not None:
            run.violation("fault injection: " + d, {"case": c, "implementation": r, "property_predicate": d})
    nok, nprov = hist.evaluate(run, "C09", cases, results, what="fault injection", classify=predicate)
    nfit, nfit_ok, fit_outcomes = fit_fault_phase(run, rng, binp, workdir, tier)
    # builder-made models whose derivative closures violate the shape contract (too long / too short output): the failure must reach
    # the caller as an absent Jacobian / a failed fit — an error value, never a panic — in caller-driven histories and in fits
    from . import statsrun
    scases = []
    for j in range(12 if tier == "quick" else 120):
        M, P = [(2, 1), (3, 1), (2, 2), (3, 2)][j % 4]
        c = statsrun.gen_stats_case(rng, M, P, M + P + 3 + j % 3, scalar=("f32" if j % 5 == 4 else "f64"), weights=["none", "pos"][j % 2],
                                    quant=8, probs=[], builder_made=True, ctor=("new_parallel" if j % 3 == 2 else "new"))
        c["model"]["deriv_len_delta"] = [1, 3, -1, 7][j % 4]
        if j % 2:
            c["ops"] = [["observe"], ["jac"], ["fit", {}], ["observe"], ["jac"]]
        else:
            c["ops"] = [["observe"], ["jac"], ["fit_stats", {}, []], ["observe"], ["jac"]]
        c["id"] = 9000 + j
        scases.append(c)
    sres = run_harness(binp, "scenario", scases, workdir, timeout_ms=20000, tag="shape")
    nshape = 0
    for c, r in zip(scases, sres):
        nshape += 1
        if r.get("panic") is not None or r.get("timeout"):
            run.violation("a derivative of wrong output length (builder-made model, %+d elements) made the library panic / hang: %s"
                          % (c["model"]["deriv_len_delta"], r.get("panic") or "timeout"), {"case": c, "result": r})
            continue
        st = r["steps"]
        if st[1]["v"] is not None:
            run.violation("a Jacobian is exposed although every derivative of the model violates the shape contract", {"case": c, "jacobian": st[1]["v"]})
            continue
        fitv = st[2]["v"]
        flog = st[-1]["log"][fitv["log_start"]:] if st[-1].get("log") is not None else []
        dfail = any(e[0] == "D" and not e[2] for e in flog)
        if fitv["ok"] and dfail:
            run.violation("fit returned Ok although a derivative evaluation failed during the optimizer's run", {"case": c, "fit": fitv})
    run.coverage["shape_violating_derivative_cases"] = nshape
    kinds = {}
    for c in cases:
        k = "none" if not c["faults"] else list(c["faults"].keys())[0]
        kinds[k] = kinds.get(k, 0) + 1
    run.coverage.update({
        "evaluations": len(cases), "distinct_nontrivial": positions,
        "rule": "%d base scenarios (problem construction + a caller-driven history of updates, queries and Jacobian requests, "
                "hand-written and builder-made models, also models that reject negative parameters with and without storing them "
                "first, the four constructors, f32/f64); for every call index k of the fault-free run a transient fault at k and a "
                "persistent fault from k on (parallel flavour: every set/eval index and every (derivative, round) pair) — a complete "
                "enumeration of the fault positions of each scenario; distinct_nontrivial = number of (scenario, position, kind) triples"
                "; then the same enumeration over every call index of complete fits with and without statistics (optimizer run replayed "
                "as a script through Model/LMDriver.v, outcome Ok/Err, termination, evaluations, final state)" % len(bases),
        "fault_kinds": kinds, "exhaustive": True, "traces_validated_against_impl": nok + nfit_ok,
        "fit_fault_cases": nfit, "fit_fault_outcomes": fit_outcomes,
        "provenance_checks_bit_exact": nprov})
    run.samples = [{"faults": c["faults"], "ctor": c["ctor"], "ops": [o[0] for o in c["ops"]], "family": c["meta"]["family"]} for c in cases[1:3]]
    run.assumptions = ["a fault that hits only the optimizer's final re-application of the accepted parameters is not 'encountered by the optimizer': the fit result follows C04 and the values are absent"]
    return run.finish()
