"""C09 — model failures propagate as absent values and failed fits, never as stale data"""
import copy
import random

from . import hist
from .common import *


def base_scenarios(rng, tier):
    out = []
    n = 14 if tier == "quick" else 80
    for i in range(n):
        dirty = i % 5 == 3
        domain = i % 5 in (3, 4)
        c = gen_problem(rng, fail_below=(0.0 if domain else None), dirty_fail=dirty,
                        ctor=["new", "mrhs", "new_parallel", "mrhs_parallel"][i % 4])
        P = c["meta"]["P"]
        lo, hi = c["meta"]["range"]
        sc = c["scalar"]
        a1 = [hx(v, sc) for v in distinct_params(rng, P, lo, hi)]
        a2 = [hx(v, sc) for v in distinct_params(rng, P, lo, hi)]
        init = c["model"]["init"]
        ops = [["observe"], ["jac"], ["set", a1], ["observe"], ["jac"]]
        if domain:
            bad = [hx(-1.5, sc)] + a1[1:]
            ops += [["set", bad], ["observe"], ["jac"]]
        ops += [["set", a2], ["observe"], ["set", a1], ["observe"], ["jac"], ["set", init], ["observe"]]
        refs = [init, a1, a2]
        ops += [["ref", a] for a in refs]
        c["ops"] = ops
        out.append(c)
    return out


def predicate(case, res):
    """the property evaluated directly on the implementation's outputs; returns a description of the
    failure or None"""
    if res.get("panic") is not None:
        return "panic: %s" % res["panic"]
    if res.get("timeout"):
        return "did not return"
    steps = res["steps"]
    ops = case["ops"]
    log = steps[-1].get("log", [])
    # which set operations failed (S not ok, or the E after it not ok / missing)
    set_outcomes = []
    i = 2  # entries 0,1 belong to build (S,E) unless the S failed
    # walk the log: every S opens an update; it succeeded iff S ok and next entry is E ok
    updates = []
    k = 0
    while k < len(log):
        e = log[k]
        if e[0] == "S":
            ok = e[2] and k + 1 < len(log) and log[k + 1][0] == "E" and log[k + 1][1]
            updates.append(ok)
        k += 1
    # updates[0] is build's
    ui = 0
    last_ok = updates[0] if updates else False
    refs = {tuple(o[1]): s["v"] for o, s in zip(ops, steps) if o[0] == "ref"}
    for o, s in zip(ops, steps):
        if o[0] == "set":
            ui += 1
            last_ok = updates[ui] if ui < len(updates) else False
        elif o[0] == "observe":
            v = s["v"]
            if not last_ok and (v["resid"] is not None or v["coef"] is not None):
                return "residuals / coefficients are present after a failed parameter update"
            if v["resid"] is not None:
                r = refs.get(tuple(v["params"]))
                if r is not None and r.get("build") != "err" and (r["resid"] != v["resid"] or r["coef"] != v["coef"]):
                    return "values present do not belong to the parameters reported"
        elif o[0] == "jac":
            if not last_ok and s["v"] is not None:
                return "a Jacobian is present after a failed parameter update"
    return None


def main(tier, seed, replay=None):
    run = Run("C09", tier, seed, "proof")
    rng = random.Random(seed)
    proof_obligations(run, "C09")
    binp = build_harness("dev")
    workdir = os.path.join(COQ, "run", "C09")
    bases = base_scenarios(rng, tier)
    for i, b in enumerate(bases):
        b["id"] = i
    base_res = run_harness(binp, "scenario", bases, workdir, timeout_ms=10000, tag="base")
    cases = []
    positions = 0
    for b, r in zip(bases, base_res):
        if r.get("panic") is not None or r.get("timeout") or r["head"].get("build") != "ok":
            run.violation("fault-free base scenario failed", {"case": b, "result": r})
            continue
        log = r["steps"][-1]["log"]
        par = "parallel" in b["ctor"]
        cases.append(b)
        if not par:
            K = len(log)
            for k in range(K):
                for plan in ({"at": [k]}, {"persistent_from": k}):
                    c = copy.deepcopy(b)
                    c["faults"] = plan
                    cases.append(c)
                    positions += 1
        else:
            nse = sum(1 for e in log if e[0] != "D")
            for k in range(nse):
                for plan in ({"at_se": [k]}, {"persistent_from_se": k}):
                    c = copy.deepcopy(b)
                    c["faults"] = plan
                    cases.append(c)
                    positions += 1
            rounds = sum(1 for o in b["ops"] if o[0] == "jac")
            for rd in range(rounds):
                for k in range(b["meta"]["P"]):
                    c = copy.deepcopy(b)
                    c["faults"] = {"deriv": [[k, rd]]}
                    cases.append(c)
                    positions += 1
    for i, c in enumerate(cases):
        c["id"] = i
    results = run_harness(binp, "scenario", cases, workdir, timeout_ms=10000)
    # the property's own predicate on every case (independent of the model)
    for c, r in zip(cases, results):
        d = predicate(c, r)
        if d is not None:
            run.violation("fault injection: " + d, {"case": c, "implementation": r, "property_predicate": d})
    nok, nprov = hist.evaluate(run, "C09", cases, results, what="fault injection", classify=predicate)
    kinds = {}
    for c in cases:
        k = "none" if not c["faults"] else list(c["faults"].keys())[0]
        kinds[k] = kinds.get(k, 0) + 1
    run.coverage.update({
        "evaluations": len(cases), "distinct_nontrivial": positions,
        "rule": "%d base scenarios (problem construction + a caller-driven history of updates, queries and Jacobian requests, "
                "hand-written and builder-made models, also models that reject negative parameters with and without storing them "
                "first, the four constructors, f32/f64); for every call index k of the fault-free run a transient fault at k and a "
                "persistent fault from k on (parallel flavour: every set/eval index and every (derivative, round) pair) — a complete "
                "enumeration of the fault positions of each scenario; distinct_nontrivial = number of (scenario, position, kind) triples"
                % len(bases),
        "fault_kinds": kinds, "exhaustive": True, "traces_validated_against_impl": nok,
        "provenance_checks_bit_exact": nprov})
    run.samples = [{"faults": c["faults"], "ctor": c["ctor"], "ops": [o[0] for o in c["ops"]], "family": c["meta"]["family"]} for c in cases[1:3]]
    run.assumptions = ["fits and statistics under faults are covered by the optimizer-protocol part of this check once Model/LMDriver.v is in place"]
    return run.finish()
