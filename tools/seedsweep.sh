#!/bin/bash
# tools/seedsweep.sh <first_seed> <last_seed> [tier] — run every check with several seeds on the unchanged tree and list alarms
# (used through `vp run --with-repo` so that experiments on /repo do not disturb it)
cd "$(dirname "$0")/.."
if [ -n "$VP_RUN_REPO" ]; then
  sed -i "s#path = \"/repo\"#path = \"$VP_RUN_REPO\"#" harness/Cargo.toml
  export VERIF_REPO="$VP_RUN_REPO"
fi
./setup.sh > sweep_setup.log 2>&1 || { echo "setup failed"; tail -20 sweep_setup.log; exit 1; }
tier=${3:-quick}
for s in $(seq $1 $2); do
  for p in C01 C02 C03 C04 C05 C06 C07 C08 C09 C10 C11 C12 C13 C14 C15 C16 C17 C18; do
    out=$(./check $p --tier $tier --seed $s 2>&1)
    rc=$?
    if [ $rc -ne 0 ]; then echo "ALARM seed=$s $p rc=$rc"; echo "$out" | grep -E "violation|VIOLATION" | head -4; else echo "ok seed=$s $p $(echo "$out" | tail -1 | grep -o '[0-9.]*s)')"; fi
  done
done
echo sweep done
