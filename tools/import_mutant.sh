#!/bin/bash
# tools/import_mutant.sh <seeded-id> <property> <worktree> <needs_parallel:true|false> "<change>" "<needs to manifest>"
set -e
cd "$(dirname "$0")/.."
d=seeded/$1; mkdir -p $d
cp $3/MUTANT/patch.diff $3/MUTANT/demo.rs $3/MUTANT/NOTE.md $d/
python3 - "$@" <<'PY'
import json,sys
sid,prop,wt,par,change,needs=sys.argv[1:7]
json.dump({"id":sid,"property":prop,"change":change,"needs_to_manifest":needs,"needs_parallel":par=="true",
           "origin":"independent sub-agent given only the property text and a scratch worktree of /repo"},open("seeded/%s/meta.json"%sid,"w"),indent=1)
PY
tools/seeded.py verify $1 | grep -E "true|false" | tr -d '\n'; echo
git -C /repo worktree remove --force $3
