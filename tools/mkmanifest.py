#!/usr/bin/env python3
"""writes MANIFEST.json from the table below (kept in one place so it stays valid)"""
import json
import os

ROOT = os.path.dirname(os.path.dirname(os.path.abspath(__file__)))
TB = ("Coq 8.16.1 kernel + vm_compute (no native_compute); no axioms (Print Assumptions of every pinned theorem: closed under the "
      "global context); hand-written Gallina model tied to the code by a correspondence run on every check (Rust harness drives the "
      "real library, orchestrator compares with the model's executable definitions); ")
CLAIMS = {
 "C18": ("proof", "theorems for every call sequence, shape and user model (C18_iff, C18_err, C18_order, C18_perm, C18_eps, C18_data, C18_init, "
         "C18_params) + exact correspondence of the real builder on a grid of shapes x constructors x call orders x construction-time faults",
         TB + "user model = arbitrary record of functions", "§6 C18"),
 "C15": ("proof", "C15_iff (build() = Ok iff the call sequence is valid, spec in Model/ModelBuilderSpec.v), C15_sound (every error names a defect "
         "that is present), C15_sticky, C15_no_panic, proved for all call sequences by an invariant over the op list; exact correspondence "
         "(verdict, error kind and payload) on every program of length <= 3 over a 22-call alphabet plus random long programs",
         TB + "closures matter only through their arity", "§6 C15"),
 "C16": ("proof", "routing by name (C16_route, C16_route_perm), dispatch table regenerated from src/basis_function/detail.rs on every run and "
         "proved canonical (C16_dispatch_table), derivative placement by model index for any supply order (C16_derivs_by_index), zero columns, "
         "evaluation order, set/get; exact correspondence with position-encoding integer closures for every arity 1..10",
         TB + "translator orchestrator/translator.py for the dispatch table", "§6 C16"),
 "C17": ("proof", "wrong output length / index / parameter count give the documented error values, state unchanged, shapes of Ok results, no panic "
         "for any call sequence on any builder-made model (C17_*), + exact correspondence incl. error payloads and post-state",
         TB + "usize::MAX represented by a large index", "§6 C17"),
 "C09": ("proof", "for an arbitrary (stateful, failing) user model: a failed application or evaluation leaves no residuals/coefficients/Jacobian "
         "(C09_absent, C09_absent_jac, C09_jac_none), whatever is present belongs to the reported parameters for every history and failure "
         "pattern (C09_coherent); complete enumeration of fault positions (transient and persistent) over base scenarios on the real library, "
         "replayed through the model; provenance of every shown value checked bit-exactly against fresh problems",
         TB + "trait contract faulty_functional as hypothesis of C09_coherent", "§6 C09"),
 "C10": ("proof", "E2E_history (Props/E2E.v: after ANY history the shown coefficients / residuals are the exact least-squares ones for the reported parameters), C10_history / C10_fresh (cache after set_params(a) is a function of data, weights, threshold and a only, for every prior history), "
         "C10_query_pure, C10_jacobian, C10_no_poison (column loops leave no uninitialised cell, all shapes); random histories with failing, "
         "repeated and extreme updates compared bit-exactly with fresh problems; all small shapes for the uninitialised matrices",
         TB + "trait contract faulty_functional", "§6 C10"),
}

NUM = ("Coq 8.16.1 kernel + vm_compute; no axioms; MathComp 1.15 (axiom-free); exact rationals = stdlib Qc with MathComp structures "
       "(coq/Base/QcField.v); the acceptance predicates of Model/Numeric.v are evaluated on the implementation's outputs with a stated "
       "rounding margin (64 u kappa2 sqrt(N M)); nalgebra's SVD / inverse are oracles with the contract svd_spec; ")
CLAIMS.update({
 "C01": ("proof", "theorems: the specification's coefficients minimise ||W(y_s - Phi c)|| for every right-hand side and are unique (C01_optimal, "
         "C01_unique), linear in the data; the implementation's truncated-SVD formula is optimal / minimum-norm for the truncated matrix for any "
         "orthonormal SVD factors and threshold (C01_svd_*), and equals the specification under full rank (C01_svd_is_lsq); correspondence: "
         "coefficients at construction and after updates compared in exact rational arithmetic with the certified least-squares solution; "
         "exactly rank-deficient bases with an active threshold against the minimum-norm specification (C01_rankdef_*); the cached SVD "
         "factors against svd_spec and the code-shaped truncated solve (C01_code_shaped_*); default / tiny / large thresholds, all four "
         "constructors, f32/f64, dev and release profiles",
         NUM + "open known finding: nalgebra's SVD is not a decomposition on some exactly rank-deficient inputs (narrowly attributed)", "§6 C01, §11.2"),
 "C02": ("proof", "residual = column stacking of W(Y - Phi C) (C02_residual, C02_layout), weights exactly once (C02_weighted_once, C02_weighted_data), "
         "one coherent state for every history (C02_one_state); correspondence: residuals vs exact spec, weighted data bit-exact, best fit vs "
         "Phi(alpha^) C^ in exact arithmetic, shapes, reported parameters; rank-deficient states, overflowing updates, problems in tiny units",
         NUM + "open known finding (nalgebra SVD) seen through the residuals", "§6 C02, §11.2"),
 "C03": ("proof", "Kaufman column = -(I-P) W D_k C, orthogonal to range(W Phi), implementation formula U(U^T V) - V equals it under full rank "
         "(C03_formula, C03_svd_kaufman, C03_orthogonal), algebraic first-order identity (C03_gradient), None iff a derivative failed, never "
         "partial; correspondence: every Jacobian column vs exact spec for shared-parameter models, 1-6 right-hand sides, all weights; "
         "failing derivative at every index", NUM + "differentiability of alpha -> C(alpha) (Golub-Pereyra) not formalised", "§6 C03"),
 "C04": ("proof", "end-to-end composition with the exact least-squares layer (Props/E2E.v: E2E_fit — the problem handed back shows coefficients optimal for, and residuals W(Y - Phi C) at, the parameters it reports, for every script and termination); for EVERY script of accepted/rejected steps and every (failing) model: fit = Ok iff termination successful (table regenerated from "
         "the linked crate each run), final problem coherent and at the parameters the objective belongs to, objective never above the initial "
         "one given the optimizer's acceptance contract, evaluation budget (C04_*); correspondence: recorded optimizer runs replayed as scripts "
         "through Model/LMDriver.v, final state bit-exact vs fresh problem, objective identities on the implementation's numbers, final state "
         "(also of failed fits) against the exact least-squares specification, all termination kinds incl. unattainable tolerances, the library's "
         "default solver",
         TB + "levenberg-marquardt 0.14's numerical decisions are an oracle whose call pattern is validated on every recorded run", "§6 C04"),
 "C06": ("proof", "weights = left multiplication by diag(w); the weighted problem is definitionally the row-scaled unweighted problem for "
         "coefficients, residuals, Jacobian (C06_coeffs/resid/jac), unit weights = none, zero weight removes a sample (C06_zero_*); "
         "correspondence: weighted problem vs row-scaled twin BIT-EXACT incl. whole fits, unit vs none bit-exact, zero weights vs garbage data, "
         "all vs exact spec", NUM, "§6 C06"),
 "C07": ("proof", "per-column structure of coefficients, residual blocks, Jacobian blocks, permutation of columns (C07_*); correspondence: S-column "
         "problems next to their S single-column problems and a permuted copy, all vs the exact spec; S = 1 bit-exact", NUM, "§6 C07"),
 "C12": ("proof", "no panic in any build profile for any N, M, P (C12_no_panic; the pinned order is refuted: C12_pinned_refuted), Ok => N > M+P and "
         "dof = N-M-P, Err in all listed cases (C12_ok, C12_err), identities of the specification (C12_identities); correspondence: complete "
         "enumeration N in 1..9 x (M,P) in dev AND release builds, outcome vs model, values vs exact arithmetic",
         NUM + "usize = 64 bit", "§6 C12"),
 "C13": ("proof", "Cov = chi^2 (H^T H)^-1 with H = W[Phi | D_k c], ordering, symmetry, non-negative diagonal, Cauchy-Schwarz (C13_*); correspondence: "
         "defining equation (H^T H) Cov = chi^2 1 evaluated in exact arithmetic on the implementation's covariance, accessors, correlation",
         NUM + "for ill-conditioned normal matrices (kappa > 1e6) the defining equation / symmetry / signs are not compared, accessors and "
         "the scale-free correlation test still are; dev and release profiles", "§6 C13"),
 "C14": ("proof", "sigma_i^2 = j_i^T Cov j_i with unweighted rows, non-negative, size N, monotone in p given a monotone quantile (C14_*); "
         "the floating-point quantile argument (p + 1.) / 2. in IEEE binary64 / widened binary32 as a Flocq model (Props/C14F.v: acceptance "
         "assertion, exact widening, once-rounded sum halved exactly, range [1/2, 1], C14F_edge_refuted: the largest double below one gives "
         "argument 1 hence an infinite band — the open known finding —, C14F_one_iff: the only such double, C14F_f32_lt_one: none in f32); "
         "correspondence: radius = t * sigma_i exactly, bit-exact cast(t * sigma_i) with the library's quantile routine evaluated at the Flocq "
         "model's argument, t cross-checked against an independent tail-based Student-t evaluation, dof 1..8 and 1000..4000, accepted and "
         "rejected probabilities incl. 1 - 2^-24, 1 - 3*2^-24, 1 - 2^-53",
         NUM + "distrs::StudentsT::ppf as the quantile (accurate to ~1e-5); Flocq 4.1.0 and the standard library's real-number axioms "
         "(ClassicalDedekindReals.sig_forall_dec, sig_not_dec, functional_extensionality_dep, Classical_Prop.classic) for Props/C14F.v only", "§6 C14, §11.4"),
})

CLAIMS.update({
 "C11": ("proof", "for every ordering of all cell writes of all column tasks the parallel Jacobian equals the sequential one (C11_schedule), writes "
         "to distinct cells commute (C11_schedule_independent), failures give None under every order (C11_failure); the parallel set_params / "
         "residuals are the same model functions; correspondence: problems built through the parallel constructors in rayon pools of "
         "1/2/4/16 (thorough: 1..16) threads with injected yields vs the sequential problem, bit for bit, incl. whole fits and into_sequential",
         TB + "rayon gives each column to exactly one task (Rust aliasing rules)", "§6 C11"),
 "C05": ("other", "PARTIAL proof + model-evaluated exploration: proved that generating parameters give zero residual and the generating "
         "coefficients, that J^T r = 0 implies stationarity of the original objective, that the optimizer never returns a worse objective and "
         "returns a coherent optimal-coefficient state; convergence of the floating-point iteration itself is NOT proved — explored on the "
         "certified families with calibrated thresholds",
         NUM + "convergence claim explored, not proved", "§6 C05"),
 "C08": ("other", "PARTIAL proof + exploration: proved protocol safety (non-finite matrices never decomposed, absent residuals end the fit, bounded "
         "updates, no reachable panic in statistics / model builder / builder-made models, no uninitialised cells); termination and panic-freedom "
         "of nalgebra's SVD/LU and the optimizer's QR on finite input are ASSUMED and explored with IEEE extremes under a watchdog in dev and "
         "release builds", TB + "external numerics assumed to terminate on finite input", "§6 C08"),
})

NA = {
 "C19": "statement about the probability distribution of fit results; no measure/probability theory is installed for Coq 8.16 here and "
        "Monte-Carlo estimation is testing, not proof (DESIGN.md §6 C19)",
}
ALL = ["C%02d" % i for i in range(1, 20)]


def main():
    checks = []
    for pid in sorted(CLAIMS):
        cat, text, note, ref = CLAIMS[pid]
        checks.append({"property_id": pid, "quick_cmd": "./check %s --tier quick" % pid,
                       "thorough_cmd": "./check %s --tier thorough" % pid,
                       "evidence_file": "/verif/evidence/%s.json" % pid,
                       "replay_cmd_template": "./check %s --replay {path}" % pid, "engine": "coq+harness",
                       "level_claimed": {"category": cat, "text": text, "design_ref": "DESIGN.md " + ref},
                       "level_note": note,
                       "technique": ("machine-checked proof in Coq (Rocq) 8.16 about a hand-written Gallina model + correspondence check "
                                     "(model evaluated with vm_compute vs the real library through a Rust harness, dev and release profiles)"
                                     if cat == "proof" else
                                     "partial machine-checked proof in Coq (Rocq) 8.16 (what the model can carry) + model-evaluated exploration "
                                     "of the real library through a Rust harness")})
    na = []
    for pid in ALL:
        if pid in CLAIMS:
            continue
        na.append({"property_id": pid, "reason": NA.get(pid, "check under construction in this session (DESIGN.md §9b build order); "
                                                          "claimed as soon as its check is committed")})
    m = {"version": 1, "setup_cmd": "./setup.sh",
         "hooks": {"guard": "cargo feature verif_hooks",
                   "enable": "harness/Cargo.toml depends on varpro (path /repo) with features [parallel, verif_hooks]",
                   "baseline_off_cmd": "cd /repo && cargo test --workspace --no-fail-fast --offline",
                   "source_commits": ["a25c4b6"], "add_only": True},
         "engines": [{"name": "coq+harness", "path": "/verif/check", "serves_properties": sorted(CLAIMS),
                      "kind_free_text": "Coq 8.16 proofs over a hand-written Gallina model (coq/) + differential correspondence check "
                                        "(harness/: Rust, drives the real library; orchestrator/: python3; the model's executable "
                                        "definitions are evaluated with vm_compute)"}],
         "checks": checks, "notes": "see DESIGN.md; ./check <id> [--tier quick|thorough]", "not_applicable": na}
    json.dump(m, open(os.path.join(ROOT, "MANIFEST.json"), "w"), indent=1)
    print("manifest:", len(checks), "checks,", len(na), "not applicable")


if __name__ == "__main__":
    main()
