#!/bin/bash
# tools/seeded_matrix.sh <id>... — every check against the given seeded changes (detection matrix); snapshot-capable like seeded_all.sh
cd "$(dirname "$0")/.."
if [ -n "$VP_RUN_REPO" ]; then
  sed -i "s#path = \"/repo\"#path = \"$VP_RUN_REPO\"#" harness/Cargo.toml
  export VERIF_REPO="$VP_RUN_REPO"
  ./setup.sh > sweep_setup.log 2>&1 || { echo "setup failed"; tail -20 sweep_setup.log; exit 1; }
fi
for id in "$@"; do
  echo "== $id"
  tools/seeded.py run $id C01 C02 C03 C04 C05 C06 C07 C08 C09 C10 C11 C12 C13 C14 C15 C16 C17 C18 2>&1 | cut -c1-200
done
echo matrix done
