#!/bin/bash
# tools/seeded_all.sh — run the target check of every seeded change (applies each patch to /repo and undoes it); lists misses
cd "$(dirname "$0")/.."
for d in seeded/*/; do
  id=$(basename $d)
  prop=$(python3 -c "import json;print(json.load(open('$d/meta.json'))['property'])")
  echo "$id: $(tools/seeded.py run $id $prop 2>&1 | cut -c1-160 | tr '\n' ' ')"
done
git -C /repo status --short | grep -v Cargo.lock | head -3
echo seeded_all done
