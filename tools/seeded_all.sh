#!/bin/bash
# tools/seeded_all.sh [ids...] — run the target check of every seeded change (applies each patch to the repository under test and undoes
# it); lists misses. Through `vp run --with-repo -- tools/seeded_all.sh` it works on a snapshot of /verif and /repo, leaving /repo free.
cd "$(dirname "$0")/.."
if [ -n "$VP_RUN_REPO" ]; then
  sed -i "s#path = \"/repo\"#path = \"$VP_RUN_REPO\"#" harness/Cargo.toml
  export VERIF_REPO="$VP_RUN_REPO"
  ./setup.sh > sweep_setup.log 2>&1 || { echo "setup failed"; tail -20 sweep_setup.log; exit 1; }
fi
ids="$@"
if [ -z "$ids" ]; then ids=$(ls seeded); fi
for id in $ids; do
  prop=$(python3 -c "import json;print(json.load(open('seeded/$id/meta.json'))['property'])")
  echo "$id: $(tools/seeded.py run $id $prop 2>&1 | cut -c1-160 | tr '\n' ' ')"
done
echo seeded_all done
