#!/usr/bin/env python3
"""tools/seeded.py — seeded breaking changes kept under /verif/seeded/<id>/ (patch.diff, demo.rs, meta.json)

  verify <id>            in a scratch worktree of /repo (under /tmp): existing suite passes with the patch, the demonstration
                         fails with it and passes without it
  run <id> [Cxx ...]     apply the patch to /repo, run the given checks (default: the property it targets), undo it, and record
                         which checks raised a violation in seeded/<id>/results.json
"""
import json
import os
import shutil
import subprocess
import sys
import time

ROOT = os.path.dirname(os.path.dirname(os.path.abspath(__file__)))
REPO = os.environ.get("VERIF_REPO", "/repo")     # a snapshot when run through `vp run --with-repo`
ENV = dict(os.environ, CARGO_NET_OFFLINE="true")


def sh(cmd, cwd=None, timeout=3600):
    r = subprocess.run(cmd, shell=True, cwd=cwd, env=ENV, capture_output=True, text=True, timeout=timeout)
    return r.returncode, r.stdout + r.stderr


def verify(sid):
    d = os.path.join(ROOT, "seeded", sid)
    meta = json.load(open(os.path.join(d, "meta.json")))
    wt = "/tmp/seeded_verify_%s" % sid
    sh("git -C %s worktree remove --force %s" % (REPO, wt))
    rc, out = sh("git -C %s worktree add -q --detach %s HEAD" % (REPO, wt))
    assert rc == 0, out
    try:
        shutil.copyfile(os.path.join(REPO, "Cargo.lock"), os.path.join(wt, "Cargo.lock"))
        feat = "--features parallel" if meta.get("needs_parallel") else ""
        if meta.get("release_only"):
            feat += " --release"       # the change only shows in builds without debug assertions / overflow checks
        shutil.copyfile(os.path.join(d, "demo.rs"), os.path.join(wt, "tests", "mutant_demo.rs"))
        rc0, out0 = sh("cargo test --offline %s --test mutant_demo" % feat, cwd=wt)
        rc, out = sh("git apply %s" % os.path.join(d, "patch.diff"), cwd=wt)
        assert rc == 0, "patch does not apply: " + out
        rc1, out1 = sh("cargo test --offline %s --test mutant_demo" % feat, cwd=wt)
        os.remove(os.path.join(wt, "tests", "mutant_demo.rs"))
        rc2, out2 = sh("cargo test --offline", cwd=wt)
        rc3, out3 = sh("cargo build --offline --features parallel", cwd=wt)
        res = {"demo_passes_without_patch": rc0 == 0, "demo_fails_with_patch": rc1 != 0, "suite_passes_with_patch": rc2 == 0,
               "builds_with_parallel": rc3 == 0,
               "suite_summary": [l for l in out2.splitlines() if l.startswith("test result")]}
        print(json.dumps(res, indent=1))
        meta["verified"] = res
        meta["verified_at_repo_commit"] = sh("git -C %s rev-parse --short HEAD" % REPO)[1].strip()
        json.dump(meta, open(os.path.join(d, "meta.json"), "w"), indent=1)
        return all([res["demo_passes_without_patch"], res["demo_fails_with_patch"], res["suite_passes_with_patch"], res["builds_with_parallel"]])
    finally:
        sh("git -C %s worktree remove --force %s" % (REPO, wt))


def run(sid, props):
    d = os.path.join(ROOT, "seeded", sid)
    meta = json.load(open(os.path.join(d, "meta.json")))
    props = props or [meta["property"]]
    rc, out = sh("git -C %s status --porcelain --untracked-files=no" % REPO)
    assert out.strip() == "", "%s has uncommitted changes" % REPO
    rc, out = sh("git -C %s apply %s" % (REPO, os.path.join(d, "patch.diff")))
    assert rc == 0, out
    results = {}
    try:
        for p in props:
            t0 = time.time()
            rc, out = sh("./check %s --tier quick" % p, cwd=ROOT, timeout=3000)
            lines = [l for l in out.splitlines() if l.startswith("VIOLATION") or l.strip().startswith("violation:")]
            results[p] = {"exit": rc, "detected": rc == 1 and any(l.startswith("VIOLATION") for l in lines),
                          "first": lines[:2], "wall_s": round(time.time() - t0, 1)}
            print(p, "DETECTED" if results[p]["detected"] else "missed (exit %d)" % rc, lines[:1])
    finally:
        sh("git -C %s checkout -- ." % REPO)
    prev = {}
    rp = os.path.join(d, "results.json")
    if os.path.exists(rp):
        prev = json.load(open(rp))
    prev.update(results)
    json.dump(prev, open(rp, "w"), indent=1)


if __name__ == "__main__":
    if sys.argv[1] == "verify":
        sys.exit(0 if verify(sys.argv[2]) else 1)
    elif sys.argv[1] == "run":
        run(sys.argv[2], sys.argv[3:])
