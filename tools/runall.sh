#!/bin/bash
# run every registered check (quick tier) on the current tree; list failures
cd "$(dirname "$0")/.."
fail=0
for p in C01 C02 C03 C04 C05 C06 C07 C08 C09 C10 C11 C12 C13 C14 C15 C16 C17 C18; do
  out=$(./check $p --tier ${1:-quick} 2>&1); rc=$?
  if [ $rc -ne 0 ]; then echo "FAIL $p"; echo "$out" | grep -E "violation|VIOLATION" | head -3; fail=1; else echo "$out" | tail -1; fi
done
exit $fail
