//! Demonstration of the open known finding C14 / band-infinite-at-largest-f64-probability-below-one on the unmodified library
//! (public API only). Drop into tests/ and run `cargo test --offline --test band_edge_demo`: the test PASSES when the defect is
//! present (it asserts the observed, wrong behaviour) and names what the property demands instead.
use nalgebra::DVector;
use varpro::prelude::*;
use varpro::solvers::levmar::{LevMarProblemBuilder, LevMarSolver};

#[test]
fn band_radius_is_infinite_at_the_largest_double_below_one() {
    let x = DVector::from_iterator(8, (0..8).map(|i| 0.5 * (i as f64 + 1.0)));
    let y = x.map(|v| 2.0 * (-v / 1.5f64).exp() + 0.7 + 0.01 * (3.0 * v).sin());
    let model = SeparableModelBuilder::<f64>::new(["tau"])
        .function(["tau"], |x: &DVector<f64>, tau: f64| x.map(|v| (-v / tau).exp()))
        .partial_deriv("tau", |x: &DVector<f64>, tau: f64| x.map(|v| (-v / tau).exp() * v / (tau * tau)))
        .invariant_function(|x: &DVector<f64>| DVector::from_element(x.len(), 1.0))
        .independent_variable(x)
        .initial_parameters(vec![1.4])
        .build()
        .unwrap();
    let problem = LevMarProblemBuilder::new(model).observations(y).build().unwrap();
    let (_fit, stats) = LevMarSolver::default().fit_with_statistics(problem).expect("fit must succeed");
    // a perfectly legal probability: finite, strictly between 0 and 1
    let p = 1.0f64 - f64::EPSILON / 2.0; // 1 - 2^-53, the largest double below one
    assert!(p > 0.0 && p < 1.0);
    let radius = stats.confidence_band_radius(p);
    // property C14 demands a finite entry t(1 - 2^-54; 5) * sigma_i (about 2.8e3 * sigma_i); the library returns +inf everywhere
    assert!(radius.iter().all(|r| r.is_infinite()), "defect no longer present: {radius}");
    // the neighbouring probability is fine
    let q = 1.0f64 - f64::EPSILON; // 1 - 2^-52
    assert!(stats.confidence_band_radius(q).iter().all(|r| r.is_finite()));
}
