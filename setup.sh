#!/bin/sh
# builds the framework from files on disk only (offline): the Coq development (full .vo build) and the harness
set -e
cd "$(dirname "$0")"
export CARGO_NET_OFFLINE=true
mkdir -p .cache evidence replays
python3 - <<'PY'
import sys, os
sys.path.insert(0, os.getcwd())
from orchestrator import vlib
ok, out = vlib.coq_make()
if not ok:
    print(out)
    sys.exit(1)
vlib.build_harness("dev")
vlib.build_harness("release")
PY
echo setup done
