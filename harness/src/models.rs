//! models driven by JSON specs: a hand-written model family, the same family through the
//! crate's SeparableModelBuilder, and a recording / fault-injecting wrapper around either.
use crate::num::*;
use nalgebra::{DMatrix, DVector, Dyn, OMatrix, OVector};
use serde_json::{json, Value};
use std::sync::{Arc, Mutex};
use varpro::model::SeparableModel;
use varpro::prelude::*;

/// one basis function of the family; indices refer to model parameter positions
#[derive(Clone, Debug)]
pub enum Basis {
    /// constant 1
    Const,
    /// x
    Lin,
    /// exp(-x / a_p)
    ExpDecay(usize),
    /// exp(-a_p * x)
    ExpRate(usize),
    /// exp(-(x-a_p)^2 / (2 a_q^2))
    Gauss(usize, usize),
    /// 1 / (1 + a_p * x)
    Rat(usize),
    /// cos(a_p * x)
    Cos(usize),
    /// exp(-a_p x) * cos(a_q x)
    ExpCos(usize, usize),
    /// a_p * x + a_q * x^2 + a_p * a_q  (polynomial, exact on small integers)
    Poly(usize, usize),
    /// (a_p + x)^2 (polynomial, exact on small integers)
    Sq(usize),
    /// 1 + x : linearly dependent on Const and Lin (rank-deficient basis matrices)
    Affine,
    /// 0 : a vanishing basis function
    Zero,
    /// exp(-a_p x) cos(a_q x) + a_r x exp(-a_s x) : a function of FOUR parameters (argument order p, q, r, s)
    Mix4(usize, usize, usize, usize),
    /// exp(-8 (x - j/2)^2) : a parameter-free bump (models with many basis functions)
    Bump(usize),
    /// sum_i exp(-a_i x) / (x + i + 1), i = 0..7 : a function of EIGHT parameters, not symmetric in any two of them
    Sum8([usize; 8]),
}

impl Basis {
    pub fn parse(v: &Value) -> Basis {
        let a = v.as_array().expect("basis spec array");
        let name = a[0].as_str().unwrap();
        let ix = |i: usize| a[i].as_u64().unwrap() as usize;
        match name {
            "const" => Basis::Const,
            "lin" => Basis::Lin,
            "expdecay" => Basis::ExpDecay(ix(1)),
            "exprate" => Basis::ExpRate(ix(1)),
            "gauss" => Basis::Gauss(ix(1), ix(2)),
            "rat" => Basis::Rat(ix(1)),
            "cos" => Basis::Cos(ix(1)),
            "expcos" => Basis::ExpCos(ix(1), ix(2)),
            "poly" => Basis::Poly(ix(1), ix(2)),
            "sq" => Basis::Sq(ix(1)),
            "affine" => Basis::Affine,
            "zero" => Basis::Zero,
            "mix4" => Basis::Mix4(ix(1), ix(2), ix(3), ix(4)),
            "bump" => Basis::Bump(ix(1)),
            "sum8" => Basis::Sum8([ix(1), ix(2), ix(3), ix(4), ix(5), ix(6), ix(7), ix(8)]),
            _ => panic!("unknown basis {name}"),
        }
    }
    pub fn deps(&self) -> Vec<usize> {
        match *self {
            Basis::Const | Basis::Lin | Basis::Affine | Basis::Zero | Basis::Bump(_) => vec![],
            Basis::Mix4(p, q, r, t) => vec![p, q, r, t],
            Basis::Sum8(ix) => ix.to_vec(),
            Basis::ExpDecay(p) | Basis::ExpRate(p) | Basis::Rat(p) | Basis::Cos(p) | Basis::Sq(p) => {
                vec![p]
            }
            Basis::Gauss(p, q) | Basis::ExpCos(p, q) | Basis::Poly(p, q) => vec![p, q],
        }
    }
    /// value at x given the parameters *this function depends on*, in deps() order
    pub fn value<T: HScalar>(&self, x: T, a: &[T]) -> T {
        let one = T::one();
        let two = one + one;
        match *self {
            Basis::Const => one,
            Basis::Lin => x,
            Basis::Affine => one + x,
            Basis::Zero => T::zero(),
            Basis::ExpDecay(_) => Float::exp(-x / a[0]),
            Basis::ExpRate(_) => Float::exp(-a[0] * x),
            Basis::Gauss(_, _) => Float::exp(-(x - a[0]) * (x - a[0]) / (two * a[1] * a[1])),
            Basis::Rat(_) => one / (one + a[0] * x),
            Basis::Cos(_) => Float::cos(a[0] * x),
            Basis::ExpCos(_, _) => Float::exp(-a[0] * x) * Float::cos(a[1] * x),
            Basis::Poly(_, _) => a[0] * x + a[1] * x * x + a[0] * a[1],
            Basis::Sq(_) => (a[0] + x) * (a[0] + x),
            Basis::Mix4(..) => Float::exp(-a[0] * x) * Float::cos(a[1] * x) + a[2] * x * Float::exp(-a[3] * x),
            Basis::Bump(j) => {
                let c = T::of_f64(0.5 * j as f64);
                Float::exp(-T::of_f64(8.0) * (x - c) * (x - c))
            }
            Basis::Sum8(_) => {
                let mut v = T::zero();
                for i in 0..8 {
                    v = v + Float::exp(-a[i] * x) / (x + T::of_f64(i as f64 + 1.0));
                }
                v
            }
        }
    }
    /// derivative with respect to the i-th own parameter (position in deps())
    pub fn dvalue<T: HScalar>(&self, i: usize, x: T, a: &[T]) -> T {
        let one = T::one();
        let two = one + one;
        match (self, i) {
            (Basis::ExpDecay(_), 0) => Float::exp(-x / a[0]) * x / (a[0] * a[0]),
            (Basis::ExpRate(_), 0) => -x * Float::exp(-a[0] * x),
            (Basis::Gauss(_, _), 0) => {
                Float::exp(-(x - a[0]) * (x - a[0]) / (two * a[1] * a[1])) * (x - a[0]) / (a[1] * a[1])
            }
            (Basis::Gauss(_, _), 1) => {
                Float::exp(-(x - a[0]) * (x - a[0]) / (two * a[1] * a[1])) * (x - a[0]) * (x - a[0])
                    / (a[1] * a[1] * a[1])
            }
            (Basis::Rat(_), 0) => -x / ((one + a[0] * x) * (one + a[0] * x)),
            (Basis::Cos(_), 0) => -x * Float::sin(a[0] * x),
            (Basis::ExpCos(_, _), 0) => -x * Float::exp(-a[0] * x) * Float::cos(a[1] * x),
            (Basis::ExpCos(_, _), 1) => -x * Float::exp(-a[0] * x) * Float::sin(a[1] * x),
            (Basis::Poly(_, _), 0) => x + a[1],
            (Basis::Poly(_, _), 1) => x * x + a[0],
            (Basis::Sq(_), 0) => two * (a[0] + x),
            (Basis::Mix4(..), 0) => -x * Float::exp(-a[0] * x) * Float::cos(a[1] * x),
            (Basis::Mix4(..), 1) => -x * Float::exp(-a[0] * x) * Float::sin(a[1] * x),
            (Basis::Mix4(..), 2) => x * Float::exp(-a[3] * x),
            (Basis::Mix4(..), 3) => -a[2] * x * x * Float::exp(-a[3] * x),
            (Basis::Sum8(_), i) if i < 8 => -x * Float::exp(-a[i] * x) / (x + T::of_f64(i as f64 + 1.0)),
            _ => panic!("no such derivative"),
        }
    }
}

use num_traits::Float;

/// quantise to a multiple of 2^-q (keeps model tables small dyadic rationals); non-finite unchanged
pub fn quant<T: HScalar>(v: T, q: Option<i32>) -> T {
    match q {
        None => v,
        Some(q) => {
            if !Float::is_finite(v) {
                return v;
            }
            let s = Float::powi(T::one() + T::one(), q);
            Float::round(v * s) / s
        }
    }
}

#[derive(Clone, Debug)]
pub struct ModelSpec<T: HScalar> {
    pub x: Vec<T>,
    pub basis: Vec<Basis>,
    pub nparams: usize,
    pub init: Vec<T>,
    pub quant: Option<i32>,
    /// hand-written only: set_params fails (after storing the parameters) when a parameter is < this
    pub fail_below: Option<T>,
    /// hand-written only: whether a failing set_params stores the parameters first
    pub dirty_fail: bool,
    pub builder_made: bool,
    /// hand-written only: multiply row i of every evaluation / derivative by rowscale[i]
    /// (the "scaled model" of property C06)
    pub rowscale: Option<Vec<T>>,
    /// hand-written only: the model computes from a copy of the parameters that only set_params fills (the trait documentation names
    /// set_params as the place to cache calculations); before the first set_params it evaluates at all-zero parameters
    pub lazy: bool,
    /// builder-made only: the derivative closures of single-parameter functions return x.len() + delta elements (a model
    /// function that violates the shape contract: the library must report an error value, never panic)
    pub deriv_len_delta: i64,
}

impl<T: HScalar> ModelSpec<T> {
    pub fn parse(v: &Value) -> Self {
        ModelSpec {
            x: v["x"].as_array().unwrap().iter().map(sc::<T>).collect(),
            basis: v["basis"].as_array().unwrap().iter().map(Basis::parse).collect(),
            nparams: v["nparams"].as_u64().unwrap() as usize,
            init: v["init"].as_array().unwrap().iter().map(sc::<T>).collect(),
            quant: v.get("quant").and_then(|q| q.as_i64()).map(|q| q as i32),
            fail_below: v.get("fail_below").filter(|f| !f.is_null()).map(sc::<T>),
            dirty_fail: v.get("dirty_fail").and_then(|b| b.as_bool()).unwrap_or(false),
            builder_made: v.get("builder_made").and_then(|b| b.as_bool()).unwrap_or(false),
            rowscale: v
                .get("rowscale")
                .filter(|f| !f.is_null())
                .map(|a| a.as_array().unwrap().iter().map(sc::<T>).collect()),
            lazy: v.get("lazy").and_then(|b| b.as_bool()).unwrap_or(false),
            deriv_len_delta: v.get("deriv_len_delta").and_then(|b| b.as_i64()).unwrap_or(0),
        }
    }
}

#[derive(Debug, Clone)]
pub struct HErr(pub String);
impl std::fmt::Display for HErr {
    fn fmt(&self, f: &mut std::fmt::Formatter<'_>) -> std::fmt::Result {
        write!(f, "{}", self.0)
    }
}
impl std::error::Error for HErr {}

/// hand-written implementation of the trait
#[derive(Clone)]
pub struct HandModel<T: HScalar> {
    spec: ModelSpec<T>,
    x: DVector<T>,
    params: DVector<T>,
    /// lazy models: what evaluation uses (filled by set_params only)
    active: Option<DVector<T>>,
}

impl<T: HScalar> HandModel<T> {
    pub fn new(spec: ModelSpec<T>) -> Self {
        let x = DVector::from_vec(spec.x.clone());
        let params = DVector::from_vec(spec.init.clone());
        HandModel { spec, x, params, active: None }
    }
    fn eval_params(&self) -> DVector<T> {
        if self.spec.lazy {
            match &self.active {
                Some(a) => a.clone(),
                None => DVector::from_element(self.spec.nparams, T::of_f64(0.0)),
            }
        } else {
            self.params.clone()
        }
    }
}

impl<T: HScalar> SeparableNonlinearModel for HandModel<T> {
    type ScalarType = T;
    type Error = HErr;
    fn parameter_count(&self) -> usize {
        self.spec.nparams
    }
    fn base_function_count(&self) -> usize {
        self.spec.basis.len()
    }
    fn output_len(&self) -> usize {
        self.x.len()
    }
    fn set_params(&mut self, parameters: OVector<T, Dyn>) -> Result<(), HErr> {
        if parameters.len() != self.spec.nparams {
            return Err(HErr("count".into()));
        }
        if let Some(lim) = self.spec.fail_below {
            if parameters.iter().any(|p| *p < lim) {
                if self.spec.dirty_fail {
                    self.params = parameters;
                }
                return Err(HErr("domain".into()));
            }
        }
        self.active = Some(parameters.clone());
        self.params = parameters;
        Ok(())
    }
    fn params(&self) -> OVector<T, Dyn> {
        self.params.clone()
    }
    fn eval(&self) -> Result<OMatrix<T, Dyn, Dyn>, HErr> {
        let n = self.x.len();
        let m = self.spec.basis.len();
        let mut out = DMatrix::<T>::zeros(n, m);
        let pars = self.eval_params();
        for (j, b) in self.spec.basis.iter().enumerate() {
            let a: Vec<T> = b.deps().iter().map(|&p| pars[p]).collect();
            for i in 0..n {
                out[(i, j)] = quant(b.value(self.x[i], &a), self.spec.quant);
                if let Some(rs) = &self.spec.rowscale {
                    out[(i, j)] = out[(i, j)] * rs[i];
                }
            }
        }
        Ok(out)
    }
    fn eval_partial_deriv(&self, k: usize) -> Result<OMatrix<T, Dyn, Dyn>, HErr> {
        if k >= self.spec.nparams {
            return Err(HErr("index".into()));
        }
        let n = self.x.len();
        let m = self.spec.basis.len();
        let mut out = DMatrix::<T>::zeros(n, m);
        let pars = self.eval_params();
        for (j, b) in self.spec.basis.iter().enumerate() {
            let deps = b.deps();
            let a: Vec<T> = deps.iter().map(|&p| pars[p]).collect();
            // a parameter may occur at several positions of one function's list: sum the partials
            for (pos, &p) in deps.iter().enumerate() {
                if p == k {
                    for i in 0..n {
                        out[(i, j)] += b.dvalue(pos, self.x[i], &a);
                    }
                }
            }
            for i in 0..n {
                out[(i, j)] = quant(out[(i, j)], self.spec.quant);
                if let Some(rs) = &self.spec.rowscale {
                    out[(i, j)] = out[(i, j)] * rs[i];
                }
            }
        }
        Ok(out)
    }
}

/// the same family through the crate's model builder (functions with distinct parameters only)
pub fn build_separable<T: HScalar>(spec: &ModelSpec<T>) -> SeparableModel<T> {
    let names: Vec<String> = (0..spec.nparams).map(|i| format!("p{i}")).collect();
    let mut b = SeparableModelBuilder::<T>::new(names.clone());
    let q = spec.quant;
    let dl = spec.deriv_len_delta;
    for basis in spec.basis.iter() {
        let deps = basis.deps();
        let bs = basis.clone();
        match deps.len() {
            0 => {
                b = b.invariant_function(move |x: &DVector<T>| x.map(|xi| quant(bs.value(xi, &[]), q)));
            }
            1 => {
                let b0 = bs.clone();
                let b1 = bs.clone();
                b = b
                    .function([names[deps[0]].clone()], move |x: &DVector<T>, a: T| {
                        x.map(|xi| quant(b0.value(xi, &[a]), q))
                    })
                    .partial_deriv(names[deps[0]].clone(), move |x: &DVector<T>, a: T| {
                        let v = x.map(|xi| quant(b1.dvalue(0, xi, &[a]), q));
                        if dl == 0 {
                            v
                        } else {
                            let n = (v.len() as i64 + dl).max(0) as usize;
                            DVector::from_fn(n, |i, _| if v.is_empty() { a } else { v[i % v.len()] })
                        }
                    });
            }
            2 => {
                assert!(deps[0] != deps[1], "builder-made functions need distinct parameters");
                let b0 = bs.clone();
                let b1 = bs.clone();
                let b2 = bs.clone();
                b = b
                    .function(
                        [names[deps[0]].clone(), names[deps[1]].clone()],
                        move |x: &DVector<T>, a: T, c: T| x.map(|xi| quant(b0.value(xi, &[a, c]), q)),
                    )
                    .partial_deriv(names[deps[0]].clone(), move |x: &DVector<T>, a: T, c: T| {
                        x.map(|xi| quant(b1.dvalue(0, xi, &[a, c]), q))
                    })
                    .partial_deriv(names[deps[1]].clone(), move |x: &DVector<T>, a: T, c: T| {
                        x.map(|xi| quant(b2.dvalue(1, xi, &[a, c]), q))
                    });
            }
            4 => {
                let nm: Vec<String> = deps.iter().map(|&d| names[d].clone()).collect();
                let b0 = bs.clone();
                b = b.function(nm.clone(), move |x: &DVector<T>, a: T, c: T, d: T, e: T| {
                    x.map(|xi| quant(b0.value(xi, &[a, c, d, e]), q))
                });
                for pos in 0..4 {
                    let bk = bs.clone();
                    b = b.partial_deriv(nm[pos].clone(), move |x: &DVector<T>, a: T, c: T, d: T, e: T| {
                        x.map(|xi| quant(bk.dvalue(pos, xi, &[a, c, d, e]), q))
                    });
                }
            }
            8 => {
                let nm: Vec<String> = deps.iter().map(|&d| names[d].clone()).collect();
                let b0 = bs.clone();
                b = b.function(
                    nm.clone(),
                    move |x: &DVector<T>, a0: T, a1: T, a2: T, a3: T, a4: T, a5: T, a6: T, a7: T| {
                        x.map(|xi| quant(b0.value(xi, &[a0, a1, a2, a3, a4, a5, a6, a7]), q))
                    },
                );
                for pos in 0..8 {
                    let bk = bs.clone();
                    b = b.partial_deriv(
                        nm[pos].clone(),
                        move |x: &DVector<T>, a0: T, a1: T, a2: T, a3: T, a4: T, a5: T, a6: T, a7: T| {
                            x.map(|xi| quant(bk.dvalue(pos, xi, &[a0, a1, a2, a3, a4, a5, a6, a7]), q))
                        },
                    );
                }
            }
            _ => unreachable!(),
        }
    }
    b.independent_variable(DVector::from_vec(spec.x.clone()))
        .initial_parameters(spec.init.clone())
        .build()
        .expect("harness model spec must be a valid builder program")
}

/// either flavour behind one type
pub enum AnyModel<T: HScalar> {
    Hand(HandModel<T>),
    Built(SeparableModel<T>),
}

impl<T: HScalar> AnyModel<T> {
    pub fn new(spec: &ModelSpec<T>) -> Self {
        if spec.builder_made {
            AnyModel::Built(build_separable(spec))
        } else {
            AnyModel::Hand(HandModel::new(spec.clone()))
        }
    }
}

impl<T: HScalar> SeparableNonlinearModel for AnyModel<T> {
    type ScalarType = T;
    type Error = HErr;
    fn parameter_count(&self) -> usize {
        match self {
            AnyModel::Hand(m) => m.parameter_count(),
            AnyModel::Built(m) => m.parameter_count(),
        }
    }
    fn base_function_count(&self) -> usize {
        match self {
            AnyModel::Hand(m) => m.base_function_count(),
            AnyModel::Built(m) => m.base_function_count(),
        }
    }
    fn output_len(&self) -> usize {
        match self {
            AnyModel::Hand(m) => m.output_len(),
            AnyModel::Built(m) => m.output_len(),
        }
    }
    fn set_params(&mut self, p: OVector<T, Dyn>) -> Result<(), HErr> {
        match self {
            AnyModel::Hand(m) => m.set_params(p),
            AnyModel::Built(m) => m.set_params(p).map_err(|e| HErr(format!("{e:?}"))),
        }
    }
    fn params(&self) -> OVector<T, Dyn> {
        match self {
            AnyModel::Hand(m) => m.params(),
            AnyModel::Built(m) => m.params(),
        }
    }
    fn eval(&self) -> Result<OMatrix<T, Dyn, Dyn>, HErr> {
        match self {
            AnyModel::Hand(m) => m.eval(),
            AnyModel::Built(m) => m.eval().map_err(|e| HErr(format!("{e:?}"))),
        }
    }
    fn eval_partial_deriv(&self, k: usize) -> Result<OMatrix<T, Dyn, Dyn>, HErr> {
        match self {
            AnyModel::Hand(m) => m.eval_partial_deriv(k),
            AnyModel::Built(m) => m.eval_partial_deriv(k).map_err(|e| HErr(format!("{e:?}"))),
        }
    }
}

// ---------------------------------------------------------------------------------------------
// recording / fault injecting wrapper

#[derive(Clone, Debug)]
pub enum Call<T> {
    /// set_params with the vector given, whether it succeeded, and params() afterwards
    S(Vec<T>, bool, Vec<T>),
    /// eval, whether it succeeded, and whether every returned value was finite
    E(bool, bool),
    /// eval_partial_deriv(k), whether it succeeded, and the jacobian round it belongs to
    D(usize, bool, usize),
}

#[derive(Clone, Debug, Default)]
pub struct FaultPlan {
    /// global call indices (0-based, counting S, E and D calls in arrival order) that fail once
    pub at: Vec<usize>,
    /// every call with index >= this fails
    pub persistent_from: Option<usize>,
    /// fail derivative k in the r-th jacobian round (a round = maximal run of D calls): schedule independent
    pub deriv: Vec<(usize, usize)>,
    /// restrict `at`/`persistent_from` to calls of these kinds ("S","E","D"); empty = all
    pub kinds: Vec<char>,
    /// indices counted among S and E calls only (independent of how many derivative calls ran)
    pub at_se: Vec<usize>,
    pub persistent_from_se: Option<usize>,
}

impl FaultPlan {
    pub fn parse(v: &Value) -> FaultPlan {
        if v.is_null() {
            return FaultPlan::default();
        }
        FaultPlan {
            at: v
                .get("at")
                .and_then(|a| a.as_array())
                .map(|a| a.iter().map(|x| x.as_u64().unwrap() as usize).collect())
                .unwrap_or_default(),
            persistent_from: v.get("persistent_from").and_then(|x| x.as_u64()).map(|x| x as usize),
            deriv: v
                .get("deriv")
                .and_then(|a| a.as_array())
                .map(|a| {
                    a.iter()
                        .map(|p| (p[0].as_u64().unwrap() as usize, p[1].as_u64().unwrap() as usize))
                        .collect()
                })
                .unwrap_or_default(),
            at_se: v
                .get("at_se")
                .and_then(|a| a.as_array())
                .map(|a| a.iter().map(|x| x.as_u64().unwrap() as usize).collect())
                .unwrap_or_default(),
            persistent_from_se: v.get("persistent_from_se").and_then(|x| x.as_u64()).map(|x| x as usize),
            kinds: v
                .get("kinds")
                .and_then(|a| a.as_str())
                .map(|s| s.chars().collect())
                .unwrap_or_default(),
        }
    }
}

pub struct Shared<T> {
    pub log: Vec<Call<T>>,
    pub counter: usize,
    pub counter_se: usize,
    pub round: usize,
    pub last_was_d: bool,
    pub seen_in_round: Vec<usize>,
    pub faults: FaultPlan,
    pub enabled: bool,
}

pub struct Wrap<T: HScalar> {
    pub inner: AnyModel<T>,
    pub shared: Arc<Mutex<Shared<T>>>,
    /// optional busy-yield inside derivative calls to vary thread schedules
    pub jitter: bool,
}

impl<T: HScalar> Wrap<T> {
    pub fn new(inner: AnyModel<T>, faults: FaultPlan) -> (Self, Arc<Mutex<Shared<T>>>) {
        let shared = Arc::new(Mutex::new(Shared {
            log: vec![],
            counter: 0,
            counter_se: 0,
            round: 0,
            last_was_d: false,
            seen_in_round: vec![],
            faults,
            enabled: true,
        }));
        (
            Wrap {
                inner,
                shared: shared.clone(),
                jitter: false,
            },
            shared,
        )
    }

    /// decide whether the call fails
    fn tick(&self, kind: char, k: usize) -> bool {
        self.tick2(kind, k).0
    }

    /// (fail, jacobian round of a D call)
    fn tick2(&self, kind: char, k: usize) -> (bool, usize) {
        let mut round_out = 0usize;
        let f = self.tick_inner(kind, k, &mut round_out);
        (f, round_out)
    }

    fn tick_inner(&self, kind: char, k: usize, round_out: &mut usize) -> bool {
        let mut s = self.shared.lock().unwrap();
        if !s.enabled {
            return false;
        }
        let idx = s.counter;
        s.counter += 1;
        if kind == 'D' {
            // a new jacobian round starts after any other call, or when an index repeats
            if !s.last_was_d || s.seen_in_round.contains(&k) {
                s.round += 1;
                s.seen_in_round.clear();
            }
            s.seen_in_round.push(k);
            s.last_was_d = true;
            *round_out = s.round - 1;
        } else {
            s.last_was_d = false;
        }
        if kind != 'D' {
            let ise = s.counter_se;
            s.counter_se += 1;
            if s.faults.at_se.contains(&ise) {
                return true;
            }
            if let Some(p) = s.faults.persistent_from_se {
                if ise >= p {
                    return true;
                }
            }
        }
        let kind_ok = s.faults.kinds.is_empty() || s.faults.kinds.contains(&kind);
        let mut fail = false;
        if kind_ok && s.faults.at.contains(&idx) {
            fail = true;
        }
        if kind_ok {
            if let Some(p) = s.faults.persistent_from {
                if idx >= p {
                    fail = true;
                }
            }
        }
        if kind == 'D' {
            let r = s.round - 1;
            if s.faults.deriv.contains(&(k, r)) {
                fail = true;
            }
        }
        fail
    }

    fn record(&self, c: Call<T>) {
        let mut s = self.shared.lock().unwrap();
        if s.enabled {
            s.log.push(c);
        }
    }
}

impl<T: HScalar> SeparableNonlinearModel for Wrap<T> {
    type ScalarType = T;
    type Error = HErr;
    fn parameter_count(&self) -> usize {
        self.inner.parameter_count()
    }
    fn base_function_count(&self) -> usize {
        self.inner.base_function_count()
    }
    fn output_len(&self) -> usize {
        self.inner.output_len()
    }
    fn set_params(&mut self, p: OVector<T, Dyn>) -> Result<(), HErr> {
        let fail = self.tick('S', 0);
        let pv: Vec<T> = p.iter().cloned().collect();
        if fail {
            let after: Vec<T> = self.inner.params().iter().cloned().collect();
            self.record(Call::S(pv, false, after));
            return Err(HErr("injected".into()));
        }
        let r = self.inner.set_params(p);
        let after: Vec<T> = self.inner.params().iter().cloned().collect();
        self.record(Call::S(pv, r.is_ok(), after));
        r
    }
    fn params(&self) -> OVector<T, Dyn> {
        self.inner.params()
    }
    fn eval(&self) -> Result<OMatrix<T, Dyn, Dyn>, HErr> {
        let fail = self.tick('E', 0);
        if fail {
            self.record(Call::E(false, true));
            return Err(HErr("injected".into()));
        }
        let r = self.inner.eval();
        let finite = r.as_ref().map(|m| m.iter().all(|v| Float::is_finite(*v))).unwrap_or(true);
        self.record(Call::E(r.is_ok(), finite));
        r
    }
    fn eval_partial_deriv(&self, k: usize) -> Result<OMatrix<T, Dyn, Dyn>, HErr> {
        let (fail, round) = self.tick2('D', k);
        if self.jitter {
            for _ in 0..(k * 7 % 5) {
                std::thread::yield_now();
            }
        }
        if fail {
            self.record(Call::D(k, false, round));
            return Err(HErr("injected".into()));
        }
        let r = self.inner.eval_partial_deriv(k);
        self.record(Call::D(k, r.is_ok(), round));
        r
    }
}

pub fn log_out<T: HScalar>(log: &[Call<T>]) -> Value {
    Value::Array(
        log.iter()
            .map(|c| match c {
                Call::S(p, ok, after) => json!(["S", slice_out(p), ok, slice_out(after)]),
                Call::E(ok, finite) => json!(["E", ok, finite]),
                Call::D(k, ok, round) => json!(["D", k, ok, round]),
            })
            .collect(),
    )
}

/// evaluate the inner model's tables at its current parameters without logging / faults
pub fn tables<T: HScalar, M: SeparableNonlinearModel<ScalarType = T>>(m: &M) -> Value {
    let phi = m.eval().ok();
    let p = m.parameter_count();
    let ds: Vec<Value> = (0..p)
        .map(|k| match m.eval_partial_deriv(k) {
            Ok(d) => mat_out(&d),
            Err(_) => Value::Null,
        })
        .collect();
    json!({"phi": opt(phi.as_ref(), mat_out), "d": ds})
}
