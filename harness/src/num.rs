//! scalar abstraction for f32 / f64 with exact (bit pattern) exchange
use nalgebra::{DMatrix, DVector, RealField};
use num_traits::{Float, FromPrimitive};
use serde_json::{json, Value};
use varpro::statistics::numeric_traits::CastF64;

pub trait HScalar:
    RealField + Float + Copy + FromPrimitive + CastF64 + Send + Sync + 'static + std::fmt::Debug
{
    const NAME: &'static str;
    fn to_hex(self) -> String;
    fn from_hex(s: &str) -> Self;
    fn of_f64(v: f64) -> Self;
    fn as_f64(self) -> f64;
    fn machine_eps() -> Self;
}

impl HScalar for f64 {
    const NAME: &'static str = "f64";
    fn to_hex(self) -> String {
        format!("d{:016x}", self.to_bits())
    }
    fn from_hex(s: &str) -> Self {
        parse_hex_f64(s)
    }
    fn of_f64(v: f64) -> Self {
        v
    }
    fn as_f64(self) -> f64 {
        self
    }
    fn machine_eps() -> Self {
        f64::EPSILON
    }
}

impl HScalar for f32 {
    const NAME: &'static str = "f32";
    fn to_hex(self) -> String {
        format!("s{:08x}", self.to_bits())
    }
    fn from_hex(s: &str) -> Self {
        if let Some(rest) = s.strip_prefix('s') {
            f32::from_bits(u32::from_str_radix(rest, 16).expect("bad f32 hex"))
        } else {
            // a double given for a single-precision case: must be exactly representable or is rounded
            parse_hex_f64(s) as f32
        }
    }
    fn of_f64(v: f64) -> Self {
        v as f32
    }
    fn as_f64(self) -> f64 {
        self as f64
    }
    fn machine_eps() -> Self {
        f32::EPSILON
    }
}

fn parse_hex_f64(s: &str) -> f64 {
    if let Some(rest) = s.strip_prefix('d') {
        f64::from_bits(u64::from_str_radix(rest, 16).expect("bad f64 hex"))
    } else if let Some(rest) = s.strip_prefix('s') {
        f32::from_bits(u32::from_str_radix(rest, 16).expect("bad f32 hex")) as f64
    } else {
        s.parse::<f64>().expect("bad float literal")
    }
}

/// a JSON number or hex string -> scalar
pub fn sc<T: HScalar>(v: &Value) -> T {
    match v {
        Value::String(s) => T::from_hex(s),
        Value::Number(n) => T::of_f64(n.as_f64().unwrap()),
        _ => panic!("bad scalar {v}"),
    }
}

pub fn vec_in<T: HScalar>(v: &Value) -> DVector<T> {
    DVector::from_vec(v.as_array().expect("array").iter().map(sc::<T>).collect())
}

/// matrix given as list of columns
pub fn mat_in<T: HScalar>(v: &Value, nrows_if_empty: usize) -> DMatrix<T> {
    let cols = v.as_array().expect("array of columns");
    let ncols = cols.len();
    let nrows = if ncols == 0 {
        nrows_if_empty
    } else {
        cols[0].as_array().unwrap().len()
    };
    let mut data = Vec::with_capacity(nrows * ncols);
    for c in cols {
        for e in c.as_array().unwrap() {
            data.push(sc::<T>(e));
        }
    }
    DMatrix::from_vec(nrows, ncols, data)
}

pub fn vec_out<T: HScalar>(v: &DVector<T>) -> Value {
    Value::Array(v.iter().map(|x| Value::String(x.to_hex())).collect())
}

pub fn slice_out<T: HScalar>(v: &[T]) -> Value {
    Value::Array(v.iter().map(|x| Value::String(x.to_hex())).collect())
}

/// matrix as list of columns + shape
pub fn mat_out<T: HScalar>(m: &DMatrix<T>) -> Value {
    let cols: Vec<Value> = (0..m.ncols())
        .map(|j| Value::Array(m.column(j).iter().map(|x| Value::String(x.to_hex())).collect()))
        .collect();
    json!({"r": m.nrows(), "c": m.ncols(), "cols": cols})
}

pub fn opt<T, F: Fn(&T) -> Value>(o: Option<&T>, f: F) -> Value {
    match o {
        Some(x) => f(x),
        None => Value::Null,
    }
}
