//! model-builder programs (C15) and calls on the resulting builder-made model (C16, C17)
use crate::num::*;
use nalgebra::DVector;
use serde_json::{json, Value};
use varpro::prelude::*;

/// the tagged closure family: out[i] = args[i mod n] + 100*tag + 10000*x[i]  (exact on small integers);
/// `len` overrides the output length (misbehaving user function)
/// `len_if = (threshold, l)`: the output has length `l` whenever the first argument is >= threshold (a user function whose output
/// length depends on the parameter values)
fn encode_if<T: HScalar>(x: &DVector<T>, args: &[T], tag: u32, len: Option<usize>, len_if: Option<(f64, usize)>) -> DVector<T> {
    let len = match (len_if, args.first()) {
        (Some((thr, l)), Some(a)) if HScalar::as_f64(*a) >= thr => Some(l),
        _ => len,
    };
    encode(x, args, tag, len)
}

fn encode<T: HScalar>(x: &DVector<T>, args: &[T], tag: u32, len: Option<usize>) -> DVector<T> {
    let n = len.unwrap_or(x.len());
    let mut v = DVector::<T>::zeros(n);
    for i in 0..n {
        let xi = if i < x.len() { x[i] } else { T::zero() };
        let a = if args.is_empty() { T::zero() } else { args[i % args.len()] };
        v[i] = a + T::of_f64(100.0 * tag as f64) + T::of_f64(10000.0) * xi;
    }
    v
}

macro_rules! cl {
    ($T:ty, $tag:ident, $len:ident, $lenif:ident; $($a:ident),+) => {
        move |x: &DVector<$T>, $($a: $T),+| encode_if::<$T>(x, &[$($a),+], $tag, $len, $lenif)
    };
}

macro_rules! with_closure {
    ($arity:expr, $tag:expr, $len:expr, $lenif:expr, $T:ty, |$f:ident| $body:expr) => {{
        let tag: u32 = $tag;
        let len: Option<usize> = $len;
        let lenif: Option<(f64, usize)> = $lenif;
        match $arity {
            1 => { let $f = cl!($T, tag, len, lenif; a0); $body }
            2 => { let $f = cl!($T, tag, len, lenif; a0, a1); $body }
            3 => { let $f = cl!($T, tag, len, lenif; a0, a1, a2); $body }
            4 => { let $f = cl!($T, tag, len, lenif; a0, a1, a2, a3); $body }
            5 => { let $f = cl!($T, tag, len, lenif; a0, a1, a2, a3, a4); $body }
            6 => { let $f = cl!($T, tag, len, lenif; a0, a1, a2, a3, a4, a5); $body }
            7 => { let $f = cl!($T, tag, len, lenif; a0, a1, a2, a3, a4, a5, a6); $body }
            8 => { let $f = cl!($T, tag, len, lenif; a0, a1, a2, a3, a4, a5, a6, a7); $body }
            9 => { let $f = cl!($T, tag, len, lenif; a0, a1, a2, a3, a4, a5, a6, a7, a8); $body }
            10 => { let $f = cl!($T, tag, len, lenif; a0, a1, a2, a3, a4, a5, a6, a7, a8, a9); $body }
            _ => panic!("arity out of range"),
        }
    }};
}

fn names_of(v: &Value) -> Vec<String> {
    v.as_array().unwrap().iter().map(|s| s.as_str().unwrap().to_string()).collect()
}

fn err_kind(dbg: &str) -> String {
    dbg.split(|c: char| !c.is_alphanumeric()).next().unwrap_or("").to_string()
}

fn run_t<T: HScalar>(case: &Value) -> Value {
    let prog = case["prog"].as_array().unwrap();
    let mut b: Option<SeparableModelBuilder<T>> = None;
    for op in prog {
        let name = op[0].as_str().unwrap();
        let cur = b.take();
        b = Some(match name {
            "new" => SeparableModelBuilder::<T>::new(names_of(&op[1])),
            "function" => {
                let names = names_of(&op[1]);
                let arity = op[2].as_u64().unwrap() as usize;
                let tag = op[3].as_u64().unwrap() as u32;
                let len = op.get(4).and_then(|l| l.as_u64()).map(|l| l as usize);
                let lenif = op.get(5).and_then(|l| l.as_array()).map(|l| (l[0].as_f64().unwrap(), l[1].as_u64().unwrap() as usize));
                with_closure!(arity, tag, len, lenif, T, |f| cur.unwrap().function(names, f))
            }
            "partial_deriv" => {
                let pname = op[1].as_str().unwrap().to_string();
                let arity = op[2].as_u64().unwrap() as usize;
                let tag = op[3].as_u64().unwrap() as u32;
                let len = op.get(4).and_then(|l| l.as_u64()).map(|l| l as usize);
                let lenif = op.get(5).and_then(|l| l.as_array()).map(|l| (l[0].as_f64().unwrap(), l[1].as_u64().unwrap() as usize));
                with_closure!(arity, tag, len, lenif, T, |f| cur.unwrap().partial_deriv(pname, f))
            }
            "invariant" => {
                let tag = op[1].as_u64().unwrap() as u32;
                let len = op.get(2).and_then(|l| l.as_u64()).map(|l| l as usize);
                cur.unwrap()
                    .invariant_function(move |x: &DVector<T>| encode::<T>(x, &[], tag, len))
            }
            "x" => cur.unwrap().independent_variable(vec_in::<T>(&op[1])),
            "init" => cur
                .unwrap()
                .initial_parameters(op[1].as_array().unwrap().iter().map(sc::<T>).collect()),
            _ => panic!("bad builder op {name}"),
        });
    }
    let built = b.expect("program must start with new").build();
    match built {
        Err(e) => {
            let dbg = format!("{e:?}");
            json!({"ok": false, "kind": err_kind(&dbg), "dbg": dbg})
        }
        Ok(mut m) => {
            let mut outs = vec![];
            let init = vec_out(&m.params());
            if let Some(calls) = case.get("calls").and_then(|c| c.as_array()) {
                for c in calls {
                    let name = c[0].as_str().unwrap();
                    let o = match name {
                        "set" => match m.set_params(vec_in::<T>(&c[1])) {
                            Ok(()) => json!({"ok": true}),
                            Err(e) => json!({"ok": false, "dbg": format!("{e:?}")}),
                        },
                        "params" => json!({"ok": true, "v": vec_out(&m.params())}),
                        "eval" => match m.eval() {
                            Ok(v) => json!({"ok": true, "v": mat_out(&v)}),
                            Err(e) => json!({"ok": false, "dbg": format!("{e:?}")}),
                        },
                        "deriv" => {
                            let k = if c[1].is_string() { usize::MAX } else { c[1].as_u64().unwrap() as usize };
                            match m.eval_partial_deriv(k) {
                                Ok(v) => json!({"ok": true, "v": mat_out(&v)}),
                                Err(e) => json!({"ok": false, "dbg": format!("{e:?}")}),
                            }
                        }
                        _ => panic!("bad call"),
                    };
                    outs.push(o);
                }
            }
            json!({"ok": true, "nparams": m.parameter_count(), "nfuncs": m.base_function_count(),
                   "nout": m.output_len(), "names": m.parameters(), "init": init, "calls": outs})
        }
    }
}

pub fn run(case: &Value) -> Value {
    match case.get("scalar").and_then(|s| s.as_str()).unwrap_or("f64") {
        "f32" => run_t::<f32>(case),
        _ => run_t::<f64>(case),
    }
}
