//! the scenario interpreter: model spec + fault plan + builder program + history of operations,
//! executed against the real library through its public API (plus the read-only verif hooks)
use crate::models::*;
use crate::num::*;
use crate::prob::*;
use levenberg_marquardt::LevenbergMarquardt;
use nalgebra::DVector;
use serde_json::{json, Value};

/// None for an empty configuration: the library's default solver is then used
pub fn solver_opt<T: HScalar>(v: &Value) -> Option<LevenbergMarquardt<T>> {
    match v.as_object() {
        Some(o) if !o.is_empty() => Some(solver_from::<T>(v)),
        _ => None,
    }
}

pub fn solver_from<T: HScalar>(v: &Value) -> LevenbergMarquardt<T> {
    let mut s = LevenbergMarquardt::<T>::new();
    if let Some(x) = v.get("ftol") {
        s = s.with_ftol(sc::<T>(x));
    }
    if let Some(x) = v.get("xtol") {
        s = s.with_xtol(sc::<T>(x));
    }
    if let Some(x) = v.get("gtol") {
        s = s.with_gtol(sc::<T>(x));
    }
    if let Some(x) = v.get("stepbound") {
        s = s.with_stepbound(sc::<T>(x));
    }
    if let Some(x) = v.get("patience").and_then(|x| x.as_u64()) {
        s = s.with_patience(x as usize);
    }
    if let Some(x) = v.get("scale_diag").and_then(|x| x.as_bool()) {
        s = s.with_scale_diag(x);
    }
    s
}

fn set_enabled<T: HScalar, P: Prob<T>>(p: &P, on: bool) {
    p.p_model().shared.lock().unwrap().enabled = on;
}

fn fit_json<T: HScalar, P: Prob<T>>(f: &FitOut<T, P>) -> Value {
    json!({
        "ok": f.ok,
        "was_successful": f.was_successful,
        "termination": f.termination,
        "evaluations": f.evaluations,
        "objective": f.objective.to_hex(),
        "nonlinear_parameters": vec_out(&f.nonlinear_parameters),
        "lin_coef": opt(f.lin_coef.as_ref(), mat_out),
        "best_fit": opt(f.best_fit.as_ref(), mat_out),
        "best_fit_is_vector": f.best_fit_is_vector,
    })
}

/// run the operations; `out` collects one record per operation
fn direct_svd_same<T: HScalar, P: Prob<T>>(
    p: &P,
    ctx: &Value,
    u: Option<&nalgebra::DMatrix<T>>,
    s: &DVector<T>,
    vt: Option<&nalgebra::DMatrix<T>>,
) -> Value {
    use varpro::model::SeparableNonlinearModel;
    let Ok(mut phi) = p.p_model().inner.eval() else {
        return Value::Null;
    };
    let w: Option<DVector<T>> = ctx["build"]
        .as_array()
        .and_then(|ops| ops.iter().rev().find(|o| o[0] == "weights"))
        .map(|o| vec_in::<T>(&o[1]));
    if let Some(w) = w {
        if w.len() != phi.nrows() {
            return Value::Null;
        }
        for j in 0..phi.ncols() {
            for i in 0..phi.nrows() {
                phi[(i, j)] = w[i] * phi[(i, j)];
            }
        }
    }
    let d = phi.svd(true, true);
    let bits = |m: &nalgebra::DMatrix<T>| m.iter().map(|v| v.to_hex()).collect::<Vec<_>>();
    let same_s = d.singular_values.iter().map(|v| v.to_hex()).collect::<Vec<_>>()
        == s.iter().map(|v| v.to_hex()).collect::<Vec<_>>();
    let same_u = match (d.u.as_ref(), u) {
        (Some(a), Some(b)) => a.shape() == b.shape() && bits(a) == bits(b),
        _ => false,
    };
    let same_v = match (d.v_t.as_ref(), vt) {
        (Some(a), Some(b)) => a.shape() == b.shape() && bits(a) == bits(b),
        _ => false,
    };
    Value::Bool(same_s && same_u && same_v)
}

pub fn run_ops<T: HScalar, P: Prob<T>>(mut p: P, ops: &[Value], out: &mut Vec<Value>, ctx: &Value) {
    let mut i = 0;
    while i < ops.len() {
        let op = &ops[i];
        i += 1;
        let name = op[0].as_str().unwrap();
        match name {
            "set" => {
                let a = vec_in::<T>(&op[1]);
                p.p_set(&a);
                out.push(json!({"op": "set"}));
            }
            "observe" => {
                // residuals, coefficients, params: no model calls involved
                out.push(json!({"op": "observe", "v": observe(&p, false, false)}));
            }
            "jac" => {
                // a jacobian query is part of the protocol (it calls the model); it opens a new round
                p.p_model().shared.lock().unwrap().last_was_d = false;
                out.push(json!({"op": "jac", "v": opt(p.p_jac().as_ref(), mat_out)}));
            }
            "jac_quiet" => {
                set_enabled(&p, false);
                let j = p.p_jac();
                set_enabled(&p, true);
                out.push(json!({"op": "jac_quiet", "v": opt(j.as_ref(), mat_out)}));
            }
            "ref" => {
                // a freshly built, fault-free problem of the same flavour at the given parameters
                let a = vec_in::<T>(&op[1]);
                out.push(json!({"op": "ref", "v": reference::<T>(ctx, &a)}));
            }
            "ref_current" => {
                let a = p.p_params();
                out.push(json!({"op": "ref_current", "v": reference::<T>(ctx, &a)}));
            }
            "tables" => {
                // the model tables Phi(alpha), D_k(alpha) for the parameters the problem REPORTS, from a fresh model of the same
                // specification that is handed these parameters through set_params (a model that computes from what set_params
                // stored would otherwise just repeat whatever the problem's own copy was or was not told)
                let spec = ModelSpec::<T>::parse(&ctx["model"]);
                // ... and always the HAND-WRITTEN flavour: it computes the basis functions directly, independently of the
                // library's model builder (whose routing of parameters to closures is itself under test)
                let mut fresh = HandModel::new(spec.clone());
                let v = if varpro::model::SeparableNonlinearModel::set_params(&mut fresh, p.p_params()).is_ok() {
                    tables(&fresh)
                } else {
                    tables(&p.p_model().inner)
                };
                out.push(json!({"op": "tables", "v": v}));
            }
            "svd" => {
                let v = match p.p_svd() {
                    None => Value::Null,
                    Some((u, s, vt)) => {
                        // nalgebra called directly on W * Phi(alpha) (computed here from the model and the weights the case
                        // supplied): are the cached factors bit for bit what the dependency returns for the true matrix?
                        let direct = direct_svd_same::<T, P>(&p, ctx, u.as_ref(), &s, vt.as_ref());
                        json!({
                        "u": opt(u.as_ref(), mat_out),
                        "s": vec_out(&s),
                        "vt": opt(vt.as_ref(), mat_out),
                        "same_as_direct_nalgebra": direct})
                    }
                };
                out.push(json!({"op": "svd", "v": v}));
            }
            "wdata" => {
                out.push(json!({"op": "wdata", "v": mat_out(&p.p_wdata()), "eps": p.p_eps().to_hex(),
                    "unit_weights": p.p_weights_unit()}));
            }
            "into_seq" => {
                let q = p.p_into_seq();
                out.push(json!({"op": "into_seq"}));
                return run_ops::<T, P::Seq>(q, &ops[i..], out, ctx);
            }
            "into_par" => {
                let q = p.p_into_par();
                out.push(json!({"op": "into_par"}));
                return run_ops::<T, P::Seq>(q, &ops[i..], out, ctx);
            }
            "fit" => {
                let solver = solver_opt::<T>(&op[1]);
                let log_before = p.p_model().shared.lock().unwrap().log.len();
                let f = p.p_fit(solver);
                let mut v = fit_json(&f);
                v["log_start"] = json!(log_before);
                out.push(json!({"op": "fit", "v": v}));
                return run_ops::<T, P::Seq>(f.problem, &ops[i..], out, ctx);
            }
            "fit_stats" => {
                let solver = solver_opt::<T>(&op[1]);
                let probs: Vec<T> = op
                    .get(2)
                    .and_then(|a| a.as_array())
                    .map(|a| a.iter().map(sc::<T>).collect())
                    .unwrap_or_default();
                let log_before = p.p_model().shared.lock().unwrap().log.len();
                match p.p_fit_stats(solver) {
                    None => {
                        out.push(json!({"op": "fit_stats", "v": Value::Null}));
                        return;
                    }
                    Some((f, st)) => {
                        let mut v = fit_json(&f);
                        v["log_start"] = json!(log_before);
                        v["log_after_fit_stats"] = json!(f.problem.p_model().shared.lock().unwrap().log.len());
                        v["stats"] = match &st {
                            None => Value::Null,
                            Some(s) => {
                                let bands: Vec<Value> = probs
                                    .iter()
                                    .map(|&pr| {
                                        let r = std::panic::catch_unwind(std::panic::AssertUnwindSafe(|| {
                                            s.stats.confidence_band_radius(pr)
                                        }));
                                        match r {
                                            Ok(b) => json!({"p": pr.to_hex(), "radius": vec_out(&b),
                                                "t": distrs::StudentsT::ppf((pr.as_f64() + 1.) / 2., s.dof as f64)}),
                                            Err(_) => json!({"p": pr.to_hex(), "panic": true}),
                                        }
                                    })
                                    .collect();
                                json!({
                                    "cov": mat_out(&s.cov), "corr": mat_out(&s.corr), "corr_deprecated": mat_out(&s.corr_deprecated), "wres": vec_out(&s.wres),
                                    "chi2": s.chi2.to_hex(), "rse": s.rse.to_hex(),
                                    "nl_var": vec_out(&s.nl_var), "lin_var": vec_out(&s.lin_var),
                                    "dof": s.dof, "usigma": vec_out(&s.usigma), "bands": bands,
                                })
                            }
                        };
                        out.push(json!({"op": "fit_stats", "v": v}));
                        return run_ops::<T, P::Seq>(f.problem, &ops[i..], out, ctx);
                    }
                }
            }
            _ => panic!("unknown op {name}"),
        }
    }
    // final: the complete protocol log
    let log = p.p_model().shared.lock().unwrap().log.clone();
    out.push(json!({"op": "end", "log": log_out(&log)}));
}

/// fresh problem (no faults, no history) of the same constructor at parameters `a`
pub fn reference<T: HScalar>(case: &Value, a: &DVector<T>) -> Value {
    let spec = ModelSpec::<T>::parse(&case["model"]);
    let (wrap, _shared) = Wrap::new(AnyModel::new(&spec), FaultPlan::default());
    let bops = parse_bops::<T>(&case["build"]);
    let ctor = case["ctor"].as_str().unwrap();
    // "ref_sequential": the freshly built problem is of the SEQUENTIAL flavour whatever the flavour of the problem under test (a
    // fresh parallel problem in the same thread pool would share whatever the scheduling does to the problem under test)
    let ctor = if case.get("ref_sequential").and_then(|b| b.as_bool()).unwrap_or(false) {
        ctor.trim_end_matches("_parallel")
    } else {
        ctor
    };
    macro_rules! go {
        ($f:ident) => {
            match $f(wrap, &bops) {
                Err(e) => json!({"build": "err", "err": e}),
                Ok(mut p) => {
                    p.p_set(a);
                    let mut o = observe(&p, true, true);
                    o["set_ok"] = json!(p.p_params() == *a);
                    o
                }
            }
        };
    }
    match ctor {
        "new" => go!(build_srhs_seq),
        "new_parallel" => go!(build_srhs_par),
        "mrhs" => go!(build_mrhs_seq),
        "mrhs_parallel" => go!(build_mrhs_par),
        _ => panic!("bad ctor"),
    }
}

pub fn run_scenario_t<T: HScalar>(case: &Value, out: &mut Vec<Value>) -> Value {
    let spec = ModelSpec::<T>::parse(&case["model"]);
    let faults = FaultPlan::parse(&case["faults"]);
    let (mut wrap, shared) = Wrap::new(AnyModel::new(&spec), faults);
    wrap.jitter = case.get("jitter").and_then(|b| b.as_bool()).unwrap_or(false);
    let bops = parse_bops::<T>(&case["build"]);
    let ops: Vec<Value> = case["ops"].as_array().cloned().unwrap_or_default();
    let ctor = case["ctor"].as_str().unwrap();
    macro_rules! go {
        ($f:ident) => {
            match $f(wrap, &bops) {
                Err(e) => json!({"build": "err", "err": e, "log": log_out(&shared.lock().unwrap().log)}),
                Ok(p) => {
                    let b = json!({"build": "ok", "log_after_build": shared.lock().unwrap().log.len()});
                    run_ops(p, &ops, out, case);
                    b
                }
            }
        };
    }
    match ctor {
        "new" => go!(build_srhs_seq),
        "new_parallel" => go!(build_srhs_par),
        "mrhs" => go!(build_mrhs_seq),
        "mrhs_parallel" => go!(build_mrhs_par),
        _ => panic!("bad ctor"),
    }
}

pub fn run_scenario(case: &Value, out: &mut Vec<Value>) -> Value {
    let threads = case.get("threads").and_then(|t| t.as_u64());
    let body = |out: &mut Vec<Value>| match case["scalar"].as_str().unwrap_or("f64") {
        "f32" => run_scenario_t::<f32>(case, out),
        _ => run_scenario_t::<f64>(case, out),
    };
    match threads {
        None => body(out),
        Some(n) => {
            let pool = rayon::ThreadPoolBuilder::new()
                .num_threads(n as usize)
                .build()
                .expect("thread pool");
            pool.install(|| body(out))
        }
    }
}

#[allow(dead_code)]
pub fn dvec<T: HScalar>(v: &[T]) -> DVector<T> {
    DVector::from_column_slice(v)
}
