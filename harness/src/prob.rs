//! uniform access to the four problem flavours (single/multiple rhs x sequential/parallel)
use crate::models::*;
use crate::num::*;
use levenberg_marquardt::{LeastSquaresProblem, LevenbergMarquardt};
use nalgebra::{DMatrix, DVector};
use serde_json::{json, Value};
use varpro::solvers::levmar::{FitResult, LevMarProblem, LevMarProblemBuilder, LevMarSolver};
use varpro::statistics::FitStatistics;

pub struct StatsOut<T: HScalar> {
    pub cov: DMatrix<T>,
    pub corr: DMatrix<T>,
    pub corr_deprecated: DMatrix<T>,
    pub wres: DVector<T>,
    pub chi2: T,
    pub rse: T,
    pub nl_var: DVector<T>,
    pub lin_var: DVector<T>,
    pub dof: usize,
    pub usigma: DVector<T>,
    pub stats: FitStatistics<Wrap<T>>,
}

pub struct FitOut<T: HScalar, P> {
    pub ok: bool,
    pub was_successful: bool,
    pub termination: String,
    pub evaluations: usize,
    pub objective: T,
    pub nonlinear_parameters: DVector<T>,
    pub lin_coef: Option<DMatrix<T>>,
    pub best_fit: Option<DMatrix<T>>,
    pub best_fit_is_vector: bool,
    pub problem: P,
}

pub trait Prob<T: HScalar>: Sized {
    const MRHS: bool;
    const PAR: bool;
    type Seq: Prob<T>;
    fn p_set(&mut self, a: &DVector<T>);
    fn p_params(&self) -> DVector<T>;
    fn p_resid(&self) -> Option<DVector<T>>;
    fn p_jac(&self) -> Option<DMatrix<T>>;
    fn p_coef(&self) -> Option<DMatrix<T>>;
    fn p_wdata(&self) -> DMatrix<T>;
    fn p_eps(&self) -> T;
    fn p_svd(&self) -> Option<(Option<DMatrix<T>>, DVector<T>, Option<DMatrix<T>>)>;
    fn p_model(&self) -> &Wrap<T>;
    fn p_weights_unit(&self) -> bool;
    fn p_into_seq(self) -> Self::Seq;
    /// LevMarProblem::into_parallel (which, on the pinned tree, yields the sequential flavour for every input flavour)
    fn p_into_par(self) -> Self::Seq;
    fn p_fit(self, solver: Option<LevenbergMarquardt<T>>) -> FitOut<T, Self::Seq>;
    /// None when the flavour has no fit_with_statistics
    fn p_fit_stats(
        self,
        solver: Option<LevenbergMarquardt<T>>,
    ) -> Option<(FitOut<T, Self::Seq>, Option<StatsOut<T>>)>;
}

fn term_string(t: &levenberg_marquardt::TerminationReason) -> String {
    format!("{t:?}")
}

fn fitout_from<T: HScalar, const MRHS: bool>(
    ok: bool,
    r: FitResult<Wrap<T>, MRHS>,
    lin: Option<DMatrix<T>>,
    bf: Option<DMatrix<T>>,
) -> FitOut<T, LevMarProblem<Wrap<T>, MRHS, false>> {
    FitOut {
        ok,
        was_successful: r.was_successful(),
        termination: term_string(&r.minimization_report.termination),
        evaluations: r.minimization_report.number_of_evaluations,
        objective: r.minimization_report.objective_function,
        nonlinear_parameters: r.nonlinear_parameters(),
        lin_coef: lin,
        best_fit: bf,
        best_fit_is_vector: !MRHS,
        problem: r.problem,
    }
}

#[allow(deprecated)]
fn stats_out<T: HScalar>(s: FitStatistics<Wrap<T>>) -> StatsOut<T> {
    StatsOut {
        cov: s.covariance_matrix().clone(),
        corr: s.calculate_correlation_matrix(),
        corr_deprecated: s.correlation_matrix(),
        wres: s.weighted_residuals(),
        chi2: s.reduced_chi2(),
        rse: s.regression_standard_error(),
        nl_var: s.nonlinear_parameters_variance(),
        lin_var: s.linear_coefficients_variance(),
        dof: s.verif_degrees_of_freedom(),
        usigma: s.verif_unscaled_confidence_sigma(),
        stats: s,
    }
}

macro_rules! impl_prob_common {
    () => {
        fn p_set(&mut self, a: &DVector<T>) {
            LeastSquaresProblem::set_params(self, a)
        }
        fn p_params(&self) -> DVector<T> {
            LeastSquaresProblem::params(self)
        }
        fn p_resid(&self) -> Option<DVector<T>> {
            LeastSquaresProblem::residuals(self)
        }
        fn p_jac(&self) -> Option<DMatrix<T>> {
            LeastSquaresProblem::jacobian(self)
        }
        fn p_eps(&self) -> T {
            self.verif_svd_epsilon()
        }
        fn p_svd(&self) -> Option<(Option<DMatrix<T>>, DVector<T>, Option<DMatrix<T>>)> {
            self.verif_svd()
        }
        fn p_model(&self) -> &Wrap<T> {
            self.model()
        }
        fn p_weights_unit(&self) -> bool {
            matches!(self.weights(), varpro::util::Weights::Unit)
        }
        fn p_into_seq(self) -> Self::Seq {
            self.into_sequential()
        }
        fn p_into_par(self) -> Self::Seq {
            // written so that it compiles whichever flavour into_parallel() returns (on the pinned tree: the sequential one)
            self.into_parallel().into_sequential()
        }
    };
}

macro_rules! impl_prob_srhs {
    ($par:expr) => {
        impl<T: HScalar> Prob<T> for LevMarProblem<Wrap<T>, false, $par> {
            const MRHS: bool = false;
            const PAR: bool = $par;
            type Seq = LevMarProblem<Wrap<T>, false, false>;
            impl_prob_common!();
            fn p_coef(&self) -> Option<DMatrix<T>> {
                self.linear_coefficients()
                    .map(|v| DMatrix::from_column_slice(v.nrows(), 1, v.into_owned().as_slice()))
            }
            fn p_wdata(&self) -> DMatrix<T> {
                let v = self.weighted_data().into_owned();
                DMatrix::from_column_slice(v.nrows(), 1, v.as_slice())
            }
            fn p_fit(self, solver: Option<LevenbergMarquardt<T>>) -> FitOut<T, Self::Seq> {
                // an empty configuration means the library's own default solver (LevMarSolver::default())
                let s = match solver {
                    Some(so) => LevMarSolver::<Wrap<T>, false>::with_solver(so),
                    None => LevMarSolver::<Wrap<T>, false>::default(),
                };
                let (ok, r) = match s.fit(self) {
                    Ok(r) => (true, r),
                    Err(r) => (false, r),
                };
                let lin = r
                    .linear_coefficients()
                    .map(|v| DMatrix::from_column_slice(v.nrows(), 1, v.into_owned().as_slice()));
                r.problem.model().shared.lock().unwrap().enabled = false;
                let bf = r
                    .best_fit()
                    .map(|v| DMatrix::from_column_slice(v.nrows(), 1, v.as_slice()));
                r.problem.model().shared.lock().unwrap().enabled = true;
                fitout_from(ok, r, lin, bf)
            }
            fn p_fit_stats(
                self,
                solver: Option<LevenbergMarquardt<T>>,
            ) -> Option<(FitOut<T, Self::Seq>, Option<StatsOut<T>>)> {
                // an empty configuration means the library's own default solver (LevMarSolver::default())
                let s = match solver {
                    Some(so) => LevMarSolver::<Wrap<T>, false>::with_solver(so),
                    None => LevMarSolver::<Wrap<T>, false>::default(),
                };
                let (ok, r, st) = match s.fit_with_statistics(self) {
                    Ok((r, st)) => (true, r, Some(st)),
                    Err(r) => (false, r, None),
                };
                let lin = r
                    .linear_coefficients()
                    .map(|v| DMatrix::from_column_slice(v.nrows(), 1, v.into_owned().as_slice()));
                r.problem.model().shared.lock().unwrap().enabled = false;
                let bf = r
                    .best_fit()
                    .map(|v| DMatrix::from_column_slice(v.nrows(), 1, v.as_slice()));
                r.problem.model().shared.lock().unwrap().enabled = true;
                Some((fitout_from(ok, r, lin, bf), st.map(stats_out)))
            }
        }
    };
}

macro_rules! impl_prob_mrhs {
    ($par:expr) => {
        impl<T: HScalar> Prob<T> for LevMarProblem<Wrap<T>, true, $par> {
            const MRHS: bool = true;
            const PAR: bool = $par;
            type Seq = LevMarProblem<Wrap<T>, true, false>;
            impl_prob_common!();
            fn p_coef(&self) -> Option<DMatrix<T>> {
                self.linear_coefficients().map(|v| v.into_owned())
            }
            fn p_wdata(&self) -> DMatrix<T> {
                self.weighted_data().into_owned()
            }
            fn p_fit(self, solver: Option<LevenbergMarquardt<T>>) -> FitOut<T, Self::Seq> {
                // an empty configuration means the library's own default solver (LevMarSolver::default())
                let s = match solver {
                    Some(so) => LevMarSolver::<Wrap<T>, true>::with_solver(so),
                    None => LevMarSolver::<Wrap<T>, true>::default(),
                };
                let (ok, r) = match s.fit(self) {
                    Ok(r) => (true, r),
                    Err(r) => (false, r),
                };
                let lin = r.linear_coefficients().map(|v| v.into_owned());
                r.problem.model().shared.lock().unwrap().enabled = false;
                let bf = r.best_fit();
                r.problem.model().shared.lock().unwrap().enabled = true;
                fitout_from(ok, r, lin, bf)
            }
            fn p_fit_stats(
                self,
                _solver: Option<LevenbergMarquardt<T>>,
            ) -> Option<(FitOut<T, Self::Seq>, Option<StatsOut<T>>)> {
                None
            }
        }
    };
}

impl_prob_srhs!(false);
impl_prob_srhs!(true);
impl_prob_mrhs!(false);
impl_prob_mrhs!(true);

// ---------------------------------------------------------------------------------------------
// builder programs

#[derive(Clone, Debug)]
pub enum BOp<T> {
    Obs(DMatrix<T>),
    Weights(DVector<T>),
    Eps(T),
}

pub fn parse_bops<T: HScalar>(v: &Value) -> Vec<BOp<T>> {
    v.as_array()
        .unwrap()
        .iter()
        .map(|o| {
            let name = o[0].as_str().unwrap();
            match name {
                "obs" => {
                    let rows = o[1].as_u64().unwrap() as usize;
                    BOp::Obs(mat_in::<T>(&o[2], rows))
                }
                "weights" => BOp::Weights(vec_in::<T>(&o[1])),
                "eps" => BOp::Eps(sc::<T>(&o[1])),
                _ => panic!("bad builder op"),
            }
        })
        .collect()
}

/// classify a builder error through its Debug rendering (the error type is not nameable from outside)
pub fn classify_builder_error(dbg: &str) -> Value {
    if dbg.starts_with("YDataMissing") {
        json!({"kind": "YDataMissing"})
    } else if dbg.starts_with("ZeroLengthVector") {
        json!({"kind": "ZeroLengthVector"})
    } else if dbg.starts_with("InvalidLengthOfWeights") {
        json!({"kind": "InvalidLengthOfWeights"})
    } else if dbg.starts_with("InvalidLengthOfData") {
        // InvalidLengthOfData { x_length: 3, y_length: 2 }
        let nums: Vec<u64> = dbg
            .split(|c: char| !c.is_ascii_digit())
            .filter(|s| !s.is_empty())
            .map(|s| s.parse().unwrap())
            .collect();
        json!({"kind": "InvalidLengthOfData", "x_length": nums[0], "y_length": nums[1]})
    } else if dbg.starts_with("InvalidParameterCount") {
        json!({"kind": "InvalidParameterCount"})
    } else {
        json!({"kind": "Other", "text": dbg})
    }
}

macro_rules! run_builder_impl {
    ($name:ident, $mrhs:expr, $par:expr, $ctor:ident, $obsconv:expr) => {
        pub fn $name<T: HScalar>(
            model: Wrap<T>,
            ops: &[BOp<T>],
        ) -> Result<LevMarProblem<Wrap<T>, $mrhs, $par>, Value> {
            let mut b = LevMarProblemBuilder::$ctor(model);
            for op in ops {
                b = match op {
                    BOp::Obs(y) => b.observations($obsconv(y)),
                    BOp::Weights(w) => b.weights(w.clone()),
                    BOp::Eps(e) => b.epsilon(*e),
                };
            }
            b.build().map_err(|e| classify_builder_error(&format!("{e:?}")))
        }
    };
}

fn as_vec<T: HScalar>(y: &DMatrix<T>) -> DVector<T> {
    // single right hand side: the observation is a vector; a multi-column spec is flattened
    DVector::from_column_slice(y.as_slice())
}
fn as_mat<T: HScalar>(y: &DMatrix<T>) -> DMatrix<T> {
    y.clone()
}

run_builder_impl!(build_srhs_seq, false, false, new, as_vec);
run_builder_impl!(build_srhs_par, false, true, new_parallel, as_vec);
run_builder_impl!(build_mrhs_seq, true, false, mrhs, as_mat);
run_builder_impl!(build_mrhs_par, true, true, mrhs_parallel, as_mat);

/// observables of a problem in JSON
pub fn observe<T: HScalar, P: Prob<T>>(p: &P, with_jac: bool, with_tables: bool) -> Value {
    let mut o = json!({
        "params": vec_out(&p.p_params()),
        "resid": opt(p.p_resid().as_ref(), vec_out),
        "coef": opt(p.p_coef().as_ref(), mat_out),
    });
    if with_jac {
        // the jacobian query calls the model: keep it out of the recorded protocol
        o["jac"] = opt(p.p_jac().as_ref(), mat_out);
    }
    if with_tables {
        o["tables"] = tables(&p.p_model().inner);
    }
    o
}
