//! verification harness: interprets JSON case files against the real varpro library.
//! usage: vharness <suite> <cases.json> <out.jsonl> [timeout_ms]
mod mbuilder;
mod models;
mod num;
mod prob;
mod scenario;

use serde_json::{json, Value};
use std::io::Write;
use std::sync::mpsc;
use std::time::Duration;

fn run_case(suite: &str, case: &Value, out: &mut Vec<Value>) -> Value {
    match suite {
        "scenario" => scenario::run_scenario(case, out),
        "mbuilder" => mbuilder::run(case),
        "termination" => termination_table(),
        "ppf" => ppf_case(case),
        _ => panic!("unknown suite {suite}"),
    }
}

/// the Student-t quantile routine the library calls (distrs), at given argument bit patterns: lets the orchestrator evaluate
/// ppf at the quantile argument the Coq model (Model/BandFloat.v) computes, without replicating the library's formula
fn ppf_case(case: &Value) -> Value {
    let dof = case["dof"].as_u64().unwrap();
    let ts: Vec<Value> = case["q"]
        .as_array()
        .unwrap()
        .iter()
        .map(|b| {
            let q = f64::from_bits(b.as_str().unwrap().parse::<u64>().unwrap());
            Value::String(distrs::StudentsT::ppf(q, dof as f64).to_bits().to_string())
        })
        .collect();
    serde_json::json!({"t": ts})
}

/// every constructor of the linked crate's TerminationReason with was_successful()
fn termination_table() -> Value {
    use levenberg_marquardt::TerminationReason as R;
    let all: Vec<(&str, R)> = vec![
        ("User", R::User("x")),
        ("Numerical", R::Numerical("x")),
        ("ResidualsZero", R::ResidualsZero),
        ("Orthogonal", R::Orthogonal),
        ("Converged_ff", R::Converged { ftol: false, xtol: false }),
        ("Converged_tf", R::Converged { ftol: true, xtol: false }),
        ("Converged_ft", R::Converged { ftol: false, xtol: true }),
        ("Converged_tt", R::Converged { ftol: true, xtol: true }),
        ("NoImprovementPossible", R::NoImprovementPossible("x")),
        ("LostPatience", R::LostPatience),
        ("NoParameters", R::NoParameters),
        ("NoResiduals", R::NoResiduals),
        ("WrongDimensions", R::WrongDimensions("x")),
    ];
    // exhaustiveness: a new constructor in the crate makes this match fail to compile
    for (_, r) in all.iter() {
        match r {
            R::User(_)
            | R::Numerical(_)
            | R::ResidualsZero
            | R::Orthogonal
            | R::Converged { .. }
            | R::NoImprovementPossible(_)
            | R::LostPatience
            | R::NoParameters
            | R::NoResiduals
            | R::WrongDimensions(_) => {}
        }
    }
    Value::Array(
        all.iter()
            .map(|(n, r)| json!([n, r.was_successful()]))
            .collect(),
    )
}

fn main() {
    let args: Vec<String> = std::env::args().collect();
    if args.len() < 4 {
        eprintln!("usage: vharness <suite> <cases.json> <out.jsonl> [timeout_ms]");
        std::process::exit(2);
    }
    let suite = args[1].clone();
    let text = std::fs::read_to_string(&args[2]).expect("read cases");
    let cases: Value = serde_json::from_str(&text).expect("parse cases");
    let cases = cases.as_array().expect("array of cases").clone();
    let timeout_ms: u64 = args.get(4).map(|s| s.parse().unwrap()).unwrap_or(20000);
    let mut outf = std::io::BufWriter::new(std::fs::File::create(&args[3]).expect("create out"));
    std::panic::set_hook(Box::new(|_| {}));
    let profile = if cfg!(debug_assertions) { "dev" } else { "release" };
    let mut leaked = 0usize;
    for case in cases.into_iter() {
        let id = case.get("id").cloned().unwrap_or(Value::Null);
        if leaked >= 6 {
            writeln!(outf, "{}", json!({"id": id, "skipped": "too many hung cases"})).unwrap();
            continue;
        }
        let (tx, rx) = mpsc::channel();
        let suite_c = suite.clone();
        std::thread::Builder::new()
            .stack_size(64 << 20)
            .spawn(move || {
                let mut out: Vec<Value> = Vec::new();
                let r = std::panic::catch_unwind(std::panic::AssertUnwindSafe(|| {
                    run_case(&suite_c, &case, &mut out)
                }));
                let rec = match r {
                    Ok(v) => json!({"head": v, "steps": out}),
                    Err(e) => {
                        let msg = if let Some(s) = e.downcast_ref::<&str>() {
                            s.to_string()
                        } else if let Some(s) = e.downcast_ref::<String>() {
                            s.clone()
                        } else {
                            "panic".to_string()
                        };
                        json!({"panic": msg, "steps": out})
                    }
                };
                let _ = tx.send(rec);
            })
            .expect("spawn");
        let rec = match rx.recv_timeout(Duration::from_millis(timeout_ms)) {
            Ok(mut rec) => {
                rec["id"] = id;
                rec
            }
            Err(_) => {
                leaked += 1;
                json!({"id": id, "timeout": true})
            }
        };
        let mut rec = rec;
        rec["profile"] = json!(profile);
        writeln!(outf, "{}", rec).unwrap();
    }
    outf.flush().unwrap();
    drop(outf);
    // hung worker threads (if any) must not keep the process alive
    std::process::exit(0);
}
