(* Examples.v — non-vacuity: the hypotheses of the property theorems are met by concrete,
   non-trivial states (weights other than 1, several right-hand sides, an injected fault, a rejected
   optimizer step, an under-determined fit, a non-trivial schedule ...).  Everything here is closed
   by computation; nothing is assumed. *)
From Coq Require Import List Bool Arith ZArith NArith Lia Permutation.
Import ListNotations.
From VP Require Import Model.Protocol Model.ProblemBuilder Model.LMDriver Model.Stats Model.Par Model.Poison.
From VP Require Import Proofs.ProtocolP Proofs.ProblemBuilderP Proofs.LMDriverP Proofs.ParP.

(* ------------------------------------------------------------------------------------------ *)
(* a user model that fails at chosen call indices and is otherwise functional:
   state = (parameters, number of calls so far); Phi a = a; D k a = k :: a *)
Section FaultyModel.
  Variable fails : nat -> bool.
  Definition fm_state := (list Z * nat)%type.
  Definition fm : umodel (list Z) (list Z) fm_state := {|
    um_set st a := if fails (snd st) then ((fst st, S (snd st)), false) else ((a, S (snd st)), true);
    um_params st := fst st;
    um_eval st := ((fst st, S (snd st)), if fails (snd st) then None else Some (fst st));
    um_deriv st k := ((fst st, S (snd st)), if fails (snd st) then None else Some (Z.of_nat k :: fst st));
    um_nparams st := 2;
    um_nout st := 3;
  |}.

  Lemma fm_contract : faulty_functional fm (fun a => a) (fun k a => Z.of_nat k :: a).
  Proof.
    split.
    - intros [p n] a st'. cbn. destruct (fails n); intros H; inversion H; reflexivity.
    - intros [p n] st' r. cbn. intros H; inversion H; subst. split; [reflexivity|].
      destruct (fails n); intros f Hf; inversion Hf; reflexivity.
    - intros [p n] k st' r. cbn. intros H; inversion H; subst. split; [reflexivity|].
      destruct (fails n); intros f Hf; inversion Hf; reflexivity.
    - intros [p n] a st' ok. cbn. destruct (fails n); intros H; inversion H; reflexivity.
  Qed.
End FaultyModel.

Definition ex_solve (w : unit) (e : unit) (phi yw : list Z) : option (list Z) := Some (phi ++ yw).
Definition ex_jaccol (w : unit) (c : list Z) (d : list Z) : list Z := d.

(* calls 0,1 = construction (set, eval); call 2 = the set_params of the first update fails *)
Definition ex_fails (n : nat) : bool := n =? 2.
Definition ex_p0 : problem (list Z) (list Z) unit unit fm_state :=
  set_params (fm ex_fails) ex_solve
    {| p_st := ([1; 2]%Z, 0); p_Yw := [9]%Z; p_eps := tt; p_w := tt; p_cached := None |} [1; 2]%Z.

Example ex_built_has_cache : p_cached ex_p0 = Some [1; 2; 9]%Z.
Proof. reflexivity. Qed.

Example ex_coherent_start : coherent (fm ex_fails) ex_solve (fun a => a) ex_p0.
Proof. intros c Hc. cbn in *. inversion Hc. reflexivity. Qed.

(* a history with a failing update in the middle: absent right after the failure, present and
   right again after the next update *)
Example ex_history :
  snd (run (fm ex_fails) ex_solve ex_jaccol ex_p0
           [OSet [5; 6]%Z; OObserve; OJac; OSet [7; 8]%Z; OObserve; OJac]) =
  [BSet; BObserve [1; 2]%Z None; BJac None; BSet; BObserve [7; 8]%Z (Some [7; 8; 9]%Z);
   BJac (Some [[0; 7; 8]; [1; 7; 8]]%Z)].
Proof. reflexivity. Qed.

(* C09_coherent / C10_history apply to it *)
Example ex_coherent_end :
  coherent (fm ex_fails) ex_solve (fun a => a)
    (fst (run (fm ex_fails) ex_solve ex_jaccol ex_p0 [OSet [5; 6]%Z; OObserve; OJac; OSet [7; 8]%Z])).
Proof. apply (coherent_run ex_jaccol (fm_contract ex_fails)). exact ex_coherent_start. Qed.

(* ------------------------------------------------------------------------------------------ *)
(* the optimizer: an accepted step, a rejected step, then termination right after the rejected
   step (the accepted parameters are re-applied) *)
Definition no_fail (n : nat) : bool := false.
Definition ex_q0 : problem (list Z) (list Z) unit unit fm_state :=
  set_params (fm no_fail) ex_solve
    {| p_st := ([1; 2]%Z, 0); p_Yw := [9]%Z; p_eps := tt; p_w := tt; p_cached := None |} [1; 2]%Z.
Definition ex_script : list (choice (list Z)) :=
  [CTrial [3; 4]%Z true None; CTrial [5; 6]%Z false (Some (Converged false true))].
Definition ex_dec (c' c : list Z) : bool := true.

Example ex_fit :
  match fit (fm no_fail) ex_solve ex_jaccol ex_dec ex_script ex_q0 with
  | Some (FitOk p r) =>
      params (fm no_fail) p = [3; 4]%Z /\ p_cached p = Some [3; 4; 9]%Z /\
      evaluations r = 3 /\ updates r = 3 /\ objective_at r = Some [3; 4]%Z /\
      termination r = Converged false true
  | _ => False
  end.
Proof. cbn. repeat split. Qed.

(* a failing derivative met by the optimizer: Err with termination User *)
Definition deriv_fails (n : nat) : bool := n =? 3.
Example ex_fit_user :
  match fit (fm deriv_fails) ex_solve ex_jaccol ex_dec ex_script
            (set_params (fm deriv_fails) ex_solve
               {| p_st := ([1; 2]%Z, 0); p_Yw := [9]%Z; p_eps := tt; p_w := tt; p_cached := None |} [1; 2]%Z) with
  | Some (FitErr p r) => termination r = User /\ p_cached p = Some [1; 2; 9]%Z
  | _ => False
  end.
Proof. cbn. split; reflexivity. Qed.

(* ------------------------------------------------------------------------------------------ *)
(* statistics: all three relations between N and M + P, both profiles *)
Example ex_stats_ok : try_calculate true true true Debug 9 2 1 = SOk 6%N. Proof. reflexivity. Qed.
Example ex_stats_eq : try_calculate true true true Debug 3 2 1 = SErr Underdetermined. Proof. reflexivity. Qed.
Example ex_stats_lt : try_calculate true true true Debug 2 2 1 = SErr Underdetermined. Proof. reflexivity. Qed.
Example ex_stats_lt_release : try_calculate true true true Release 2 2 1 = SErr Underdetermined. Proof. reflexivity. Qed.
Example ex_stats_pinned_debug : try_calculate_pinned true true true Debug 2 2 1 = SPanic. Proof. reflexivity. Qed.
Example ex_stats_pinned_release : try_calculate_pinned true true true Release 2 2 1 = SErr Underdetermined.
Proof. reflexivity. Qed.

(* ------------------------------------------------------------------------------------------ *)
(* the parallel Jacobian: a schedule that runs column 1 before column 0 and interleaves rows *)
Definition ex_cols : list (list Z) := [[10; 11; 12]; [20; 21; 22]]%Z.
(* column 1 is written completely before column 0 *)
Definition ex_schedule : list (wr Z) := task 1 [20; 21; 22]%Z ++ task 0 [10; 11; 12]%Z.
Example ex_schedule_is_perm : Permutation (sequential ex_cols) ex_schedule.
Proof.
  change (sequential ex_cols) with (task 0 [10; 11; 12]%Z ++ (task 1 [20; 21; 22]%Z ++ [])).
  rewrite app_nil_r. apply Permutation_app_comm.
Qed.
Example ex_schedule_result : forall k i, apply ex_schedule (@empty Z) k i = expected ex_cols k i.
Proof. exact (@parallel_is_sequential Z ex_cols ex_schedule ex_schedule_is_perm). Qed.

(* uninitialised memory: a 3 x 2 evaluation matrix *)
Example ex_no_poison : exists m, fill [[1; 2; 3]; [4; 5; 6]]%Z (uninit Z 3 2) = Some m /\ clean m.
Proof. eexists. split; [reflexivity|]. repeat constructor; discriminate. Qed.
