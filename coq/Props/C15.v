(* C15 — Model builder accepts exactly valid specifications; errors name a real defect.
   Only statements closed by lemmas proved elsewhere. *)
From Coq Require Import List Bool Arith.
Import ListNotations.
From VP Require Import Model.ModelBuilder Proofs.ModelBuilderP.

Section C15.
  Variables name Fn Fn0 X Sc : Type.
  Variable name_eqb : name -> name -> bool.
  Variable has_comma : name -> bool.
  Variable arity : Fn -> nat.
  Notation step := (@step name Fn Fn0 X Sc name_eqb has_comma arity).
  Notation sb_build := (@sb_build name Fn Fn0 X Sc name_eqb has_comma).

  (* once a defect has been recorded later calls cannot turn the result into Ok *)
  Theorem C15_sticky ops1 ops2 s e :
    fold_left step ops1 s = SError e ->
    sb_build (fold_left step (ops1 ++ ops2) s) = Fail e.
  Proof. exact (@sticky name Fn Fn0 X Sc name_eqb has_comma arity ops1 ops2 s e). Qed.
End C15.
Print Assumptions C15_sticky.
