(* C09 — Model failures propagate as absent values and failed fits, never as stale data.
   (the clauses about fit / fit_with_statistics are in Props/C04.v and Props/C12.v: C04_user_failure) *)
From Coq Require Import List Bool Arith.
Import ListNotations.
From VP Require Import Model.Protocol Proofs.ProtocolP.

Section C09.
  Variables V Mx Cache Col W E St : Type.
  Variable um : umodel V Mx St.
  Variable solve : W -> E -> Mx -> Mx -> option Cache.
  Variable jaccol : W -> Cache -> Mx -> Col.

  (* a failing parameter application or a failing evaluation leaves no residuals / coefficients *)
  Theorem C09_absent (p : problem Mx Cache W E St) a :
    (snd (um_set um (p_st p) a) = false \/
     snd (um_eval um (fst (um_set um (p_st p) a))) = None) ->
    p_cached (set_params um solve p a) = None.
  Proof. apply absent_after_failure. Qed.

  (* ... and then no Jacobian either *)
  Theorem C09_absent_jac (p : problem Mx Cache W E St) :
    p_cached p = None -> snd (jacobian um jaccol p) = None.
  Proof. apply jacobian_no_cache. Qed.

  (* a failing derivative gives no Jacobian; a Jacobian is never partially filled *)
  Theorem C09_jac_none st w c k n :
    snd (jac_cols um jaccol st w c k n) = None <-> In None (deriv_trace um st k n).
  Proof. exact (jac_none_iff um solve jaccol st w c k n). Qed.

  Theorem C09_jac_complete st w c k n st' cols :
    jac_cols um jaccol st w c k n = (st', Some cols) -> length cols = n.
  Proof. apply jac_some_length. Qed.

  (* whenever residuals or coefficients are present they are the right ones for the parameters
     the problem reports — for every history of operations and every failure pattern *)
  Theorem C09_coherent (Phi : V -> Mx) (D : nat -> V -> Mx) :
    faulty_functional um Phi D ->
    forall (p : problem Mx Cache W E St) os,
      coherent um solve Phi p -> coherent um solve Phi (fst (run um solve jaccol p os)).
  Proof. intros FF p os. apply (coherent_run _ FF). Qed.

  Theorem C09_coherent_update (Phi : V -> Mx) (D : nat -> V -> Mx) :
    faulty_functional um Phi D ->
    forall (p : problem Mx Cache W E St) a, coherent um solve Phi (set_params um solve p a).
  Proof. intros FF p a. apply (coherent_set_params _ FF). Qed.
End C09.

Print Assumptions C09_absent.
Print Assumptions C09_absent_jac.
Print Assumptions C09_jac_none.
Print Assumptions C09_jac_complete.
Print Assumptions C09_coherent.
Print Assumptions C09_coherent_update.
