(* C18 — Problem builder accepts exactly consistent inputs and starts at the model's α.
   This file contains only statements closed by lemmas proved elsewhere. *)
From Coq Require Import List Bool Arith Permutation.
Import ListNotations.
From VP Require Import Model.Protocol Model.ProblemBuilder Proofs.ProblemBuilderP.

Section C18.
  Variables V Mx Cache Wv E St : Type.
  Variable um : umodel V Mx St.
  Variable solve : option Wv -> E -> Mx -> Mx -> option Cache.
  Variables (rows cols : Mx -> nat) (wlen : Wv -> nat).
  Variable wmul : option Wv -> Mx -> Mx.
  Variables (eabs : E -> E) (edefault : E).

  Notation build := (@build V Mx Cache Wv E St um solve rows cols wlen wmul edefault).
  Notation build_ops := (@build_ops V Mx Cache Wv E St um solve rows cols wlen wmul eabs edefault).

  (* build() succeeds iff observations were supplied, model output length and observations are
     non-empty, one row per model sample and (if weights were given) one weight per row *)
  Theorem C18_iff st s :
    (exists p, build st s = inr p) <-> consistent rows cols wlen (um_nout um st) s.
  Proof. exact (build_ok_iff um solve rows cols wlen wmul edefault st s). Qed.

  (* otherwise the error names a requirement that is violated *)
  Theorem C18_err st s e :
    build st s = inl e -> err_names_defect rows cols wlen (um_nout um st) s e.
  Proof. exact (@build_err_sound V Mx Cache Wv E St um solve rows cols wlen wmul edefault st s e). Qed.

  (* only the last call of each kind matters ... *)
  Theorem C18_order st os os' :
    last_obs os None = last_obs os' None -> last_w os None = last_w os' None ->
    last_eps eabs os None = last_eps eabs os' None ->
    build_ops st os = build_ops st os'.
  Proof. exact (@build_order V Mx Cache Wv E St um solve rows cols wlen wmul eabs edefault st os os'). Qed.

  (* ... in particular the order of (non-repeated) builder calls does not matter *)
  Theorem C18_perm st os os' :
    NoDup (map (@kind Mx Wv E) os) -> Permutation os os' -> build_ops st os = build_ops st os'.
  Proof. exact (@build_perm V Mx Cache Wv E St um solve rows cols wlen wmul eabs edefault st os os'). Qed.

  (* threshold: |eps| of the last epsilon call, machine epsilon if there was none *)
  Theorem C18_eps st os p :
    build_ops st os = inr p ->
    p_eps p = match last_eps eabs os None with Some e => e | None => edefault end.
  Proof. exact (@build_eps V Mx Cache Wv E St um solve rows cols wlen wmul eabs edefault st os p). Qed.

  (* data weighted exactly once with the weights the problem keeps *)
  Theorem C18_data st os p :
    build_ops st os = inr p ->
    exists y, last_obs os None = Some y /\
              p_Yw p = wmul (last_w os None) y /\ p_w p = last_w os None.
  Proof. exact (@build_data V Mx Cache Wv E St um solve rows cols wlen wmul eabs edefault st os p). Qed.

  (* the new problem has gone through one parameter update at the model's own parameters:
     residuals / coefficients are present iff the model accepted them and evaluated *)
  Theorem C18_init st os p :
    build_ops st os = inr p ->
    let '(st1, ok) := um_set um st (um_params um st) in
    if ok then
      let '(st2, phi) := um_eval um st1 in
      p_st p = st2 /\
      p_cached p = match phi with
                   | Some f => solve (p_w p) (p_eps p) f (p_Yw p)
                   | None => None end
    else p_st p = st1 /\ p_cached p = None.
  Proof. exact (@build_cache V Mx Cache Wv E St um solve rows cols wlen wmul eabs edefault st os p). Qed.

  Theorem C18_params st os p :
    (forall s a s', um_set um s a = (s', true) -> um_params um s' = a) ->
    (forall s a s', um_set um s a = (s', false) -> um_params um s' = um_params um s) ->
    (forall s s' r, um_eval um s = (s', r) -> um_params um s' = um_params um s) ->
    build_ops st os = inr p -> params um p = um_params um st.
  Proof. exact (@build_params V Mx Cache Wv E St um solve rows cols wlen wmul eabs edefault st os p). Qed.
End C18.

Print Assumptions C18_iff.
Print Assumptions C18_err.
Print Assumptions C18_order.
Print Assumptions C18_perm.
Print Assumptions C18_eps.
Print Assumptions C18_data.
Print Assumptions C18_init.
Print Assumptions C18_params.
