(* C10 — Problem state is a function of the current α only (no history, no garbage). *)
From Coq Require Import List Bool Arith.
Import ListNotations.
From VP Require Import Model.Protocol Model.Poison Proofs.ProtocolP.

Section C10.
  Variables V Mx Cache Col W E St : Type.
  Variable um : umodel V Mx St.
  Variable solve : W -> E -> Mx -> Mx -> option Cache.
  Variable jaccol : W -> Cache -> Mx -> Col.
  Variables (Phi : V -> Mx) (D : nat -> V -> Mx).
  Hypothesis FF : faulty_functional um Phi D.

  (* after parameters a have been applied, what is cached is determined by data, weights,
     threshold and a — whatever operations (failing ones included) came before *)
  Theorem C10_history (p : problem Mx Cache W E St) os a c :
    p_cached (set_params um solve (fst (run um solve jaccol p os)) a) = Some c ->
    Some c = solve (p_w p) (p_eps p) (Phi a) (p_Yw p).
  Proof. eapply history_irrelevant; eassumption. Qed.

  (* in particular it equals what a freshly built problem holds *)
  Theorem C10_fresh (p q : problem Mx Cache W E St) os a c c' :
    p_Yw q = p_Yw p -> p_eps q = p_eps p -> p_w q = p_w p ->
    p_cached (set_params um solve (fst (run um solve jaccol p os)) a) = Some c ->
    p_cached (set_params um solve q a) = Some c' -> c = c'.
  Proof. eapply same_as_fresh; eassumption. Qed.

  (* the Jacobian is a function of the cached state and the derivative matrices at the reported
     parameters *)
  Theorem C10_jacobian st w c k n st' cols :
    jac_cols um jaccol st w c k n = (st', Some cols) ->
    cols = map (fun i => jaccol w c (D i (um_params um st))) (seq k n).
  Proof. eapply jac_cols_spec; eassumption. Qed.

  (* queries do not change the problem: repeated queries return identical values *)
  Theorem C10_query_pure (p : problem Mx Cache W E St) :
    fst (step um solve jaccol p OObserve) = p.
  Proof. apply observe_pure. Qed.

  Theorem C10_jacobian_keeps_cache (p : problem Mx Cache W E St) :
    p_cached (fst (jacobian um jaccol p)) = p_cached p.
  Proof. apply jacobian_frame. Qed.
End C10.

(* uninitialised memory: the column loops leave no cell unwritten, for every shape *)
Theorem C10_no_poison (A : Type) (vals : list (list A)) cols m :
  length vals = length cols -> fill vals cols = Some m -> clean m.
Proof. exact (@fill_clean A vals cols m). Qed.

Theorem C10_no_poison_alloc (A : Type) n (vals : list (list A)) m :
  fill vals (uninit A n (length vals)) = Some m -> clean m.
Proof. exact (@eval_alloc_clean A n vals m). Qed.

Print Assumptions C10_history.
Print Assumptions C10_fresh.
Print Assumptions C10_jacobian.
Print Assumptions C10_query_pure.
Print Assumptions C10_jacobian_keeps_cache.
Print Assumptions C10_no_poison.
Print Assumptions C10_no_poison_alloc.
