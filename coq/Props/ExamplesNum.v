(* ExamplesNum.v — non-vacuity of the numeric theorems: a concrete weighted problem with negative
   and non-unit weights and two right-hand sides meets their hypotheses (exact rationals). *)
From Coq Require Import ZArith QArith Qcanon.
From mathcomp Require Import all_ssreflect all_algebra.
From VP Require Import Base.QcField Base.LinAlg Base.SeqMx Base.Refine Model.Numeric Proofs.NumericP Proofs.MinNormP Exec.NumRun.
Set Implicit Arguments. Unset Strict Implicit. Unset Printing Implicit Defensive.
Local Open Scope ring_scope.

Definition exPhi : smx F := [:: [:: q 1 1; q 1 1; q 1 1; q 1 1]; [:: q 0 1; q 1 1; q 2 1; q 3 1]].
Definition exY : smx F := [:: [:: q 1 1; q 3 1; q 5 1; q 8 1]; [:: q 2 1; q 5 3; q 4 3; q 1 1]].
Definition exW : option (seq F) := Some [:: q 2 1; q 1 2; q (-1) 1; q 3 1].

Lemma ex_wok : wok 4 exW. Proof. by vm_compute. Qed.
Lemma ex_wfPhi : wf 4 2 exPhi. Proof. by vm_compute. Qed.
Lemma ex_wfY : wf 4 2 exY. Proof. by vm_compute. Qed.
Lemma ex_some : isSome (spec_coeffs 4 2 exW exPhi exY). Proof. by vm_compute. Qed.

(* the hypotheses of C01_optimal / C02_residual / C03_formula (wok, wf, spec_coeffs = Some _) are met by this problem *)
Example ex_hypotheses : [&& wok 4 exW, wf 4 2 exPhi, wf 4 2 exY & isSome (spec_coeffs 4 2 exW exPhi exY)].
Proof. by vm_compute. Qed.

(* an exactly rank-deficient basis (duplicated column): the minimum-norm specification exists *)
Definition exPhiR : smx F := [:: [:: q 1 1; q 1 1; q 1 1; q 1 1]; [:: q 0 1; q 1 1; q 2 1; q 3 1]; [:: q 1 1; q 1 1; q 1 1; q 1 1]].
Lemma ex_rank_some : isSome (spec_minnorm 4 3 (wscale exW exPhiR) (wscale exW exY) [:: 0%N; 1%N]). Proof. by vm_compute. Qed.
Lemma ex_rank_not_full : ~~ isSome (spec_coeffs 4 3 exW exPhiR exY). Proof. by vm_compute. Qed.

(* statistics of a concrete over-determined problem exist and are well formed *)
Definition exD : seq (smx F) := [:: [:: [:: q 0 1; q 1 1; q 4 1; q 9 1]; [:: q 0 1; q 0 1; q 0 1; q 0 1]]].
Lemma ex_stats_some : isSome (spec_stats 4 2 1 exW exPhi exD [:: q 1 1; q 3 1; q 5 1; q 8 1] [:: q 1 1; q 2 1]).
Proof. by vm_compute. Qed.
Lemma ex_stats_none : ~~ isSome (spec_stats 3 2 1 None [:: [:: q 1 1; q 1 1; q 1 1]; [:: q 0 1; q 1 1; q 2 1]]
                        [:: [:: [:: q 0 1; q 1 1; q 4 1]; [:: q 0 1; q 0 1; q 0 1]]] [:: q 1 1; q 3 1; q 5 1] [:: q 1 1; q 2 1]).
Proof. by vm_compute. Qed.
