(* C14 (floating-point step) — the quantile argument (p + 1.) / 2. of confidence_band_radius in IEEE binary64.
   Only statements, each closed by a lemma proved in Proofs/BandFloatP.v (Flocq 4.1 model: Model/BandFloat.v).
   The exact-arithmetic theorems of Props/C14.v say what the radius is GIVEN the quantile; these say what argument the
   quantile routine receives. The full statement of C14 ("a finite entry for every p strictly between 0 and 1") is FALSE of the
   faithful model: C14F_edge_refuted exhibits the probability (the open known finding of known_findings.txt), C14F_one_iff
   shows it is the only one in binary64, C14F_f32_lt_one that the binary32 flavour has none. *)
From Coq Require Import ZArith Reals.
From Flocq Require Import Core IEEE754.BinarySingleNaN IEEE754.Binary IEEE754.Bits.
From VP Require Import Model.BandFloat Proofs.BandFloatP.

(* the documented assertion accepts exactly the finite p strictly between 0 and 1 *)
Theorem C14F_assert64 : forall p : binary64,
  prob_ok64 p = true <-> (is_finite 53 1024 p = true /\ (0 < B2R 53 1024 p < 1)%R).
Proof. exact prob_ok64_spec. Qed.

Theorem C14F_assert32 : forall p : binary32,
  prob_ok32 p = true <-> (is_finite 24 128 p = true /\ (0 < B2R 24 128 p < 1)%R).
Proof. exact prob_ok32_spec. Qed.

(* into_f64 is exact *)
Theorem C14F_widen_exact : forall p : binary32, is_finite 24 128 p = true ->
  is_finite 53 1024 (f32_to_f64 p) = true /\ B2R 53 1024 (f32_to_f64 p) = B2R 24 128 p.
Proof. exact f32_to_f64_exact. Qed.

(* the argument is the once-rounded sum, halved exactly: (p + 1) rounded to nearest even, / 2 *)
Theorem C14F_argument : forall p : binary64, prob_ok64 p = true ->
  is_finite 53 1024 (qarg64 p) = true /\
  B2R 53 1024 (qarg64 p) = (round radix2 (FLT_exp (-1074) 53) ZnearestE (B2R 53 1024 p + 1) / 2)%R.
Proof. exact qarg64_correct. Qed.

(* it always lies in [1/2, 1] ... *)
Theorem C14F_range : forall p : binary64, prob_ok64 p = true -> (1 / 2 <= B2R 53 1024 (qarg64 p) <= 1)%R.
Proof. exact qarg64_range. Qed.

(* ... and the value 1 — at which the Student-t quantile is +infinity — IS reached by an accepted probability: the property's
   "finite for every p in (0,1)" is refuted on the faithful model (witness: the largest double below one) *)
Theorem C14F_edge_refuted : exists p : binary64,
  prob_ok64 p = true /\ (0 < B2R 53 1024 p < 1)%R /\ is_finite 53 1024 (qarg64 p) = true /\ B2R 53 1024 (qarg64 p) = 1%R.
Proof. exact edge_refuted. Qed.

(* the known class is exactly one probability: every other accepted double gives an argument < 1 *)
Theorem C14F_one_iff : forall p : binary64, prob_ok64 p = true ->
  (B2R 53 1024 (qarg64 p) = 1%R <-> B2R 53 1024 p = (1 - bpow radix2 (-53))%R).
Proof. exact qarg64_one_iff. Qed.

(* the binary32 flavour never reaches 1 *)
Theorem C14F_f32_lt_one : forall p : binary32, prob_ok32 p = true ->
  is_finite 53 1024 (qarg32 p) = true /\ (1 / 2 <= B2R 53 1024 (qarg32 p) <= 1 - bpow radix2 (-25))%R.
Proof. exact qarg32_lt_one. Qed.

Print Assumptions C14F_assert64.
Print Assumptions C14F_assert32.
Print Assumptions C14F_widen_exact.
Print Assumptions C14F_argument.
Print Assumptions C14F_range.
Print Assumptions C14F_edge_refuted.
Print Assumptions C14F_one_iff.
Print Assumptions C14F_f32_lt_one.
