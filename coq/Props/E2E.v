(* E2E — the protocol theorems (any user model, any history, any optimizer script) composed with the exact
   least-squares specification: what C01 / C02 / C04 / C10 say about the state a caller or the optimizer leaves
   behind, as ONE statement each about MathComp matrices.  Only statements, each closed by a lemma of
   Proofs/EndToEndP.v; the conclusions are spelled out (no definition to hide behind). *)
From Coq Require Import ZArith QArith Qcanon.
From mathcomp Require Import all_ssreflect all_algebra.
From VP Require Import Base.QcField Base.LinAlg Base.SeqMx Base.Refine Model.Numeric Proofs.NumericP.
From VP Require Import Model.Protocol Model.LMDriver Proofs.ProtocolP Proofs.LMDriverP Proofs.EndToEndP.
Set Implicit Arguments. Unset Strict Implicit. Unset Printing Implicit Defensive.
Import GRing.Theory Num.Theory.
Local Open Scope ring_scope.

(* C01 + C02 + C10: after ANY history of parameter updates (failing ones included), queries and Jacobian requests on a
   problem built from weights w and observations Y, whatever coefficients C and residual matrix R the problem shows:
   C minimises || W (y_j - Phi(alpha) c) || for every right-hand side j, alpha being the parameters the problem REPORTS,
   and R = W (Y - Phi(alpha) C) *)
Theorem E2E_history :
  forall (F : realFieldType) (n m s : nat) (V St Col : Type) (um : umodel V (smx F) St)
         (Phi : V -> smx F) (D : nat -> V -> smx F),
    faulty_functional um Phi D -> (forall a : V, wf n m (Phi a)) ->
  forall (jaccol : option (seq F) -> num_cache F -> smx F -> Col) (w : option (seq F)) (Y : smx F)
         (p : num_problem F St) (os : seq (op V)),
    wok n w -> wf n s Y ->
    p_w p = w /\ p_Yw p = wscale w Y ->
    coherent um (num_solve n m) Phi p ->
  forall (C R P : smx F), let p' := (run um (num_solve n m) jaccol p os).1 in
    p_cached p' = Some (C, R, P) ->
    [/\ wf m s C,
        forall (j : 'I_s) (c' : 'cV[F]_m),
          nrm2 (Wm n w *m (col j (mx_of n s Y) - mx_of n m (Phi (params um p')) *m col j (mx_of m s C)))
          <= nrm2 (Wm n w *m (col j (mx_of n s Y) - mx_of n m (Phi (params um p')) *m c'))
      & mx_of n s R = Wm n w *m (mx_of n s Y - mx_of n m (Phi (params um p')) *m mx_of m s C)].
Proof.
move=> F n m s V St Col um Phi D FF sh jaccol w Y p os hw hY hb co C R P p'.
exact: (@history_end_to_end F n m s V St Col um Phi D FF sh jaccol w Y p os hw hY hb co C R P).
Qed.

(* a single update from ANY problem state (no hypothesis on what was cached before) *)
Theorem E2E_update :
  forall (F : realFieldType) (n m s : nat) (V St : Type) (um : umodel V (smx F) St)
         (Phi : V -> smx F) (D : nat -> V -> smx F),
    faulty_functional um Phi D -> (forall a : V, wf n m (Phi a)) ->
  forall (w : option (seq F)) (Y : smx F) (p : num_problem F St) (a : V),
    wok n w -> wf n s Y ->
    p_w p = w /\ p_Yw p = wscale w Y ->
  forall (C R P : smx F), let p' := set_params um (num_solve n m) p a in
    p_cached p' = Some (C, R, P) ->
    [/\ wf m s C,
        forall (j : 'I_s) (c' : 'cV[F]_m),
          nrm2 (Wm n w *m (col j (mx_of n s Y) - mx_of n m (Phi (params um p')) *m col j (mx_of m s C)))
          <= nrm2 (Wm n w *m (col j (mx_of n s Y) - mx_of n m (Phi (params um p')) *m c'))
      & mx_of n s R = Wm n w *m (mx_of n s Y - mx_of n m (Phi (params um p')) *m mx_of m s C)].
Proof.
move=> F n m s V St um Phi D FF sh w Y p a hw hY hb C R P p'.
exact: (@update_end_to_end F n m s V St um Phi D FF sh w Y p a hw hY hb C R P).
Qed.

(* C04: for EVERY script of accepted and rejected trial steps and every termination reason (fit returning Ok or Err
   alike), the problem the optimizer hands back shows coefficients optimal for the parameters it reports and residuals
   W (Y - Phi C) there *)
Theorem E2E_fit :
  forall (F : realFieldType) (n m s : nat) (V St Col : Type) (um : umodel V (smx F) St)
         (Phi : V -> smx F) (D : nat -> V -> smx F),
    faulty_functional um Phi D -> (forall a : V, wf n m (Phi a)) ->
  forall (jaccol : option (seq F) -> num_cache F -> smx F -> Col) (w : option (seq F)) (Y : smx F)
         (dec : num_cache F -> num_cache F -> bool) (script : seq (choice V)) (p p' : num_problem F St)
         (r : report V (num_cache F)) (c0 : num_cache F),
    wok n w -> wf n s Y ->
    p_w p = w /\ p_Yw p = wscale w Y ->
    coherent um (num_solve n m) Phi p ->
    p_cached p = Some c0 ->
    minimize um (num_solve n m) jaccol dec script p = Some (p', r) ->
  forall (C R P : smx F),
    p_cached p' = Some (C, R, P) ->
    [/\ wf m s C,
        forall (j : 'I_s) (c' : 'cV[F]_m),
          nrm2 (Wm n w *m (col j (mx_of n s Y) - mx_of n m (Phi (params um p')) *m col j (mx_of m s C)))
          <= nrm2 (Wm n w *m (col j (mx_of n s Y) - mx_of n m (Phi (params um p')) *m c'))
      & mx_of n s R = Wm n w *m (mx_of n s Y - mx_of n m (Phi (params um p')) *m mx_of m s C)].
Proof.
move=> F n m s V St Col um Phi D FF sh jaccol w Y dec script p p' r c0 hw hY hb co hc0 hmin C R P.
exact: (@fit_end_to_end F n m s V St Col um Phi D FF sh jaccol w Y dec script p p' r c0 hw hY hb co hc0 hmin C R P).
Qed.

(* C03 for every history: a Jacobian that is produced has exactly one column per nonlinear parameter, and column k is the
   specification's column for the derivative matrix D_k AT THE PARAMETERS THE PROBLEM REPORTS and the coefficients it shows ... *)
Theorem E2E_jacobian :
  forall (F : realFieldType) (n m s : nat) (V St : Type) (um : umodel V (smx F) St)
         (Phi : V -> smx F) (D : nat -> V -> smx F),
    faulty_functional um Phi D -> (forall a : V, wf n m (Phi a)) ->
  forall (w : option (seq F)) (Y : smx F) (p : num_problem F St) (os : seq (op V)),
    wok n w -> wf n s Y ->
    p_w p = w /\ p_Yw p = wscale w Y ->
    coherent um (num_solve n m) Phi p ->
  let p' := (run um (num_solve n m) (num_jaccol n m) p os).1 in
  forall (C R P : smx F) (p'' : num_problem F St) (cols : seq (option (seq F))),
    p_cached p' = Some (C, R, P) ->
    jacobian um (num_jaccol n m) p' = (p'', Some cols) ->
    cols = List.map (fun k => spec_jac_col n m w (Phi (params um p')) (D k (params um p')) C)
                    (List.seq 0 (um_nparams um (p_st p')))
    /\ spec_coeffs n m w (Phi (params um p')) Y = Some C.
Proof.
move=> F n m s V St um Phi D FF sh w Y p os hw hY hb co p' C R P p'' cols.
exact: (@jacobian_end_to_end F n m s V St um Phi D FF w Y p os hw hY hb co C R P p'' cols).
Qed.

(* ... and wherever coefficients exist such a column exists and is the Kaufman column -(I - P) W D_k C, orthogonal to
   range(W Phi) *)
Theorem E2E_jacobian_column :
  forall (F : realFieldType) (n m s : nat) (w : option (seq F)) (Y P C Dk : smx F),
    wok n w -> wf n m P -> wf n s Y -> wf n m Dk -> spec_coeffs n m w P Y = Some C ->
  exists (jc : seq F) (M : smx F),
    [/\ spec_jac_col n m w P Dk C = Some jc, jc = flatten M, wf n s M,
        mx_of n s M
        = - ((1%:M - (Wm n w *m mx_of n m P)
                      *m invmx ((Wm n w *m mx_of n m P)^T *m (Wm n w *m mx_of n m P))
                      *m (Wm n w *m mx_of n m P)^T)
             *m (Wm n w *m mx_of n m Dk *m mx_of m s C))
      & (Wm n w *m mx_of n m P)^T *m mx_of n s M = 0].
Proof. move=> F n m s w Y P C Dk; exact: num_jaccol_formula. Qed.

(* C12 + C13 for the whole pipeline (one right-hand side): whenever fit_with_statistics returns Ok — for ANY script of
   optimizer decisions and ANY (failing) model honouring the trait contract — the termination reason is a successful one,
   the problem handed back shows the least-squares coefficients for the parameters a it reports, N > M + P,
   dof = N - M - P, chi^2 dof = ||r_w||^2, r_w = W (y - Phi(a) c), and Cov = chi^2 (H^T H)^-1 with
   H = W [Phi(a) | D_1(a) c | ... | D_P(a) c] (linear coefficients first) *)
Theorem E2E_stats :
  forall (F : realFieldType) (n m : nat) (V St : Type) (um : umodel V (smx F) St)
         (Phi : V -> smx F) (D : nat -> V -> smx F),
    faulty_functional um Phi D -> (forall a : V, wf n m (Phi a)) -> (forall k a, wf n m (D k a)) ->
  forall np : nat, (forall st : St, um_nparams um st = np) ->
  forall (jaccol : option (seq F) -> num_cache F -> smx F -> option (seq F)) (w : option (seq F)) (y : seq F)
         (dec : num_cache F -> num_cache F -> bool) (script : seq (choice V)) (p p2 : num_problem F St)
         (r : report V (num_cache F)) (c0 : num_cache F) (st : stats_spec F),
    wok n w -> size y = n ->
    p_w p = w -> p_Yw p = wscale w [:: y] ->
    coherent um (num_solve n m) Phi p -> p_cached p = Some c0 ->
    fit_with_statistics um (num_solve n m) jaccol dec (num_stats n m um y) script p = Some (FSOk p2 r st) ->
  exists C R P : smx F,
    let a := params um p2 in
    let Ds := [seq D k a | k <- iota 0 np] in
    let c := head [::] C in
    [/\ successful (termination r) = true, p_cached p2 = Some (C, R, P)
       & spec_coeffs n m w (Phi a) [:: y] = Some C] /\
    [/\ (m + np < n)%N, st_dof st = (n - (m + np))%N,
        st_chi2 st * (st_dof st)%:R = svnrm2 (st_rw st),
        cv_of n (st_rw st) = Wm n w *m (cv_of n y - mx_of n m (Phi a) *m cv_of m c)
      & let H := Wm n w *m mx_of n (m + np) (mfj n (Phi a) Ds c) in
        H^T *m H \in unitmx /\ mx_of (m + np) (m + np) (st_cov st) = st_chi2 st *: invmx (H^T *m H)].
Proof.
move=> F n m V St um Phi D FF sh shD np hnp jaccol w y dec script p p2 r c0 st hw sy hpw hpY co hc0 hf.
have [C [R [P /= [h1 h2 h3 hst]]]] := stats_end_to_end FF hnp hpw hpY co hc0 hf.
exists C, R, P => /=; split=> //.
set a := params um p2 in hst *; set Ds := [seq D k a | k <- iota 0 np] in hst *.
have sD : size Ds = np by rewrite size_map size_iota.
have hDs : all (wf n m) Ds by apply/allP => d /mapP [k _ ->]; exact: shD.
have := @spec_stats_sound F n m w (Phi a) Ds y (head [::] C) hw (sh a) hDs sy st.
by rewrite sD => /(_ hst).
Qed.

(* non-vacuity: a concrete model over the rationals (basis [1, a*x], x = 1,2,3), weights (1,2,1), two right-hand sides,
   a history with two updates: the premises hold and the final state does show coefficients and residuals *)
Section Example.
Definition ex_Phi (a : seq Qc) : smx Qc_realFieldType :=
  let a0 := head 0 a in [:: [:: 1; 1; 1]; [:: a0; a0 + a0; a0 + a0 + a0]].
Definition ex_D (k : nat) (a : seq Qc) : smx Qc_realFieldType := [:: [:: 0; 0; 0]; [:: 1; 1 + 1; 1 + 1 + 1]].
Definition ex_um : umodel (seq Qc) (smx Qc_realFieldType) (seq Qc) :=
  {| um_set := fun _ a => (a, true); um_params := fun st => st;
     um_eval := fun st => (st, Some (ex_Phi st)); um_deriv := fun st k => (st, Some (ex_D k st));
     um_nparams := fun _ => 1%N; um_nout := fun _ => 3%N |}.
Definition ex_w : option (seq Qc) := Some [:: 1; 1 + 1; 1].
Definition ex_Y : smx Qc_realFieldType := [:: [:: 1; 1 + 1; 1 + 1 + 1 + 1]; [:: 0; 1; 0]].
Definition ex_p0 : num_problem Qc_realFieldType (seq Qc) :=
  {| p_st := [:: 1]; p_Yw := wscale ex_w ex_Y; p_eps := tt; p_w := ex_w;
     p_cached := num_solve 3 2 ex_w tt (ex_Phi [:: 1]) (wscale ex_w ex_Y) |}.

Lemma ex_ff : faulty_functional ex_um ex_Phi ex_D.
Proof.
split.
- by move=> st a st' [<-].
- by move=> st st' r [<- <-]; split=> // f [<-].
- by move=> st k st' r [<- <-]; split=> // d [<-].
- by move=> st a st' ok [<- _].
Qed.

Example E2E_nonvacuous :
  [/\ faulty_functional ex_um ex_Phi ex_D, (forall a, wf 3 2 (ex_Phi a)),
      coherent ex_um (num_solve 3 2) ex_Phi ex_p0
    & exists C R P J, p_cached (run ex_um (num_solve 3 2) (num_jaccol 3 2) ex_p0
                              [:: OSet [:: 1 + 1]; OObserve; OJac; OSet [:: 1 + 1 + 1]]).1 = Some (C, R, P) /\
        (jacobian ex_um (num_jaccol 3 2) (run ex_um (num_solve 3 2) (num_jaccol 3 2) ex_p0
                              [:: OSet [:: 1 + 1]; OObserve; OJac; OSet [:: 1 + 1 + 1]]).1).2 = Some [:: Some J]].
Proof.
split; [exact: ex_ff | by [] | by move=> c; rewrite /coherent /= => -> |].
by vm_compute; do 4!eexists; split; reflexivity.
Qed.


(* ... and for the statistics: a rational model [1, 1/(1 + a x)], x = 1..5, weights (1,2,1,2,1), one right-hand side; the
   optimizer stops at once (script: Orthogonal); fit_with_statistics returns Ok with 2 degrees of freedom and a positive
   reduced chi^2 (stated through booleans: normalising a goal whose TYPES mention the field structure does not terminate in
   reasonable time) *)
Definition ex2_xs : seq Qc := [:: 1; 1 + 1; 1 + 1 + 1; 1 + 1 + 1 + 1; 1 + 1 + 1 + 1 + 1].
Definition ex2_Phi (a : seq Qc) : smx Qc_realFieldType :=
  let a0 := head 0 a in [:: nseq 5 1; [seq (1 + a0 * x)^-1 | x <- ex2_xs]].
Definition ex2_D (k : nat) (a : seq Qc) : smx Qc_realFieldType :=
  let a0 := head 0 a in [:: nseq 5 0; [seq - x * ((1 + a0 * x)^-1 * (1 + a0 * x)^-1) | x <- ex2_xs]].
Definition ex2_um : umodel (seq Qc) (smx Qc_realFieldType) (seq Qc) :=
  {| um_set := fun _ a => (a, true); um_params := fun st => st;
     um_eval := fun st => (st, Some (ex2_Phi st)); um_deriv := fun st k => (st, Some (ex2_D k st));
     um_nparams := fun _ => 1%N; um_nout := fun _ => 5%N |}.
Definition ex2_w : option (seq Qc) := Some [:: 1; 1 + 1; 1; 1 + 1; 1].
Definition ex2_y : seq Qc := [:: 1 + 1; 1; 1; 1 + 1; 0].
Definition ex2_p0 : num_problem Qc_realFieldType (seq Qc) :=
  {| p_st := [:: 1]; p_Yw := wscale ex2_w [:: ex2_y]; p_eps := tt; p_w := ex2_w;
     p_cached := num_solve 5 2 ex2_w tt (ex2_Phi [:: 1]) (wscale ex2_w [:: ex2_y]) |}.
Lemma ex2_ff : faulty_functional ex2_um ex2_Phi ex2_D.
Proof.
split.
- by move=> st a st' [<-].
- by move=> st st' r [<- <-]; split=> // f [<-].
- by move=> st k st' r [<- <-]; split=> // d [<-].
- by move=> st a st' ok [<- _].
Qed.
Lemma ex2_co : coherent ex2_um (num_solve 5 2) ex2_Phi ex2_p0.
Proof. move=> c hc. exact (esym hc). Qed.
Definition ex2_res :=
  fit_with_statistics ex2_um (num_solve 5 2) (num_jaccol 5 2) (fun _ _ => true) (num_stats 5 2 ex2_um ex2_y)
    [:: CStop Orthogonal] ex2_p0.
Example E2E_stats_nonvacuous :
  [/\ faulty_functional ex2_um ex2_Phi ex2_D, coherent ex2_um (num_solve 5 2) ex2_Phi ex2_p0,
      (if p_cached ex2_p0 is Some _ then true else false) = true
    & (if ex2_res is Some (FSOk _ _ st) then (st_dof st == 2%N) && (0 < st_chi2 st) else false) = true].
Proof. split; [exact ex2_ff | exact ex2_co | by vm_compute | by vm_compute]. Qed.
End Example.

Print Assumptions E2E_history.
Print Assumptions E2E_update.
Print Assumptions E2E_fit.
Print Assumptions E2E_jacobian.
Print Assumptions E2E_jacobian_column.
Print Assumptions E2E_stats.
Print Assumptions E2E_nonvacuous.
Print Assumptions E2E_stats_nonvacuous.
