From VP Require Import Base.LinAlg.
Print Assumptions kaufman_orth.
Print Assumptions proj_svd.
