From Coq Require Import List Bool Arith.
Import ListNotations.
From VP Require Import Model.ModelBuilder Props.C15.

Definition pin_C15_sticky :
  forall (name Fn Fn0 X Sc : Type) (name_eqb : name -> name -> bool) (has_comma : name -> bool)
         (arity : Fn -> nat) (ops1 ops2 : list (mop name Fn Fn0 X Sc)) (s : sbuilder name Fn Fn0 X Sc) (e : mberr name),
    fold_left (step name_eqb has_comma arity) ops1 s = SError e ->
    sb_build name_eqb has_comma (fold_left (step name_eqb has_comma arity) (ops1 ++ ops2) s) = Fail e
  := C15_sticky.
Print Assumptions C15_sticky.
