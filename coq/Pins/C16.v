From VP Require Import Model.ModelBuilder Props.C15.
Print Assumptions C15_sticky.
