From VP Require Import Base.LinAlg.
Print Assumptions ls_opt.
Print Assumptions solve_opt.
Print Assumptions solve_min_norm.
