(* pin file for C18: the full statements are spelled out here; if a theorem in Props/C18.v were
   weakened or removed this file would stop compiling. *)
From Coq Require Import List Bool Arith Permutation.
Import ListNotations.
From VP Require Import Model.Protocol Model.ProblemBuilder Proofs.ProblemBuilderP Props.C18.

Definition pin_C18_iff :
  forall (V Mx Cache Wv E St : Type) (um : umodel V Mx St)
    (solve : option Wv -> E -> Mx -> Mx -> option Cache) (rows cols : Mx -> nat) (wlen : Wv -> nat)
    (wmul : option Wv -> Mx -> Mx) (edefault : E) (st : St) (s : bstate Mx Wv E),
    (exists p, build um solve rows cols wlen wmul edefault st s = inr p) <->
    (exists y, bY s = Some y /\ 0 < um_nout um st /\ 0 < rows y * cols y /\ rows y = um_nout um st /\
               (forall w, bW s = Some w -> wlen w = rows y))
  := C18_iff.

Definition pin_C18_err :
  forall (V Mx Cache Wv E St : Type) (um : umodel V Mx St)
    (solve : option Wv -> E -> Mx -> Mx -> option Cache) (rows cols : Mx -> nat) (wlen : Wv -> nat)
    (wmul : option Wv -> Mx -> Mx) (edefault : E) (st : St) (s : bstate Mx Wv E) (e : berr),
    build um solve rows cols wlen wmul edefault st s = inl e ->
    match e with
    | YDataMissing => bY s = None
    | ZeroLengthVector => exists y, bY s = Some y /\ (um_nout um st = 0 \/ rows y * cols y = 0)
    | InvalidLengthOfData x yl =>
        exists y, bY s = Some y /\ x = um_nout um st /\ yl = rows y /\ um_nout um st <> rows y /\
                  0 < um_nout um st /\ 0 < rows y * cols y
    | InvalidLengthOfWeights =>
        exists y w, bY s = Some y /\ bW s = Some w /\ wlen w <> rows y /\ rows y = um_nout um st
    end
  := C18_err.

Definition pin_C18_order :
  forall (V Mx Cache Wv E St : Type) (um : umodel V Mx St)
    (solve : option Wv -> E -> Mx -> Mx -> option Cache) (rows cols : Mx -> nat) (wlen : Wv -> nat)
    (wmul : option Wv -> Mx -> Mx) (eabs : E -> E) (edefault : E) (st : St) (os os' : list (bop Mx Wv E)),
    last_obs os None = last_obs os' None -> last_w os None = last_w os' None ->
    last_eps eabs os None = last_eps eabs os' None ->
    build_ops um solve rows cols wlen wmul eabs edefault st os =
    build_ops um solve rows cols wlen wmul eabs edefault st os'
  := C18_order.

Definition pin_C18_perm :
  forall (V Mx Cache Wv E St : Type) (um : umodel V Mx St)
    (solve : option Wv -> E -> Mx -> Mx -> option Cache) (rows cols : Mx -> nat) (wlen : Wv -> nat)
    (wmul : option Wv -> Mx -> Mx) (eabs : E -> E) (edefault : E) (st : St) (os os' : list (bop Mx Wv E)),
    NoDup (map (@kind Mx Wv E) os) -> Permutation os os' ->
    build_ops um solve rows cols wlen wmul eabs edefault st os =
    build_ops um solve rows cols wlen wmul eabs edefault st os'
  := C18_perm.

Definition pin_C18_eps :
  forall (V Mx Cache Wv E St : Type) (um : umodel V Mx St)
    (solve : option Wv -> E -> Mx -> Mx -> option Cache) (rows cols : Mx -> nat) (wlen : Wv -> nat)
    (wmul : option Wv -> Mx -> Mx) (eabs : E -> E) (edefault : E) (st : St) (os : list (bop Mx Wv E)) p,
    build_ops um solve rows cols wlen wmul eabs edefault st os = inr p ->
    p_eps p = match last_eps eabs os None with Some e => e | None => edefault end
  := C18_eps.

Definition pin_C18_data :
  forall (V Mx Cache Wv E St : Type) (um : umodel V Mx St)
    (solve : option Wv -> E -> Mx -> Mx -> option Cache) (rows cols : Mx -> nat) (wlen : Wv -> nat)
    (wmul : option Wv -> Mx -> Mx) (eabs : E -> E) (edefault : E) (st : St) (os : list (bop Mx Wv E)) p,
    build_ops um solve rows cols wlen wmul eabs edefault st os = inr p ->
    exists y, last_obs os None = Some y /\ p_Yw p = wmul (last_w os None) y /\ p_w p = last_w os None
  := C18_data.

Definition pin_C18_init :
  forall (V Mx Cache Wv E St : Type) (um : umodel V Mx St)
    (solve : option Wv -> E -> Mx -> Mx -> option Cache) (rows cols : Mx -> nat) (wlen : Wv -> nat)
    (wmul : option Wv -> Mx -> Mx) (eabs : E -> E) (edefault : E) (st : St) (os : list (bop Mx Wv E)) p,
    build_ops um solve rows cols wlen wmul eabs edefault st os = inr p ->
    let '(st1, ok) := um_set um st (um_params um st) in
    if ok then
      let '(st2, phi) := um_eval um st1 in
      p_st p = st2 /\
      p_cached p = match phi with Some f => solve (p_w p) (p_eps p) f (p_Yw p) | None => None end
    else p_st p = st1 /\ p_cached p = None
  := C18_init.

Definition pin_C18_params :
  forall (V Mx Cache Wv E St : Type) (um : umodel V Mx St)
    (solve : option Wv -> E -> Mx -> Mx -> option Cache) (rows cols : Mx -> nat) (wlen : Wv -> nat)
    (wmul : option Wv -> Mx -> Mx) (eabs : E -> E) (edefault : E) (st : St) (os : list (bop Mx Wv E)) p,
    (forall s a s', um_set um s a = (s', true) -> um_params um s' = a) ->
    (forall s a s', um_set um s a = (s', false) -> um_params um s' = um_params um s) ->
    (forall s s' r, um_eval um s = (s', r) -> um_params um s' = um_params um s) ->
    build_ops um solve rows cols wlen wmul eabs edefault st os = inr p -> params um p = um_params um st
  := C18_params.

Print Assumptions C18_iff.
Print Assumptions C18_err.
Print Assumptions C18_order.
Print Assumptions C18_perm.
Print Assumptions C18_eps.
Print Assumptions C18_data.
Print Assumptions C18_init.
Print Assumptions C18_params.
