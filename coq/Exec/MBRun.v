(* MBRun.v — executable instance of the model-builder / builder-made-model for the
   correspondence checks of C15, C16, C17.  Names are numbers (>= 1000: contains a comma),
   scalars are integers, user closures are the harness's tagged family
     out[i] = args[i mod n] + 100*tag + 10000*x[i]   (i < forced length or |x|). *)
From Coq Require Import List Bool Arith ZArith NArith.
Import ListNotations.
From VP Require Import Model.ModelBuilder Model.SepModel Gen.DispatchTable Exec.Common.

Definition name := N.
Definition has_comma (n : name) : bool := (1000 <=? n)%N.
(* fn_len: forced output length; fn_len_if = (t, l): output length l whenever the first argument is >= t (a user function whose
   output length depends on the parameter values) *)
Record Fn := { fn_arity : nat; fn_tag : Z; fn_len : option nat; fn_len_if : option (Z * nat) }.
Record Fn0 := { f0_tag : Z; f0_len : option nat }.
Definition X := list Z.
Definition Sc := Z.

Fixpoint encode_from (i : nat) (len : nat) (x : list Z) (args : list Z) (tag : Z) : list Z :=
  match len with
  | 0 => []
  | S len' =>
      let a := match args with [] => 0%Z | _ => nth (i mod length args) args 0%Z end in
      (a + 100 * tag + 10000 * nth i x 0)%Z :: encode_from (S i) len' x args tag
  end.
Definition out_len (f : Fn) (x : X) (args : list Z) : nat :=
  let dflt := match fn_len f with Some l => l | None => length x end in
  match fn_len_if f, args with
  | Some (t, l), a :: _ => if (t <=? a)%Z then l else dflt
  | _, _ => dflt
  end.
Definition call (f : Fn) (x : X) (args : list Z) : list Z :=
  encode_from 0 (out_len f x args) x args (fn_tag f).
Definition call0 (f : Fn0) (x : X) : list Z :=
  encode_from 0 (match f0_len f with Some l => l | None => length x end) x [] (f0_tag f).

Notation mberr := (mberr name).
Notation mop := (mop name Fn Fn0 X Sc).

Definition names_eqb := list_eqb N.eqb.
Definition mberr_eqb (a b : mberr) : bool :=
  match a, b with
  | DuplicateParameterNames l, DuplicateParameterNames l' => names_eqb l l'
  | EmptyParameters, EmptyParameters => true
  | FunctionParameterNotInModel n, FunctionParameterNotInModel n' => N.eqb n n'
  | InvalidDerivative n l, InvalidDerivative n' l' => N.eqb n n' && names_eqb l l'
  | DuplicateDerivative n, DuplicateDerivative n' => N.eqb n n'
  | MissingDerivative n l, MissingDerivative n' l' => N.eqb n n' && names_eqb l l'
  | EmptyModel, EmptyModel => true
  | UnusedParameter n, UnusedParameter n' => N.eqb n n'
  | IncorrectParameterCount a e, IncorrectParameterCount a' e' => (a =? a') && (e =? e')
  | CommaInParameterNameNotAllowed n, CommaInParameterNameNotAllowed n' => N.eqb n n'
  | MissingX, MissingX => true
  | MissingInitialParameters, MissingInitialParameters => true
  | IllegalCallToPartialDeriv, IllegalCallToPartialDeriv => true
  | _, _ => false
  end.

Definition mb_run (names : list name) (ops : list mop) :=
  run_builder N.eqb has_comma fn_arity names ops.

Definition merr_eqb (a b : merr) : bool :=
  match a, b with
  | UnexpectedFunctionOutput e c, UnexpectedFunctionOutput e' c' => (e =? e') && (c =? c')
  | DerivativeIndexOutOfBounds k, DerivativeIndexOutOfBounds k' => k =? k'
  | IncorrectParameterCountM e c, IncorrectParameterCountM e' c' => (e =? e') && (c =? c')
  | _, _ => false
  end.

Definition mat_eqb := list_eqb (list_eqb Z.eqb).
Definition mret_eqb (a b : mret Sc) : bool :=
  match a, b with
  | TSet e, TSet e' => option_eqb merr_eqb e e'
  | TParams p, TParams p' => list_eqb Z.eqb p p'
  | TMat (ROk m), TMat (ROk m') => mat_eqb m m'
  | TMat (RErr e), TMat (RErr e') => merr_eqb e e'
  | TMat RPanic, TMat RPanic => true
  | _, _ => false
  end.

Definition mb_calls (m : smodel name Fn Fn0 X Sc) (cs : list (mcall Sc)) : list (mret Sc) :=
  mrun fn_arity (@length Z) 0%Z call call0 canon_table m cs.

(* what the implementation did *)
Inductive mexpected :=
| EPanic
| EErr (e : mberr)
| EOk (names : list name) (nfuncs nout : nat) (init : list Z) (rets : list (mret Sc)).

(* index of the first differing call result, starting at 10 *)
Fixpoint first_diff (i : N) (a b : list (mret Sc)) : N :=
  match a, b with
  | [], [] => 0
  | x :: r, y :: r' => if mret_eqb x y then first_diff (i + 1) r r' else i
  | _, _ => i
  end%N.

Definition mb_check (names : list name) (ops : list mop) (cs : list (mcall Sc)) (x : mexpected) : N :=
  match mb_run names ops, x with
  | Panic, EPanic => 0
  | Fail e, EErr e' => if mberr_eqb e e' then 0 else 1
  | Done m, EOk ns nf no init rets =>
      first_code
        [ (names_eqb (sm_names m) ns, 2); (Nat.eqb (length (sm_funs m)) nf, 3);
          (Nat.eqb (length (sm_x m)) no, 4); (list_eqb Z.eqb (sm_params m) init, 5) ]%N
      + first_diff 10 (mb_calls m cs) rets
  | Fail _, EOk _ _ _ _ _ => 6
  | Done _, EErr _ => 7
  | _, _ => 8
  end%N.
