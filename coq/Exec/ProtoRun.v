(* ProtoRun.v — executable instance of the protocol model for histories of caller-driven
   operations (C02, C09, C10, C18): scalars are bit patterns, matrices are tags (the index of the
   recorded model call that returned them), a cache is the tag of the basis matrix it was
   computed from, a Jacobian column is the tag of its derivative matrix. *)
From Coq Require Import List Bool Arith ZArith NArith.
Import ListNotations.
From VP Require Import Model.Protocol Model.Replay Exec.Common.

Definition V := list Z.
Definition veqb : V -> V -> bool := list_eqb Z.eqb.
Definition Mx := N.
Definition solve (_ _ : unit) (phi yw : Mx) : option N := Some phi.
Definition jaccol (_ : unit) (c : N) (d : Mx) : N := d.

Notation rmodel := (@replay_model V Mx veqb).
Notation problem := (problem Mx N unit unit (rstate V Mx)).

(* what the implementation showed for each operation *)
Inductive xobs :=
| XSet
| XObserve (params : V) (has_resid has_coef : bool)
| XJac (has : bool).

Definition fresh (np nout : nat) (init : V) (log : list (lentry V Mx)) (cached : option N) : problem :=
  {| p_st := {| r_log := log; r_cur := init; r_bad := false; r_np := np; r_nout := nout |};
     p_Yw := 0%N; p_eps := tt; p_w := tt; p_cached := cached |}.

(* the problem right after build(): one update at the model's own parameters *)
Definition built (np nout : nat) (init : V) (log : list (lentry V Mx)) : problem :=
  set_params rmodel solve (fresh np nout init log None) init.

(* compare one observation; result: (agreement, provenance tag + 1 or 0) *)
Definition cmp (b : obs V N N) (x : xobs) : bool * list N :=
  match b, x with
  | BSet, XSet => (true, [])
  | BObserve a c, XObserve a' hr hc =>
      (veqb a a' && Bool.eqb (is_some c) hr && Bool.eqb (is_some c) hc,
       [match c with Some t => (t + 1)%N | None => 0%N end])
  | BJac j, XJac h =>
      (Bool.eqb (is_some j) h,
       match j with Some cols => (1%N :: map (fun t => (t + 1)%N) cols) | None => [0%N] end)
  | _, _ => (false, [])
  end.

Fixpoint cmp_all (i : N) (bs : list (obs V N N)) (xs : list xobs) : N * list N :=
  match bs, xs with
  | [], [] => (0%N, [])
  | b :: br, x :: xr =>
      let '(ok, prov) := cmp b x in
      if ok then let '(code, rest) := cmp_all (i + 1) br xr in (code, prov ++ rest)
      else ((10 + i)%N, [])
  | _, _ => (5%N, [])
  end.

(* result: code :: provenance tags.  code 0 = agreement; 1 = the model's calls differ from the
   recorded protocol; 10+i = operation i shows something else *)
Definition proto_check (np nout : nat) (init : V) (log : list (lentry V Mx))
           (ops : list (op V)) (xs : list xobs) : list N :=
  let '(p, bs) := run rmodel solve jaccol (built np nout init log) ops in
  let '(code, prov) := cmp_all 0 bs xs in
  if (code =? 0)%N then
    if replay_clean (p_st p) then 0%N :: prov else 1%N :: prov
  else code :: prov.
