(* ProtoRun.v — executable instance of the protocol model for histories of caller-driven
   operations (C02, C09, C10, C18): scalars are bit patterns, matrices are tags (the index of the
   recorded model call that returned them), a cache is the tag of the basis matrix it was
   computed from, a Jacobian column is the tag of its derivative matrix. *)
From Coq Require Import List Bool Arith ZArith NArith.
Import ListNotations.
From VP Require Import Model.Protocol Model.Replay Exec.Common.

Definition V := list Z.
Definition veqb : V -> V -> bool := list_eqb Z.eqb.
(* a matrix: its tag and whether all its entries are finite (the weighted basis matrix is
   decomposed only if finite) *)
Definition Mx := (N * bool)%type.
Definition solve (_ _ : unit) (phi yw : Mx) : option N := if snd phi then Some (fst phi) else None.
Definition jaccol (_ : unit) (c : N) (d : Mx) : N := fst d.

Notation rmodel := (@replay_model V Mx veqb).
Notation problem := (problem Mx N unit unit (rstate V Mx)).

(* what the implementation showed for each operation *)
Inductive xobs :=
| XSet
| XObserve (params : V) (has_resid has_coef : bool)
| XJac (has : bool).

Definition fresh (np nout : nat) (init : V) (log : list (lentry V Mx)) (cached : option N) : problem :=
  {| p_st := {| r_log := log; r_cur := init; r_bad := false; r_np := np; r_nout := nout |};
     p_Yw := (0%N, true); p_eps := tt; p_w := tt; p_cached := cached |}.

(* the problem right after build(): one update at the model's own parameters *)
Definition built (np nout : nat) (init : V) (log : list (lentry V Mx)) : problem :=
  set_params rmodel solve (fresh np nout init log None) init.

(* compare one observation; result: (agreement, provenance tag + 1 or 0) *)
Definition cmp (b : obs V N N) (x : xobs) : bool * list N :=
  match b, x with
  | BSet, XSet => (true, [])
  | BObserve a c, XObserve a' hr hc =>
      (veqb a a' && Bool.eqb (is_some c) hr && Bool.eqb (is_some c) hc,
       [match c with Some t => (t + 1)%N | None => 0%N end])
  | BJac j, XJac h =>
      (Bool.eqb (is_some j) h,
       match j with Some cols => (1%N :: map (fun t => (t + 1)%N) cols) | None => [0%N] end)
  | _, _ => (false, [])
  end.

Fixpoint cmp_all (i : N) (bs : list (obs V N N)) (xs : list xobs) : N * list N :=
  match bs, xs with
  | [], [] => (0%N, [])
  | b :: br, x :: xr =>
      let '(ok, prov) := cmp b x in
      if ok then let '(code, rest) := cmp_all (i + 1) br xr in (code, prov ++ rest)
      else ((10 + i)%N, [])
  | _, _ => (5%N, [])
  end.

(* result: code :: provenance tags.  code 0 = agreement; 1 = the model's calls differ from the
   recorded protocol; 10+i = operation i shows something else *)
Definition proto_check (np nout : nat) (init : V) (log : list (lentry V Mx))
           (ops : list (op V)) (xs : list xobs) : list N :=
  let '(p, bs) := run rmodel solve jaccol (built np nout init log) ops in
  let '(code, prov) := cmp_all 0 bs xs in
  if (code =? 0)%N then
    if replay_clean (p_st p) then 0%N :: prov else 1%N :: prov
  else code :: prov.

(* ------------------------------------------------------------------------------------------ *)
(* fits: the recorded optimizer run as a script, replayed through Model/LMDriver.v *)
From VP Require Import Model.LMDriver.

Definition dec_true (_ _ : N) : bool := true.

Inductive xfit :=
| XFit (ok : bool) (term : reason) (evals : nat) (params : V) (has_resid has_coef : bool).

Definition reason_kind (r : reason) : N :=
  match r with
  | User => 1 | Numerical => 2 | ResidualsZero => 3 | Orthogonal => 4
  | Converged _ _ => 5 | NoImprovementPossible => 6 | LostPatience => 7
  | NoParameters => 8 | NoResiduals => 9 | WrongDimensions => 10
  end%N.
Definition reason_same (a b : reason) : bool :=
  match a, b with
  | Converged f x, Converged f' x' => Bool.eqb f f' && Bool.eqb x x'
  | _, _ => (reason_kind a =? reason_kind b)%N
  end.

(* result: [code; provenance tag + 1 of the final cache (0: absent); 1 if the reported objective
   belongs to the final parameters; updates; evaluations]
   code 0 = agreement, 1 = protocol mismatch, 2 = script exhausted, 3 = Ok/Err, 4 = termination,
   5 = evaluations, 6 = final parameters, 7 = presence of residuals/coefficients,
   10+i = pre-operation i *)
Definition fit_check (np nout : nat) (init : V) (log : list (lentry V Mx))
           (pre : list (op V)) (xs : list xobs) (script : list (choice V)) (x : xfit) : list N :=
  let '(p0, bs) := run rmodel solve jaccol (built np nout init log) pre in
  let '(code0, _) := cmp_all 0 bs xs in
  if negb (code0 =? 0)%N then [code0] else
  match fit rmodel solve jaccol dec_true script p0, x with
  | None, _ => [2%N]
  | Some fr, XFit ok term evals a hr hc =>
      let '(isok, p', r) := match fr with FitOk p' r => (true, p', r) | FitErr p' r => (false, p', r) end in
      let code :=
        first_code
          [ (Bool.eqb isok ok, 3); (reason_same (termination r) term, 4);
            (Nat.eqb (evaluations r) evals, 5); (veqb (params rmodel p') a, 6);
            (Bool.eqb (is_some (p_cached p')) hr && Bool.eqb (is_some (p_cached p')) hc, 7);
            (replay_clean (p_st p'), 1) ]%N in
      [ code;
        match p_cached p' with Some t => (t + 1)%N | None => 0%N end;
        match objective_at r with
        | Some xf => if veqb xf (params rmodel p') then 1%N else 0%N
        | None => 2%N end;
        N.of_nat (updates r); N.of_nat (evaluations r) ]
  end.
