(* C18Run.v — executable instance of the problem-builder model for the correspondence check.
   Scalars are IEEE bit patterns (Z); matrices are (rows, cols, tag). *)
From Coq Require Import List Bool Arith ZArith NArith.
Import ListNotations.
From VP Require Import Model.Protocol Model.ProblemBuilder Model.Replay Exec.Common.

Definition V := list Z.
Definition Mx := (nat * nat * N)%type.
Definition Wv := (nat * N)%type.
Definition veqb : V -> V -> bool := list_eqb Z.eqb.

Definition rows (m : Mx) : nat := fst (fst m).
Definition cols (m : Mx) : nat := snd (fst m).
Definition wlen (w : Wv) : nat := fst w.
(* the cache is "a function of the basis matrix it was computed from": keep its tag *)
Definition solve (w : option Wv) (e : Z) (phi yw : Mx) : option N := Some (snd phi).
Definition wmul (w : option Wv) (y : Mx) : Mx := y.

(* |.| and machine epsilon on bit patterns *)
Definition eabs (f64 : bool) (b : Z) : Z :=
  if f64 then Z.land b (2 ^ 63 - 1) else Z.land b (2 ^ 31 - 1).
Definition edefault (f64 : bool) : Z :=
  if f64 then 4372995238176751616%Z (* 0x3CB0000000000000 *) else 872415232%Z (* 0x34000000 *).

Inductive expected :=
| XErr (e : berr)
| XOk (params : V) (has_resid has_coef : bool) (eps : Z) (unit_w : bool).

Definition berr_eqb (a b : berr) : bool :=
  match a, b with
  | YDataMissing, YDataMissing => true
  | ZeroLengthVector, ZeroLengthVector => true
  | InvalidLengthOfData x y, InvalidLengthOfData x' y' => (x =? x') && (y =? y')
  | InvalidLengthOfWeights, InvalidLengthOfWeights => true
  | _, _ => false
  end.

Definition c18_build (f64 : bool) (nout np : nat) (init : V) (log : list (lentry V Mx))
           (bops : list (bop Mx Wv Z)) :=
  build_ops (replay_model veqb) solve rows cols wlen wmul (eabs f64) (edefault f64)
            {| r_log := log; r_cur := init; r_bad := false; r_np := np; r_nout := nout |} bops.

(* 0 = the implementation did what the model does; otherwise the first differing item *)
Definition c18_check (f64 : bool) (nout np : nat) (init : V) (log : list (lentry V Mx))
           (bops : list (bop Mx Wv Z)) (x : expected) : N :=
  match c18_build f64 nout np init log bops, x with
  | inl e, XErr e' => if berr_eqb e e' then 0 else 1
  | inr p, XOk a hr hc eps uw =>
      first_code
        [ (replay_clean (p_st p), 2); (veqb (params (replay_model veqb) p) a, 3);
          (Bool.eqb (is_some (p_cached p)) hr, 4); (Bool.eqb (is_some (p_cached p)) hc, 5);
          (Z.eqb (p_eps p) eps, 6);
          (Bool.eqb (negb (is_some (p_w p))) uw, 7) ]%N
  | inl _, XOk _ _ _ _ _ => 8
  | inr _, XErr _ => 9
  end%N.
