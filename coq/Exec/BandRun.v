(* executable view of Model/BandFloat.v for the correspondence run of C14: for the bit pattern of a probability, 0 when the
   documented assertion rejects it (the implementation must panic), otherwise 1 + the bit pattern of the binary64 quantile argument *)
From Coq Require Import ZArith NArith Bool.
From Flocq Require Import Core IEEE754.BinarySingleNaN IEEE754.Binary IEEE754.Bits.
From VP Require Import Model.BandFloat.

Definition band_arg64 (pbits : Z) : N :=
  let p := b64_of_bits pbits in
  if prob_ok64 p then N.succ (Z.to_N (bits_of_b64 (qarg64 p))) else 0%N.
Definition band_arg32 (pbits : Z) : N :=
  let p := b32_of_bits pbits in
  if prob_ok32 p then N.succ (Z.to_N (bits_of_b64 (qarg32 p))) else 0%N.
