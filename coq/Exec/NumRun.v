(* NumRun.v — the numeric specification instantiated with exact rationals (stdlib Qc with the
   MathComp structures of Base/QcField.v) for the correspondence checks of C01-C07, C12-C14. *)
From Coq Require Import ZArith QArith Qcanon NArith.
From mathcomp Require Import all_ssreflect all_algebra.
From VP Require Import Base.QcField Base.SeqMx Model.Numeric.

Definition F : realFieldType := [realFieldType of Qc].
Definition q (n : Z) (d : positive) : F := qmk n d.

Definition num_state (mode : nat) (cu2 floor2 k2max : F) (o : state_obs F) : N :=
  N.of_nat (check_state mode cu2 floor2 k2max o).

Definition num_stats (cu2 floor2 k2max : F) (n m p : nat) (w : option (seq F)) (Phi : smx F)
           (Ds : seq (smx F)) (y c : seq F) (o : stats_obs F) : N :=
  N.of_nat (check_stats cu2 floor2 k2max n m p w Phi Ds y c o).

Definition num_bestfit (cu2 floor2 : F) (n m : nat) (Phi C BF : smx F) : N :=
  N.of_nat (check_bestfit cu2 floor2 n m Phi C BF).

(* spec values for replay files *)
Definition show_q (x : F) : Z * positive := (Qnum (this x), Qden (this x)).
Definition show_coeffs n m w Phi Y : option (seq (seq (Z * positive))) :=
  if spec_coeffs n m w Phi Y is Some C then Some [seq [seq show_q x | x <- c] | c <- C] else None.
