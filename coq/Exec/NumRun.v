(* NumRun.v — the numeric specification instantiated with exact rationals (stdlib Qc with the
   MathComp structures of Base/QcField.v) for the correspondence checks of C01-C07, C12-C14. *)
From Coq Require Import ZArith QArith Qcanon NArith Qround.
From mathcomp Require Import all_ssreflect all_algebra.
From VP Require Import Base.QcField Base.SeqMx Model.Numeric.

Definition F : realFieldType := [realFieldType of Qc].
Definition q (n : Z) (d : positive) : F := qmk n d.

Definition num_state (mode : nat) (cu2 floor2 k2max eps2 : F) (o : state_obs F) : N :=
  N.of_nat (check_state mode cu2 floor2 k2max eps2 o).

Definition num_own_resid (cu2 floor2 : F) (o : state_obs F) : N := N.of_nat (check_own_resid cu2 floor2 o).

Definition num_rankdef (mode : nat) (cu2 floor2 k2max eps2 : F) (n m : nat) (w : option (seq F)) (Phi Y : smx F)
           (sel : seq nat) (C : smx F) (R : seq F) : N :=
  N.of_nat (check_rankdef mode cu2 floor2 k2max eps2 n m w Phi Y sel C R).

Definition num_stats (cu2 floor2 k2max : F) (n m p : nat) (w : option (seq F)) (Phi : smx F)
           (Ds : seq (smx F)) (y c : seq F) (o : stats_obs F) : N :=
  N.of_nat (check_stats cu2 floor2 k2max n m p w Phi Ds y c o).

Definition num_bestfit (cu2 floor2 : F) (n m : nat) (Phi C BF : smx F) : N :=
  N.of_nat (check_bestfit cu2 floor2 n m Phi C BF).

(* spec values for replay files *)
Definition show_q (x : F) : Z * positive := (Qnum (this x), Qden (this x)).
Definition show_coeffs n m w Phi Y : option (seq (seq (Z * positive))) :=
  if spec_coeffs n m w Phi Y is Some C then Some [seq [seq show_q x | x <- c] | c <- C] else None.

Definition num_svd (cu2 floor2 eps : F) (n m : nat) (w : option (seq F)) (Phi Y U : smx F) (sg : seq F) (Vt C : smx F) : N :=
  N.of_nat (check_svd cu2 floor2 eps n m w Phi Y U sg Vt C).

Definition num_jac_impl (cu2 floor2 : F) (n m : nat) (w : option (seq F)) (U : smx F) (Ds : seq (smx F)) (C J : smx F) : N :=
  N.of_nat (check_jac_impl cu2 floor2 n m w U Ds C J).

Definition num_band (cu2 floor2 : F) (n : nat) (t : F) (usigma radius : seq F) : N :=
  N.of_nat (check_band cu2 floor2 n t usigma radius).

(* diagnostics for replay files: floor(2^k * x) *)
Definition scaled (k : N) (x : F) : Z := Qfloor (this (x * qmk (2 ^ Z.of_N k) 1)%R).
Definition dbg_cov (cu2 floor2 k2max : F) (n m p : nat) (w : option (seq F)) (Phi : smx F)
           (Ds : seq (smx F)) (y c : seq F) (o : stats_obs F) : seq Z :=
  let q := (m + p)%N in
  let H := wscale w (mfj n Phi Ds c) in
  let G := sgram n H in
  let cov := sb_cov o in
  let r := sfro2 (ssub (smul q G cov) (sscale (sb_chi2 o) (sident F q))) in
  let d := (sfro2 G * sfro2 cov)%R in
  [:: scaled 120 (r / d)%R; scaled 120 (cu2 * (n * q)%N%:R)%R; scaled 20 (d / (sb_chi2 o * sb_chi2 o))%R ].

Definition dbg_rankdef (cu2 floor2 k2max eps2 : F) (n m : nat) (w : option (seq F)) (Phi Y : smx F)
           (sel : seq nat) (Cimpl : smx F) (Rimpl : seq F) : seq Z :=
  let A := wscale w Phi in
  let B := wscale w Y in
  match spec_minnorm n m A B sel with
  | None => [:: Z.opp (Zpos xH)]
  | Some mn =>
      let t2 := tol2_solve cu2 n m (mn_k2 mn) in
      [:: scaled 120 (svnrm2 (svsub (flatten Cimpl) (flatten (mn_C mn)))); scaled 120 (t2 * svnrm2 (flatten (mn_C mn)))%R;
          scaled 10 (mn_k2 mn); scaled 10 (mn_smin2inv mn) ]
         ++ [seq scaled 40 x | x <- flatten (mn_C mn)]
  end.
