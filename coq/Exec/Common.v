(* Common.v — executable helpers shared by the correspondence runs *)
From Coq Require Import List Bool Arith ZArith NArith.
Import ListNotations.
Set Implicit Arguments.

Fixpoint list_eqb {A : Type} (eqb : A -> A -> bool) (l l' : list A) : bool :=
  match l, l' with
  | [], [] => true
  | x :: r, y :: r' => eqb x y && list_eqb eqb r r'
  | _, _ => false
  end.

Definition is_some {A : Type} (o : option A) : bool := match o with Some _ => true | None => false end.

Definition option_eqb {A : Type} (eqb : A -> A -> bool) (o o' : option A) : bool :=
  match o, o' with
  | Some x, Some y => eqb x y
  | None, None => true
  | _, _ => false
  end.

(* first non-zero code *)
Fixpoint first_code (l : list (bool * N)) : N :=
  match l with
  | [] => 0%N
  | (ok, c) :: r => if ok then first_code r else c
  end.
