(* GENERATED on every run by orchestrator/translator.py from src/basis_function/detail.rs — do not edit *)
From Coq Require Import List Arith.
Import ListNotations.
(* (ARGUMENT_COUNT, slice indices passed to the closure in argument order) per impl *)
Definition dispatch_table : list (nat * list nat) := [(1, [0]); (2, [0; 1]); (3, [0; 1; 2]); (4, [0; 1; 2; 3]); (5, [0; 1; 2; 3; 4]); (6, [0; 1; 2; 3; 4; 5]); (7, [0; 1; 2; 3; 4; 5; 6]); (8, [0; 1; 2; 3; 4; 5; 6; 7]); (9, [0; 1; 2; 3; 4; 5; 6; 7; 8]); (10, [0; 1; 2; 3; 4; 5; 6; 7; 8; 9])].
(* whether the macro body / count_args! still have the recognised shape *)
Definition dispatch_shape_recognised : bool := true.
