(* proofs about the optimizer driver and fit (properties C04, C09 fit clauses) *)
From Coq Require Import List Bool Arith Lia String.
Import ListNotations.
From VP Require Import Model.Protocol Model.LMDriver Proofs.ProtocolP Gen.Termination.
Set Implicit Arguments.

(* ---------- the success table of the linked optimizer crate (regenerated on every run) ---------- *)
Definition reason_of_name (s : string) : option reason :=
  if String.eqb s "User" then Some User
  else if String.eqb s "Numerical" then Some Numerical
  else if String.eqb s "ResidualsZero" then Some ResidualsZero
  else if String.eqb s "Orthogonal" then Some Orthogonal
  else if String.eqb s "Converged_ff" then Some (Converged false false)
  else if String.eqb s "Converged_tf" then Some (Converged true false)
  else if String.eqb s "Converged_ft" then Some (Converged false true)
  else if String.eqb s "Converged_tt" then Some (Converged true true)
  else if String.eqb s "NoImprovementPossible" then Some NoImprovementPossible
  else if String.eqb s "LostPatience" then Some LostPatience
  else if String.eqb s "NoParameters" then Some NoParameters
  else if String.eqb s "NoResiduals" then Some NoResiduals
  else if String.eqb s "WrongDimensions" then Some WrongDimensions
  else None.

Definition table_agrees (t : list (string * bool)) : bool :=
  forallb (fun nb => match reason_of_name (fst nb) with
                     | Some r => Bool.eqb (successful r) (snd nb)
                     | None => false end) t.

Definition all_reasons : list reason :=
  [User; Numerical; ResidualsZero; Orthogonal; Converged false false; Converged true false;
   Converged false true; Converged true true; NoImprovementPossible; LostPatience; NoParameters;
   NoResiduals; WrongDimensions].

Definition reason_eqb (a b : reason) : bool :=
  match a, b with
  | User, User | Numerical, Numerical | ResidualsZero, ResidualsZero | Orthogonal, Orthogonal
  | NoImprovementPossible, NoImprovementPossible | LostPatience, LostPatience
  | NoParameters, NoParameters | NoResiduals, NoResiduals | WrongDimensions, WrongDimensions => true
  | Converged f x, Converged f' x' => Bool.eqb f f' && Bool.eqb x x'
  | _, _ => false
  end.

(* every constructor of the crate's TerminationReason is in the table, and the model's
   [successful] is the crate's was_successful on each *)
Theorem successful_is_was_successful :
  table_agrees termination_table = true /\
  forallb (fun r => existsb (fun nb => match reason_of_name (fst nb) with
                                       | Some r' => reason_eqb r r' | None => false end)
                            termination_table) all_reasons = true.
Proof. vm_compute. split; reflexivity. Qed.

Lemma all_reasons_complete r : In r all_reasons.
Proof. destruct r as [| | | |[|] [|]| | | | |]; cbn; tauto. Qed.

Section DriverP.
  Variables V Mx Cache Col W E St : Type.
  Variable um : umodel V Mx St.
  Variable solve : W -> E -> Mx -> Mx -> option Cache.
  Variable jaccol : W -> Cache -> Mx -> Col.
  Variable dec : Cache -> Cache -> bool.
  Notation problem := (problem Mx Cache W E St).
  Notation set_params := (@set_params V Mx Cache W E St um solve).
  Notation jacobian := (@jacobian V Mx Cache Col W E St um jaccol).
  Notation params := (@params V Mx Cache W E St um).
  Notation drive := (@drive V Mx Cache Col W E St um solve jaccol dec).
  Notation minimize := (@minimize V Mx Cache Col W E St um solve jaccol dec).
  Notation fit := (@fit V Mx Cache Col W E St um solve jaccol dec).
  Notation report := (report V Cache).

  (* ---- fit reports success truthfully and always hands back problem and report ---- *)
  Theorem fit_ok_iff script (p p' : problem) (r : report) :
    fit script p = Some (FitOk p' r) <->
    minimize script p = Some (p', r) /\ successful (termination r) = true.
  Proof.
    unfold LMDriver.fit. destruct (minimize script p) as [[q rq]|].
    - destruct (successful (termination rq)) eqn:Hs; split.
      + intros H; inversion H; subst. auto.
      + intros [H _]; inversion H; subst. reflexivity.
      + discriminate.
      + intros [H Hs']; inversion H; subst. rewrite Hs in Hs'. discriminate.
    - split; [discriminate|intros [H _]; discriminate].
  Qed.

  Theorem fit_err_iff script (p p' : problem) (r : report) :
    fit script p = Some (FitErr p' r) <->
    minimize script p = Some (p', r) /\ successful (termination r) = false.
  Proof.
    unfold LMDriver.fit. destruct (minimize script p) as [[q rq]|].
    - destruct (successful (termination rq)) eqn:Hs; split.
      + discriminate.
      + intros [H Hs']; inversion H; subst. rewrite Hs in Hs'. discriminate.
      + intros H; inversion H; subst. auto.
      + intros [H _]; inversion H; subst. reflexivity.
    - split; [discriminate|intros [H _]; discriminate].
  Qed.

  Theorem fit_total script (p : problem) :
    minimize script p <> None -> exists p' r, fit script p = Some (FitOk p' r) \/ fit script p = Some (FitErr p' r).
  Proof.
    unfold LMDriver.fit. destruct (minimize script p) as [[q rq]|]; [|tauto].
    intros _. exists q, rq. destruct (successful (termination rq)); auto.
  Qed.

  (* ---- counters ---- *)
  Definition is_trial (c : choice V) : bool := match c with CTrial _ _ _ => true | _ => false end.
  Definition count_trials (s : list (choice V)) : nat := List.length (filter is_trial s).

  Lemma drive_counters script ph (p : problem) x cx evals ups ok p' (r : report) :
    drive script ph p x cx evals ups ok = Some (p', r) ->
    evals <= evaluations r <= evals + count_trials script /\
    (ups < evals -> updates r <= evaluations r).
  Proof.
    revert ph p x cx evals ups ok. induction script as [|c rest IH]; intros ph p x cx evals ups ok;
      cbn [LMDriver.drive].
    - destruct ph; [destruct (jacobian p) as [p1 [j|]]|]; cbn [negb]; try discriminate;
        intros H; inversion H; subst; cbn; unfold count_trials; cbn; split; lia.
    - set (pj := match ph with
                 | NeedJacobian => let '(p1, j) := jacobian p in
                                   (p1, match j with Some _ => true | None => false end)
                 | InTrials => (p, true) end).
      destruct pj as [p0 jac_ok]. destruct jac_ok; cbn [negb].
      2:{ intros H; inversion H; subst; cbn. unfold count_trials. split; lia. }
      destruct c as [|r0|a good stop].
      + discriminate.
      + intros H; inversion H; subst; cbn. unfold count_trials; cbn. split; lia.
      + unfold count_trials; cbn [filter is_trial List.length].
        destruct (p_cached (set_params p0 a)) as [c1|].
        2:{ intros H; inversion H; subst; cbn. split; lia. }
        destruct stop as [r0|].
        * intros H; inversion H; subst; cbn. destruct good; split; lia.
        * intros H. apply IH in H. unfold count_trials in H. destruct H as [H1 H2]. split; [lia|].
          intros Hu. apply H2. lia.
  Qed.

  (* the evaluation budget: at most one evaluation per trial plus the initial one, and the
     optimizer never updates the model more often than it reports evaluations *)
  Theorem minimize_budget script (p p' : problem) (r : report) :
    minimize script p = Some (p', r) ->
    1 <= evaluations r <= 1 + count_trials script /\ updates r <= evaluations r.
  Proof.
    unfold LMDriver.minimize. destruct (p_cached p) as [c|].
    - destruct script as [|[|r0|a good stop] rest].
      + intros H. apply drive_counters in H. cbn in H. lia.
      + intros H. apply drive_counters in H. unfold count_trials in *. cbn in *. lia.
      + intros H; inversion H; subst; cbn. unfold count_trials; cbn. lia.
      + intros H. apply drive_counters in H. lia.
    - intros H; inversion H; subst; cbn. lia.
  Qed.

  (* ---- final state ---- *)
  Section WithContract.
    Variables (Phi : V -> Mx) (D : nat -> V -> Mx).
    Hypothesis FF : faulty_functional um Phi D.
    (* an order on objective values, through a measure of the cached state *)
    Variables (T : Type) (le : T -> T -> Prop) (measure : Cache -> T).
    Hypothesis le_refl : forall t, le t t.
    Hypothesis le_trans : forall a b c, le a b -> le b c -> le a c.
    Hypothesis dec_le : forall c' c, dec c' c = true -> le (measure c') (measure c).

    Notation coherent := (@coherent V Mx Cache W E St um solve Phi).

    Definition belongs (p : problem) (x : V) (cx : Cache) : Prop :=
      Some cx = solve (p_w p) (p_eps p) (Phi x) (p_Yw p).

    (* what every run of the driver guarantees at the end *)
    Definition post (p0 : problem) (c0 : Cache) (ok0 : bool) (p' : problem) (r : report) : Prop :=
      coherent p' /\
      p_Yw p' = p_Yw p0 /\ p_eps p' = p_eps p0 /\ p_w p' = p_w p0 /\
      (exists xf cf, objective_at r = Some xf /\ objective_cache r = Some cf /\ belongs p0 xf cf /\
         (decreased r = true -> ok0 = true /\ le (measure cf) (measure c0)) /\
         (successful (termination r) = true -> forall c, p_cached p' = Some c ->
            params p' = xf /\ c = cf)).

    Lemma jacobian_params (p : problem) : params (fst (jacobian p)) = params p.
    Proof.
      unfold Protocol.jacobian, Protocol.params. destruct (p_cached p) as [c|]; [|reflexivity].
      destruct (jac_cols um jaccol (p_st p) (p_w p) c 0 (um_nparams um (p_st p))) as [st1 j] eqn:Hj.
      cbn. eapply jac_cols_params; eassumption.
    Qed.

    Ltac frame_goals HY HE HW := split; [congruence|]; split; [congruence|]; split; [congruence|].

    Lemma drive_post script ph (p : problem) x cx evals ups ok p' (r : report) (c0 : Cache) :
      coherent p -> belongs p x cx ->
      (ph = NeedJacobian -> params p = x /\ p_cached p = Some cx) ->
      (ok = true -> le (measure cx) (measure c0)) ->
      drive script ph p x cx evals ups ok = Some (p', r) ->
      post p c0 ok p' r.
    Proof.
      revert ph p x cx evals ups ok. induction script as [|ch rest IH];
        intros ph p x cx evals ups ok Hco Hb Hph Hok; cbn [LMDriver.drive].
      - (* empty script: only a failing Jacobian ends the run *)
        destruct ph; [|cbn; discriminate].
        destruct (jacobian p) as [p1 j] eqn:Hj. destruct j as [j|]; cbn [negb]; [discriminate|].
        intros H; inversion H; subst; clear H.
        pose proof (coherent_jacobian jaccol FF Hco) as Hc1. rewrite Hj in Hc1. cbn in Hc1.
        destruct (jacobian_frame um jaccol p) as (A & B & C & _). rewrite Hj in A, B, C. cbn in A, B, C.
        split; [exact Hc1|]. split; [exact A|]. split; [exact B|]. split; [exact C|].
        exists x, cx. cbn. split; [reflexivity|]. split; [reflexivity|]. split; [exact Hb|].
        split; [intros ->; split; [reflexivity|apply Hok; reflexivity] | discriminate].
      - assert (Hpre : exists p0 jac_ok,
                 match ph with
                 | NeedJacobian => let '(p1, j) := jacobian p in
                                   (p1, match j with Some _ => true | None => false end)
                 | InTrials => (p, true) end = (p0, jac_ok) /\
                 coherent p0 /\ p_Yw p0 = p_Yw p /\ p_eps p0 = p_eps p /\ p_w p0 = p_w p /\
                 (ph = NeedJacobian -> params p0 = x /\ p_cached p0 = Some cx)).
        { destruct ph.
          - destruct (jacobian p) as [p1 j] eqn:Hj. eexists _, _. split; [reflexivity|].
            pose proof (coherent_jacobian jaccol FF Hco) as Hc1. rewrite Hj in Hc1. cbn in Hc1.
            destruct (jacobian_frame um jaccol p) as (A & B & C & Dd). rewrite Hj in A, B, C, Dd. cbn in A, B, C, Dd.
            pose proof (jacobian_params p) as Hp. rewrite Hj in Hp. cbn in Hp.
            destruct (Hph eq_refl) as [Hx Hc].
            split; [exact Hc1|]. split; [exact A|]. split; [exact B|]. split; [exact C|].
            intros _. split; congruence.
          - eexists _, _. split; [reflexivity|].
            split; [exact Hco|]. split; [reflexivity|]. split; [reflexivity|]. split; [reflexivity|].
            discriminate. }
        destruct Hpre as (p0 & jac_ok & -> & Hco0 & HY & HE & HW & Hph0).
        assert (Hb0 : belongs p0 x cx) by (unfold belongs in *; rewrite HY, HE, HW; exact Hb).
        destruct jac_ok; cbn [negb].
        2:{ intros H; inversion H; subst; clear H.
            split; [exact Hco0|]. split; [exact HY|]. split; [exact HE|]. split; [exact HW|].
            exists x, cx. cbn. split; [reflexivity|]. split; [reflexivity|]. split; [exact Hb|].
            split; [intros ->; split; [reflexivity|apply Hok; reflexivity] | discriminate]. }
        destruct ch as [|r0|a good stop].
        + discriminate.
        + (* stop without touching the problem *)
          intros H; inversion H; subst; clear H.
          split; [exact Hco0|]. split; [exact HY|]. split; [exact HE|]. split; [exact HW|].
          exists x, cx. cbn. split; [reflexivity|]. split; [reflexivity|]. split; [exact Hb|].
          split; [intros ->; split; [reflexivity|apply Hok; reflexivity] |].
          intros Hs c Hc. destruct ph.
          * destruct (Hph0 eq_refl) as [Hx Hcx]. rewrite Hcx in Hc. inversion Hc; subst. auto.
          * cbn in Hs. discriminate.
        + (* a trial *)
          destruct (set_params_frame um solve p0 a) as (HY1 & HE1 & HW1).
          pose proof (coherent_set_params solve FF p0 a) as Hco1.
          destruct (p_cached (set_params p0 a)) as [c1|] eqn:Hc1.
          2:{ intros H; inversion H; subst; clear H.
              split; [exact Hco1|]. frame_goals HY HE HW.
              exists x, cx. cbn. split; [reflexivity|]. split; [reflexivity|]. split; [exact Hb|].
              split; [intros ->; split; [reflexivity|apply Hok; reflexivity] | discriminate]. }
          destruct (coherent_after_set solve FF _ _ Hc1) as [Hpa Hca].
          assert (Hba : belongs p a c1).
          { unfold belongs. rewrite <- HY, <- HE, <- HW. exact Hca. }
          destruct stop as [r0|].
          * intros H; inversion H; subst; clear H. destruct good.
            -- (* accepted and stop *)
               split; [exact Hco1|]. frame_goals HY HE HW.
               exists a, c1. cbn. split; [reflexivity|]. split; [reflexivity|]. split; [exact Hba|].
               split.
               ++ intros Hd. apply andb_prop in Hd. destruct Hd as [Ho Hd]. split; [exact Ho|].
                  eapply le_trans; [apply dec_le; exact Hd | apply Hok; exact Ho].
               ++ intros _ c Hc. rewrite Hc1 in Hc. inversion Hc; subst. auto.
            -- (* rejected and stop: the accepted parameters are re-applied *)
               destruct (set_params_frame um solve (set_params p0 a) x) as (HY2 & HE2 & HW2).
               split; [apply (coherent_set_params solve FF)|]. frame_goals HY HE HW.
               exists x, cx. cbn. split; [reflexivity|]. split; [reflexivity|]. split; [exact Hb|].
               split; [intros ->; split; [reflexivity|apply Hok; reflexivity] |].
               intros _ c Hc. destruct (coherent_after_set solve FF _ _ Hc) as [Hpx Hcx].
               split; [exact Hpx|].
               rewrite HY1, HE1, HW1 in Hcx. unfold belongs in Hb0. rewrite <- Hb0 in Hcx.
               inversion Hcx; reflexivity.
          * (* continue *)
            intros H.
            assert (Hrec : post (set_params p0 a) c0 (if good then ok && dec c1 cx else ok) p' r).
            { eapply IH; [exact Hco1 | | | | exact H].
              - unfold belongs. rewrite HY1, HE1, HW1. destruct good; [exact Hca | exact Hb0].
              - destruct good; [intros _; auto | discriminate].
              - destruct good.
                + intros Hd. apply andb_prop in Hd. destruct Hd as [Ho Hd].
                  eapply le_trans; [apply dec_le; exact Hd | apply Hok; exact Ho].
                + exact Hok. }
            destruct Hrec as (R1 & R2 & R3 & R4 & xf & cf & O1 & O2 & O3 & O4 & O5).
            split; [exact R1|]. frame_goals HY HE HW.
            exists xf, cf. split; [exact O1|]. split; [exact O2|]. split.
            { unfold belongs in *. rewrite <- HY, <- HE, <- HW, <- HY1, <- HE1, <- HW1. exact O3. }
            split; [|exact O5].
            intros Hd. destruct (O4 Hd) as [Ho Hl]. split; [|exact Hl].
            destruct good; [apply andb_prop in Ho; tauto | exact Ho].
    Qed.

    (* C04: the final state of every run, for every script of accepted and rejected steps *)
    Theorem minimize_post script (p p' : problem) (r : report) c0 :
      coherent p -> p_cached p = Some c0 ->
      minimize script p = Some (p', r) ->
      post p c0 true p' r.
    Proof.
      intros Hco Hc0. unfold LMDriver.minimize. rewrite Hc0.
      assert (Hb : belongs p (params p) c0). { unfold belongs. apply Hco. exact Hc0. }
      destruct script as [|[|r0|a good stop] rest].
      - intros H. eapply drive_post; eauto.
      - intros H. eapply drive_post; eauto.
      - intros H; inversion H; subst; clear H.
        split; [exact Hco|]. split; [reflexivity|]. split; [reflexivity|]. split; [reflexivity|].
        eexists _, c0. cbn. split; [reflexivity|]. split; [reflexivity|]. split; [exact Hb|].
        split; [intros _; split; [reflexivity|apply le_refl] |].
        intros _ c Hc. rewrite Hc0 in Hc. inversion Hc; auto.
      - intros H. eapply drive_post; eauto.
    Qed.
  End WithContract.

  (* C09 (fit clause): when the optimizer meets absent residuals or an absent Jacobian the run
     ends with termination User (hence fit = Err), handing back the state at that moment *)
  Theorem user_failure_is_err script (p p' : problem) (r : report) :
    minimize script p = Some (p', r) -> termination r = User -> successful (termination r) = false.
  Proof. intros _ ->. reflexivity. Qed.

  Theorem absent_at_start script (p : problem) :
    p_cached p = None ->
    exists r, minimize script p = Some (p, r) /\ termination r = User /\ evaluations r = 1.
  Proof. intros H. unfold LMDriver.minimize. rewrite H. eexists; repeat split. Qed.
End DriverP.
