(* MinNormP.v : the rank-deficient specification spec_minnorm (Model/Numeric.v) returns THE
   minimum-norm least-squares solution: whenever it answers [Some mn], the matrix [mn_C mn]
   is well formed, satisfies the normal equations of the full matrix, lies in the row space
   of A, hence (Base/LinAlg.v: ls_opt, ls_min_norm, ls_min_norm_unique) every column is a
   minimiser of the residual, of minimum norm among all minimisers, and the unique such. *)
From mathcomp Require Import all_ssreflect all_algebra.
From VP Require Import Base.LinAlg Base.SeqMx Base.Refine Model.Numeric Proofs.NumericP.
Set Implicit Arguments. Unset Strict Implicit. Unset Printing Implicit Defensive.
Import Order.TTheory GRing.Theory Num.Theory.
Local Open Scope ring_scope.

Section MinNormP.
Variable F : realFieldType.
Implicit Types (A B C Phi Y X : smx F) (sel : seq nat) (w : option (seq F)).
Implicit Types (n m s : nat).

(* ------------------------------------------------------------ selected columns *)

Lemma size_sel_cols A sel : size (sel_cols A sel) = size sel.
Proof. by rewrite /sel_cols size_map. Qed.

Lemma wf_sel_cols n m A sel :
  wf n m A -> all (fun j => (j < m)%N) sel -> wf n (size sel) (sel_cols A sel).
Proof.
move=> hA hsel; rewrite /wf size_sel_cols eqxx /=.
rewrite /sel_cols all_map; apply: sub_all hsel => j lt_jm /=.
by rewrite (wf_size_col hA lt_jm).
Qed.

(* ------------------------------------------------------------ unpacking the checks *)

Lemma spec_minnormP n m A B sel mn :
  spec_minnorm n m A B sel = Some mn ->
  exists X Xd,
    let r := size sel in
    let Bm := sel_cols A sel in
    let D := smul r X (smul r (strans n Bm) A) in
    [/\ inv_cert r (sgram n Bm) = Some X,
        smul n Bm D = A,
        inv_cert r (smul r D (strans r D)) = Some Xd,
        mn_C mn = smul m (strans r D) (smul r Xd (smul r X (smul r (strans n Bm) B)))
      & smul m (strans n A) (ssub B (smul n A (mn_C mn))) = szero F m (size B)].
Proof.
rewrite /spec_minnorm; cbv zeta.
case eX: (inv_cert _ _) => [X|] //.
case: eqP => //= eA.
case eXd: (inv_cert _ _) => [Xd|] //.
case: eqP => //= eN [<-] /=.
by exists X, Xd; split.
Qed.

(* ------------------------------------------------------------ the theorems *)

Section Fixed.
Variables (n m s : nat) (A B : smx F) (sel : seq nat).
Hypothesis hA : wf n m A.
Hypothesis hB : wf n s B.
Hypothesis hsel : all (fun j => (j < m)%N) sel.

Notation r := (size sel).
Notation Am := (mx_of n m A).
Notation Bx := (mx_of n s B).

(* everything the later proofs need, at the level of MathComp matrices *)
Lemma spec_minnorm_facts mn :
  spec_minnorm n m A B sel = Some mn ->
  exists (Bm : 'M[F]_(n, r)) (X : 'M[F]_r) (W : 'M[F]_(r, s)),
    [/\ wf m s (mn_C mn),
        (Bm^T *m Bm) *m X = 1%:M,
        Am = Bm *m (X *m (Bm^T *m Am)),
        mx_of m s (mn_C mn) = (X *m (Bm^T *m Am))^T *m W
      & Am^T *m (Bx - Am *m mx_of m s (mn_C mn)) = 0].
Proof.
move=> /spec_minnormP [X [Xd]]; cbv zeta.
set Bs := sel_cols A sel.
set D := smul r X (smul r (strans n Bs) A).
move=> [eX eA eXd eC eN].
have hBs : wf n r Bs := wf_sel_cols hA hsel.
have hG : wf r r (sgram n Bs) := wf_sgram hBs.
have [hX _ _] := inv_cert_sound hG eX.
have [GX _] := inv_cert_mulV hG eX.
have hBt : wf r n (strans n Bs) := wf_strans hBs.
have hBtA : wf r m (smul r (strans n Bs) A) := wf_smul hBt hA.
have hD : wf r m D := wf_smul hX hBtA.
have hDt : wf m r (strans r D) := wf_strans hD.
have hDD : wf r r (smul r D (strans r D)) := wf_smul hD hDt.
have [hXd _ _] := inv_cert_sound hDD eXd.
have hBtB : wf r s (smul r (strans n Bs) B) := wf_smul hBt hB.
have hXB : wf r s (smul r X (smul r (strans n Bs) B)) := wf_smul hX hBtB.
have hW : wf r s (smul r Xd (smul r X (smul r (strans n Bs) B))) := wf_smul hXd hXB.
have hC : wf m s (mn_C mn) by rewrite eC; exact: wf_smul hDt hW.
have eD : mx_of r m D = mx_of r r X *m ((mx_of n r Bs)^T *m Am).
  by rewrite /D (mx_of_smul hX hBtA) (mx_of_smul hBt hA) (mx_of_strans hBs).
exists (mx_of n r Bs), (mx_of r r X),
       (mx_of r s (smul r Xd (smul r X (smul r (strans n Bs) B)))).
split=> //.
- by rewrite -(mx_of_sgram hBs).
- by rewrite -eD -(mx_of_smul hBs hD) eA.
- by rewrite {1}eC (mx_of_smul hDt hW) (mx_of_strans hD) eD.
have hAt : wf m n (strans n A) := wf_strans hA.
have hAC : wf n s (smul n A (mn_C mn)) := wf_smul hA hC.
have hR : wf n s (ssub B (smul n A (mn_C mn))) := wf_ssub hB hAC.
rewrite -(mx_of_smul hA hC) -(mx_of_ssub hB hAC) -(mx_of_strans hA).
by rewrite -(mx_of_smul hAt hR) eN (wf_size hB) mx_of_szero.
Qed.

Theorem spec_minnorm_wf mn :
  spec_minnorm n m A B sel = Some mn -> wf m s (mn_C mn).
Proof. by move=> /spec_minnorm_facts [Bm [X [W []]]]. Qed.

Theorem spec_minnorm_normal mn :
  spec_minnorm n m A B sel = Some mn ->
  Am^T *m (Bx - Am *m mx_of m s (mn_C mn)) = 0.
Proof. by move=> /spec_minnorm_facts [Bm [X [W []]]]. Qed.

Theorem spec_minnorm_rowspace mn :
  spec_minnorm n m A B sel = Some mn ->
  exists Z : 'M[F]_(n, s), mx_of m s (mn_C mn) = Am^T *m Z.
Proof.
move=> /spec_minnorm_facts [Bm [X [W [_ GX eA eC _]]]].
exists (Bm *m (X *m W)).
set D := X *m (Bm^T *m Am) in eA eC.
have -> : Am^T = D^T *m Bm^T by rewrite {1}eA trmx_mul.
have eW : Bm^T *m (Bm *m (X *m W)) = W by rewrite mulmxA (mulmxA _ X) GX mul1mx.
by rewrite -(mulmxA D^T) eW.
Qed.

Lemma spec_minnorm_rowspace_col mn (j : 'I_s) :
  spec_minnorm n m A B sel = Some mn ->
  exists z : 'cV[F]_n, col j (mx_of m s (mn_C mn)) = Am^T *m z.
Proof.
by move=> /spec_minnorm_rowspace [Z ->]; exists (col j Z); rewrite col_mul.
Qed.

Lemma spec_minnorm_normal_col mn (j : 'I_s) :
  spec_minnorm n m A B sel = Some mn ->
  Am^T *m (col j Bx - Am *m col j (mx_of m s (mn_C mn))) = 0.
Proof.
by move=> /spec_minnorm_normal e; rewrite -col_mul -colB -col_mul e col0.
Qed.

(* every column of C minimises the residual *)
Theorem spec_minnorm_opt mn (j : 'I_s) (c' : 'cV[F]_m) :
  spec_minnorm n m A B sel = Some mn ->
  nrm2 (col j Bx - Am *m col j (mx_of m s (mn_C mn)))
    <= nrm2 (col j Bx - Am *m c').
Proof. by move=> /spec_minnorm_normal e; exact: ls_opt_cols. Qed.

(* ... and has minimum norm among all minimisers (= solutions of the normal equations) *)
Theorem spec_minnorm_min mn (j : 'I_s) (c' : 'cV[F]_m) :
  spec_minnorm n m A B sel = Some mn ->
  Am^T *m (col j Bx - Am *m c') = 0 ->
  nrm2 (col j (mx_of m s (mn_C mn))) <= nrm2 c'.
Proof.
move=> e n2.
exact: (ls_min_norm (spec_minnorm_normal_col j e) n2 (spec_minnorm_rowspace_col j e)).
Qed.

(* ... and is the only minimiser of that norm *)
Theorem spec_minnorm_min_unique mn (j : 'I_s) (c' : 'cV[F]_m) :
  spec_minnorm n m A B sel = Some mn ->
  Am^T *m (col j Bx - Am *m c') = 0 ->
  nrm2 c' <= nrm2 (col j (mx_of m s (mn_C mn))) ->
  c' = col j (mx_of m s (mn_C mn)).
Proof.
move=> e n2.
exact: (ls_min_norm_unique (spec_minnorm_normal_col j e) n2 (spec_minnorm_rowspace_col j e)).
Qed.

(* a minimiser of the residual satisfies the normal equations (ls_opt_conv), so the
   minimum-norm statements may also be read over minimisers; not needed here *)

End Fixed.

(* ------------------------------------------------------------ the weighted instance *)

Section Weighted.
Variables (n m s : nat) (w : option (seq F)) (Phi Y : smx F) (sel : seq nat).
Hypothesis hw : wok n w.
Hypothesis hPhi : wf n m Phi.
Hypothesis hY : wf n s Y.
Hypothesis hsel : all (fun j => (j < m)%N) sel.

Notation WA := (Wm n w *m mx_of n m Phi).
Notation WB := (Wm n w *m mx_of n s Y).

Let hA : wf n m (wscale w Phi) := wf_wscale hw hPhi.
Let hB : wf n s (wscale w Y) := wf_wscale hw hY.

Theorem spec_minnorm_w_wf mn :
  spec_minnorm n m (wscale w Phi) (wscale w Y) sel = Some mn -> wf m s (mn_C mn).
Proof. exact: spec_minnorm_wf hA hB hsel _. Qed.

Theorem spec_minnorm_w_normal mn :
  spec_minnorm n m (wscale w Phi) (wscale w Y) sel = Some mn ->
  WA^T *m (WB - WA *m mx_of m s (mn_C mn)) = 0.
Proof.
move=> /(spec_minnorm_normal hA hB hsel).
by rewrite !(mx_of_wscale hw).
Qed.

Theorem spec_minnorm_w_rowspace mn :
  spec_minnorm n m (wscale w Phi) (wscale w Y) sel = Some mn ->
  exists Z : 'M[F]_(n, s), mx_of m s (mn_C mn) = WA^T *m Z.
Proof.
move=> /(spec_minnorm_rowspace hA hB hsel).
by rewrite !(mx_of_wscale hw).
Qed.

Theorem spec_minnorm_w_opt mn (j : 'I_s) (c' : 'cV[F]_m) :
  spec_minnorm n m (wscale w Phi) (wscale w Y) sel = Some mn ->
  nrm2 (col j WB - WA *m col j (mx_of m s (mn_C mn)))
    <= nrm2 (col j WB - WA *m c').
Proof.
move=> /(spec_minnorm_opt hA hB hsel j c').
by rewrite !(mx_of_wscale hw).
Qed.

Theorem spec_minnorm_w_min mn (j : 'I_s) (c' : 'cV[F]_m) :
  spec_minnorm n m (wscale w Phi) (wscale w Y) sel = Some mn ->
  WA^T *m (col j WB - WA *m c') = 0 ->
  nrm2 (col j (mx_of m s (mn_C mn))) <= nrm2 c'.
Proof.
move=> /(spec_minnorm_min hA hB hsel (j := j) (c' := c')).
by rewrite !(mx_of_wscale hw).
Qed.

Theorem spec_minnorm_w_min_unique mn (j : 'I_s) (c' : 'cV[F]_m) :
  spec_minnorm n m (wscale w Phi) (wscale w Y) sel = Some mn ->
  WA^T *m (col j WB - WA *m c') = 0 ->
  nrm2 c' <= nrm2 (col j (mx_of m s (mn_C mn))) ->
  c' = col j (mx_of m s (mn_C mn)).
Proof.
move=> /(spec_minnorm_min_unique hA hB hsel (j := j) (c' := c')).
by rewrite !(mx_of_wscale hw).
Qed.

End Weighted.
End MinNormP.

Check spec_minnorm_wf.
Check spec_minnorm_normal.
Check spec_minnorm_rowspace.
Check spec_minnorm_opt.
Check spec_minnorm_min.
Check spec_minnorm_min_unique.
Check spec_minnorm_w_wf.
Check spec_minnorm_w_normal.
Check spec_minnorm_w_rowspace.
Check spec_minnorm_w_opt.
Check spec_minnorm_w_min.
Check spec_minnorm_w_min_unique.

Print Assumptions spec_minnorm_wf.
Print Assumptions spec_minnorm_normal.
Print Assumptions spec_minnorm_rowspace.
Print Assumptions spec_minnorm_opt.
Print Assumptions spec_minnorm_min.
Print Assumptions spec_minnorm_min_unique.
Print Assumptions spec_minnorm_w_wf.
Print Assumptions spec_minnorm_w_normal.
Print Assumptions spec_minnorm_w_rowspace.
Print Assumptions spec_minnorm_w_opt.
Print Assumptions spec_minnorm_w_min.
Print Assumptions spec_minnorm_w_min_unique.
