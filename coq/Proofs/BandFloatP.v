(* Proofs about the floating-point step (p + 1.) / 2. modelled in Model/BandFloat.v. *)
From Coq Require Import ZArith Reals Bool Lra Lia.
From Flocq Require Import Core Mult_error IEEE754.BinarySingleNaN IEEE754.Binary IEEE754.Bits.
From VP Require Import Model.BandFloat.

Local Open Scope R_scope.

Local Notation fexp64 := (FLT_exp (-1074) 53).
Local Notation fexp32 := (FLT_exp (-149) 24).
Local Notation F64 := (generic_format radix2 fexp64).
Local Notation F32 := (generic_format radix2 fexp32).
Local Notation rnd64 := (round radix2 fexp64 ZnearestE).
Local Notation B2R64 := (B2R 53 1024).
Local Notation B2R32 := (B2R 24 128).

Local Instance prec_gt_0_53 : Prec_gt_0 53.
Proof. reflexivity. Qed.
Local Instance prec_gt_0_24 : Prec_gt_0 24.
Proof. reflexivity. Qed.

(* ------------------------------------------------------------------ *)
(* concrete constants, through B2FF (bound proofs are not convertible) *)

Lemma B2FF_zero64 : B2FF 53 1024 f64_zero = F754_zero false.
Proof. vm_compute. reflexivity. Qed.
Lemma B2FF_one64 : B2FF 53 1024 f64_one = F754_finite false 4503599627370496 (-52).
Proof. vm_compute. reflexivity. Qed.
Lemma B2FF_two64 : B2FF 53 1024 f64_two = F754_finite false 4503599627370496 (-51).
Proof. vm_compute. reflexivity. Qed.
Lemma B2FF_pred_one64 : B2FF 53 1024 f64_pred_one = F754_finite false 9007199254740991 (-53).
Proof. vm_compute. reflexivity. Qed.
Lemma B2FF_qarg_pred_one64 :
  B2FF 53 1024 (qarg64 f64_pred_one) = F754_finite false 4503599627370496 (-52).
Proof. vm_compute. reflexivity. Qed.
Lemma B2FF_zero32 : B2FF 24 128 f32_zero = F754_zero false.
Proof. vm_compute. reflexivity. Qed.
Lemma B2FF_one32 : B2FF 24 128 f32_one = F754_finite false 8388608 (-23).
Proof. vm_compute. reflexivity. Qed.

Lemma B2R_zero64 : B2R64 f64_zero = 0.
Proof. rewrite <- FF2R_B2FF, B2FF_zero64. reflexivity. Qed.
Lemma B2R_one64 : B2R64 f64_one = 1.
Proof. rewrite <- FF2R_B2FF, B2FF_one64. unfold FF2R, F2R. simpl. lra. Qed.
Lemma B2R_two64 : B2R64 f64_two = 2.
Proof. rewrite <- FF2R_B2FF, B2FF_two64. unfold FF2R, F2R. simpl. lra. Qed.
Lemma B2R_qarg_pred_one64 : B2R64 (qarg64 f64_pred_one) = 1.
Proof. rewrite <- FF2R_B2FF, B2FF_qarg_pred_one64. unfold FF2R, F2R. simpl. lra. Qed.
Lemma B2R_zero32 : B2R32 f32_zero = 0.
Proof. rewrite <- FF2R_B2FF, B2FF_zero32. reflexivity. Qed.
Lemma B2R_one32 : B2R32 f32_one = 1.
Proof. rewrite <- FF2R_B2FF, B2FF_one32. unfold FF2R, F2R. simpl. lra. Qed.

Lemma fin_zero64 : is_finite 53 1024 f64_zero = true.
Proof. vm_compute. reflexivity. Qed.
Lemma fin_one64 : is_finite 53 1024 f64_one = true.
Proof. vm_compute. reflexivity. Qed.
Lemma fin_two64 : is_finite 53 1024 f64_two = true.
Proof. vm_compute. reflexivity. Qed.
Lemma fin_zero32 : is_finite 24 128 f32_zero = true.
Proof. vm_compute. reflexivity. Qed.
Lemma fin_one32 : is_finite 24 128 f32_one = true.
Proof. vm_compute. reflexivity. Qed.

(* powers of two as explicit rationals *)
Lemma bpow_m53 : 9007199254740992 * bpow radix2 (-53) = 1.
Proof. simpl. lra. Qed.
Lemma bpow_m52 : bpow radix2 (-52) = 2 * bpow radix2 (-53).
Proof. simpl. lra. Qed.
Lemma bpow_m24 : 16777216 * bpow radix2 (-24) = 1.
Proof. simpl. lra. Qed.
Lemma bpow_m25 : 2 * bpow radix2 (-25) = bpow radix2 (-24).
Proof. simpl. lra. Qed.
Lemma bpow_m1 : bpow radix2 (-1) = / 2.
Proof. simpl. lra. Qed.

Lemma B2R_pred_one64 : B2R64 f64_pred_one = 1 - bpow radix2 (-53).
Proof.
  rewrite <- FF2R_B2FF, B2FF_pred_one64. unfold FF2R, F2R, cond_Zopp, Fnum, Fexp.
  pose proof bpow_m53 as Hu. lra.
Qed.

Lemma F64_one : F64 1.
Proof. rewrite <- B2R_one64. apply (generic_format_B2R 53 1024). Qed.
Lemma F64_two : F64 2.
Proof. rewrite <- B2R_two64. apply (generic_format_B2R 53 1024). Qed.

(* ------------------------------------------------------------------ *)
(* 1, 2 : the acceptance test *)

Lemma prob_ok64_spec : forall p : binary64,
  prob_ok64 p = true <-> (is_finite 53 1024 p = true /\ (0 < B2R 53 1024 p < 1)%R).
Proof.
  intros p. unfold prob_ok64, b64_compare.
  destruct (is_finite 53 1024 p) eqn:Hfin.
  - rewrite (Bcompare_correct 53 1024 f64_zero p fin_zero64 Hfin).
    rewrite (Bcompare_correct 53 1024 p f64_one Hfin fin_one64).
    rewrite B2R_zero64, B2R_one64. simpl andb.
    destruct (Rcompare_spec 0 (B2R64 p)) as [H0|H0|H0];
      destruct (Rcompare_spec (B2R64 p) 1) as [H1|H1|H1];
      split; intros H; try discriminate H; try (split; [reflexivity|lra]);
      try (exfalso; destruct H as [_ H]; lra); reflexivity.
  - simpl. split; intros H; [discriminate H | destruct H as [H _]; discriminate H].
Qed.

Lemma prob_ok32_spec : forall p : binary32,
  prob_ok32 p = true <-> (is_finite 24 128 p = true /\ (0 < B2R 24 128 p < 1)%R).
Proof.
  intros p. unfold prob_ok32, b32_compare.
  destruct (is_finite 24 128 p) eqn:Hfin.
  - rewrite (Bcompare_correct 24 128 f32_zero p fin_zero32 Hfin).
    rewrite (Bcompare_correct 24 128 p f32_one Hfin fin_one32).
    rewrite B2R_zero32, B2R_one32. simpl andb.
    destruct (Rcompare_spec 0 (B2R32 p)) as [H0|H0|H0];
      destruct (Rcompare_spec (B2R32 p) 1) as [H1|H1|H1];
      split; intros H; try discriminate H; try (split; [reflexivity|lra]);
      try (exfalso; destruct H as [_ H]; lra); reflexivity.
  - simpl. split; intros H; [discriminate H | destruct H as [H _]; discriminate H].
Qed.

(* ------------------------------------------------------------------ *)
(* 3 : the widening conversion is exact *)

Lemma F32_F64 : forall x : R, F32 x -> F64 x.
Proof.
  intros x Hx. apply generic_inclusion_mag with (2 := Hx).
  intros _. unfold FLT_exp. lia.
Qed.

Lemma normalize_exact :
  forall (Hp : Prec_gt_0 53) (Hm : Prec_lt_emax 53 1024) (s : bool) (m : positive) (e : Z)
         (Hb : SpecFloat.bounded 24 128 m e = true),
  is_finite 53 1024 (binary_normalize 53 1024 Hp Hm mode_NE (cond_Zopp s (Zpos m)) e s) = true /\
  B2R64 (binary_normalize 53 1024 Hp Hm mode_NE (cond_Zopp s (Zpos m)) e s)
    = B2R32 (B754_finite 24 128 s m e Hb).
Proof.
  intros Hp Hm s m e Hb.
  pose proof (binary_normalize_correct 53 1024 Hp Hm mode_NE (cond_Zopp s (Zpos m)) e s) as Hn.
  change (SpecFloat.fexp 53 1024) with fexp64 in Hn.
  change (round_mode mode_NE) with ZnearestE in Hn.
  change (F2R (Float radix2 (cond_Zopp s (Z.pos m)) e)) with (B2R32 (B754_finite 24 128 s m e Hb)) in Hn.
  set (x := B2R32 (B754_finite 24 128 s m e Hb)) in *.
  assert (Hfx : F64 x) by (apply F32_F64; apply (generic_format_B2R 24 128)).
  rewrite (round_generic radix2 fexp64 ZnearestE x Hfx) in Hn.
  rewrite Rlt_bool_true in Hn.
  - destruct Hn as [HR [HF _]]. split; assumption.
  - apply Rlt_trans with (bpow radix2 128).
    + apply (abs_B2R_lt_emax 24 128).
    + apply bpow_lt. lia.
Qed.

Lemma f32_to_f64_exact : forall p : binary32,
  is_finite 24 128 p = true ->
  is_finite 53 1024 (f32_to_f64 p) = true /\ B2R 53 1024 (f32_to_f64 p) = B2R 24 128 p.
Proof.
  intros p Hfin. destruct p as [s|s|s pl Hpl|s m e Hb]; try discriminate Hfin.
  - split; reflexivity.
  - unfold f32_to_f64. apply normalize_exact.
Qed.

(* ------------------------------------------------------------------ *)
(* 4 : one rounding in the sum, exact halving *)

Lemma rnd64_le : forall x y : R, F64 y -> x <= y -> rnd64 x <= y.
Proof.
  intros x y Fy Hxy.
  pose proof (round_le radix2 fexp64 ZnearestE x y Hxy) as H.
  rewrite (round_generic radix2 fexp64 ZnearestE y Fy) in H. exact H.
Qed.

Lemma rnd64_ge : forall x y : R, F64 y -> y <= x -> y <= rnd64 x.
Proof.
  intros x y Fy Hxy.
  pose proof (round_le radix2 fexp64 ZnearestE y x Hxy) as H.
  rewrite (round_generic radix2 fexp64 ZnearestE y Fy) in H. exact H.
Qed.

Lemma rnd64_sum_bounds : forall x : R, 0 <= x <= 1 -> 1 <= rnd64 (x + 1) <= 2.
Proof.
  intros x Hx. split.
  - apply rnd64_ge; [exact F64_one | lra].
  - apply rnd64_le; [exact F64_two | lra].
Qed.

Lemma F64_half : forall s : R, F64 s -> 1 <= s -> F64 (s / 2).
Proof.
  intros s Fs Hs. unfold Rdiv. rewrite <- bpow_m1.
  apply mult_bpow_exact_FLT; [exact Fs|].
  assert (Hmag : (0 < mag radix2 s)%Z).
  { apply mag_gt_bpow. simpl. rewrite Rabs_pos_eq; lra. }
  lia.
Qed.

Lemma qarg64_gen :
  forall (Hp : Prec_gt_0 53) (Hm : Prec_lt_emax 53 1024) nanp nand (p : binary64),
  is_finite 53 1024 p = true -> 0 <= B2R64 p <= 1 ->
  is_finite 53 1024 (Bdiv 53 1024 Hp Hm nand mode_NE (Bplus 53 1024 Hp Hm nanp mode_NE p f64_one) f64_two) = true /\
  B2R64 (Bdiv 53 1024 Hp Hm nand mode_NE (Bplus 53 1024 Hp Hm nanp mode_NE p f64_one) f64_two)
    = rnd64 (B2R64 p + 1) / 2.
Proof.
  intros Hp Hm nanp nand p Hfin Hr.
  pose proof (Bplus_correct 53 1024 Hp Hm nanp mode_NE p f64_one Hfin fin_one64) as Hs.
  change (SpecFloat.fexp 53 1024) with fexp64 in Hs.
  change (round_mode mode_NE) with ZnearestE in Hs.
  rewrite B2R_one64 in Hs.
  pose proof (rnd64_sum_bounds (B2R64 p) Hr) as Hb.
  set (s := rnd64 (B2R64 p + 1)) in *.
  assert (Fs : F64 s) by (apply generic_format_round; auto with typeclass_instances).
  rewrite Rlt_bool_true in Hs.
  2:{ apply Rle_lt_trans with 2.
      - rewrite Rabs_pos_eq; lra.
      - apply Rlt_le_trans with (bpow radix2 2); [simpl; lra | apply bpow_le; lia]. }
  destruct Hs as [HsR [HsF _]].
  set (sum := Bplus 53 1024 Hp Hm nanp mode_NE p f64_one) in *.
  assert (H2 : B2R64 f64_two <> 0) by (rewrite B2R_two64; lra).
  pose proof (Bdiv_correct 53 1024 Hp Hm nand mode_NE sum f64_two H2) as Hd.
  change (SpecFloat.fexp 53 1024) with fexp64 in Hd.
  change (round_mode mode_NE) with ZnearestE in Hd.
  rewrite B2R_two64, HsR in Hd.
  assert (Fh : F64 (s / 2)) by (apply F64_half; [exact Fs | lra]).
  rewrite (round_generic radix2 fexp64 ZnearestE (s / 2) Fh) in Hd.
  rewrite Rlt_bool_true in Hd.
  2:{ apply Rle_lt_trans with 1.
      - rewrite Rabs_pos_eq; lra.
      - apply Rlt_le_trans with (bpow radix2 1); [simpl; lra | apply bpow_le; lia]. }
  destruct Hd as [HdR [HdF _]].
  split; [rewrite HdF; exact HsF | exact HdR].
Qed.

Lemma qarg64_correct : forall p : binary64, prob_ok64 p = true ->
  is_finite 53 1024 (qarg64 p) = true /\
  B2R 53 1024 (qarg64 p) = (round radix2 (FLT_exp (-1074) 53) ZnearestE (B2R 53 1024 p + 1) / 2)%R.
Proof.
  intros p Hok. apply prob_ok64_spec in Hok. destruct Hok as [Hfin Hr].
  unfold qarg64, b64_div, b64_plus. apply qarg64_gen; [exact Hfin | lra].
Qed.

(* ------------------------------------------------------------------ *)
(* 5 : the largest double below one is accepted and maps to exactly 1 *)

Lemma pred_one_ok : prob_ok64 f64_pred_one = true.
Proof. vm_compute. reflexivity. Qed.

Lemma edge_refuted : exists p : binary64,
  prob_ok64 p = true /\ (0 < B2R 53 1024 p < 1)%R /\
  is_finite 53 1024 (qarg64 p) = true /\ B2R 53 1024 (qarg64 p) = 1%R.
Proof.
  exists f64_pred_one. split; [exact pred_one_ok|]. split.
  - exact (proj2 (proj1 (prob_ok64_spec f64_pred_one) pred_one_ok)).
  - split; [vm_compute; reflexivity | exact B2R_qarg_pred_one64].
Qed.

(* ------------------------------------------------------------------ *)
(* 6 : it is the only one *)

(* the two doubles nearest to one from below *)
Lemma F64_below_one : forall x : R, F64 x -> 0 < x < 1 ->
  x <> 1 - bpow radix2 (-53) -> x <= 1 - bpow radix2 (-52).
Proof.
  intros x Fx Hx Hne.
  destruct (Rle_or_lt x (1 - bpow radix2 (-52))) as [Hle|Hgt]; [exact Hle|exfalso].
  pose proof bpow_m53 as Hu. pose proof bpow_m52 as Hu2.
  assert (Hmag : mag radix2 x = 0%Z :> Z).
  { apply mag_unique_pos. simpl (0 - 1)%Z. rewrite bpow_m1. simpl (bpow radix2 0). lra. }
  assert (Hc : cexp radix2 fexp64 x = (-53)%Z).
  { unfold cexp. rewrite Hmag. reflexivity. }
  destruct (Rtotal_order x (1 - bpow radix2 (-53))) as [Hlt|[Heq|Hgt']].
  - apply (generic_format_discrete radix2 fexp64 x 9007199254740990); [|exact Fx].
    rewrite Hc. unfold F2R, Fnum, Fexp. simpl (_ + 1)%Z. lra.
  - exact (Hne Heq).
  - apply (generic_format_discrete radix2 fexp64 x 9007199254740991); [|exact Fx].
    rewrite Hc. unfold F2R, Fnum, Fexp. simpl (_ + 1)%Z. lra.
Qed.

Lemma F64_two_minus_ulp : F64 (2 - bpow radix2 (-52)).
Proof.
  apply generic_format_FLT.
  apply (FLT_spec radix2 (-1074) 53 _ (Float radix2 9007199254740991 (-52))).
  - unfold F2R, Fnum, Fexp. pose proof bpow_m53 as Hu. pose proof bpow_m52 as Hu2. lra.
  - simpl. lia.
  - simpl. lia.
Qed.

Lemma qarg64_one_iff : forall p : binary64, prob_ok64 p = true ->
  (B2R 53 1024 (qarg64 p) = 1%R <-> B2R 53 1024 p = (1 - bpow radix2 (-53))%R).
Proof.
  intros p Hok.
  destruct (qarg64_correct p Hok) as [_ HR].
  apply prob_ok64_spec in Hok. destruct Hok as [Hfin Hr].
  split.
  - intros H1.
    destruct (Req_dec (B2R64 p) (1 - bpow radix2 (-53))) as [Heq|Hne]; [exact Heq|exfalso].
    pose proof (F64_below_one (B2R64 p) (generic_format_B2R 53 1024 p) Hr Hne) as Hle.
    assert (Hrl : rnd64 (B2R64 p + 1) <= 2 - bpow radix2 (-52)).
    { apply rnd64_le; [exact F64_two_minus_ulp | lra]. }
    rewrite HR in H1. pose proof (bpow_gt_0 radix2 (-52)) as Hpos. lra.
  - intros Heq.
    assert (Hp : p = f64_pred_one).
    { apply (B2R_inj 53 1024).
      - destruct p as [s|s|s pl Hpl|s m e Hb]; try discriminate Hfin; [|reflexivity].
        simpl in Hr. lra.
      - vm_compute. reflexivity.
      - rewrite Heq, B2R_pred_one64. reflexivity. }
    rewrite Hp. exact B2R_qarg_pred_one64.
Qed.

(* ------------------------------------------------------------------ *)
(* 7 : range of the quantile argument *)

Lemma qarg64_range : forall p : binary64, prob_ok64 p = true ->
  (1/2 <= B2R 53 1024 (qarg64 p) <= 1)%R.
Proof.
  intros p Hok.
  destruct (qarg64_correct p Hok) as [_ HR].
  apply prob_ok64_spec in Hok. destruct Hok as [Hfin Hr].
  assert (Hb : 1 <= rnd64 (B2R64 p + 1) <= 2) by (apply rnd64_sum_bounds; lra).
  rewrite HR. lra.
Qed.

(* ------------------------------------------------------------------ *)
(* 8 : the f32 flavour never reaches 1 *)

Lemma F32_below_one : forall x : R, F32 x -> 0 < x < 1 -> x <= 1 - bpow radix2 (-24).
Proof.
  intros x Fx Hx.
  destruct (Rle_or_lt x (1 - bpow radix2 (-24))) as [Hle|Hgt]; [exact Hle|exfalso].
  pose proof bpow_m24 as Hu.
  assert (Hmag : mag radix2 x = 0%Z :> Z).
  { apply mag_unique_pos. simpl (0 - 1)%Z. rewrite bpow_m1. simpl (bpow radix2 0). lra. }
  assert (Hc : cexp radix2 fexp32 x = (-24)%Z).
  { unfold cexp. rewrite Hmag. reflexivity. }
  apply (generic_format_discrete radix2 fexp32 x 16777215); [|exact Fx].
  rewrite Hc. unfold F2R, Fnum, Fexp. simpl (_ + 1)%Z. lra.
Qed.

Lemma F64_two_minus_ulp32 : F64 (2 - bpow radix2 (-24)).
Proof.
  apply generic_format_FLT.
  apply (FLT_spec radix2 (-1074) 53 _ (Float radix2 33554431 (-24))).
  - unfold F2R, Fnum, Fexp. pose proof bpow_m24 as Hu. lra.
  - simpl. lia.
  - simpl. lia.
Qed.

Lemma qarg32_lt_one : forall p : binary32, prob_ok32 p = true ->
  is_finite 53 1024 (qarg32 p) = true /\
  (1/2 <= B2R 53 1024 (qarg32 p) <= 1 - bpow radix2 (-25))%R.
Proof.
  intros p Hok. apply prob_ok32_spec in Hok. destruct Hok as [Hfin Hr].
  destruct (f32_to_f64_exact p Hfin) as [Hfin64 HR64].
  pose proof (F32_below_one (B2R32 p) (generic_format_B2R 24 128 p) Hr) as Hle.
  assert (Hok64 : prob_ok64 (f32_to_f64 p) = true).
  { apply prob_ok64_spec. split; [exact Hfin64 | rewrite HR64; exact Hr]. }
  unfold qarg32.
  destruct (qarg64_correct _ Hok64) as [HF HR].
  split; [exact HF|].
  rewrite HR, HR64.
  assert (Hb : 1 <= rnd64 (B2R32 p + 1) <= 2) by (apply rnd64_sum_bounds; lra).
  assert (Hrl : rnd64 (B2R32 p + 1) <= 2 - bpow radix2 (-24)).
  { apply rnd64_le; [exact F64_two_minus_ulp32 | lra]. }
  pose proof bpow_m25 as Hu. lra.
Qed.

Print Assumptions prob_ok64_spec.
Print Assumptions prob_ok32_spec.
Print Assumptions f32_to_f64_exact.
Print Assumptions qarg64_correct.
Print Assumptions edge_refuted.
Print Assumptions qarg64_one_iff.
Print Assumptions qarg64_range.
Print Assumptions qarg32_lt_one.
