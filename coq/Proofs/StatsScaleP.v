(* StatsScaleP.v : a common factor of the weights.

   Multiplying all weights by k <> 0 leaves the covariance (and with it the prediction
   variances, and the conditioning bound) of spec_stats unchanged, while chi^2 is multiplied by k^2
   and the weighted residuals by k.

   inv_cert is only SOUND (the Gauss-Jordan candidate of Base/SeqMx.v is checked, nothing is
   proved about when it succeeds), so "inv_cert succeeds on a G  whenever it succeeds on G" cannot
   come from a characterisation of inv_cert: part A proves by simulation that the Gauss-Jordan
   run on a G is the run on G with every row rescaled, i.e.
     sinv n (sscale a G) = omap (sscale a^-1) (sinv n G)        (list-level, a <> 0). *)
From mathcomp Require Import all_ssreflect all_algebra.
From VP Require Import Base.LinAlg Base.SeqMx Base.Refine Model.Numeric Proofs.NumericP.
Set Implicit Arguments. Unset Strict Implicit. Unset Printing Implicit Defensive.
Import Order.TTheory GRing.Theory Num.Theory.
Local Open Scope ring_scope.

(* ================================================================== A *)
(* Gauss-Jordan on a scaled matrix                                      *)

Section GJScale.
Variable F : fieldType.
Implicit Types (A B G X R : smx F) (r t u v c : seq F) (a b s h : F) (n l i : nat).

Variable a : F.
Hypothesis a_neq0 : a != 0.

(* the first l entries of r multiplied by s, the others by s / a:  a row (g | e) of the augmented
   matrix [G | I] after l' steps corresponds to the row (s g | (s/a) e) of the run on a G, with
   s = a for the rows still to be treated and s = 1 for the normalised pivot rows *)
Fixpoint scl l s r : seq F :=
  if r is x :: r' then
    (if l is l'.+1 then s * x :: scl l' s r' else (s / a) * x :: scl 0 s r')
  else [::].

Lemma head_scl l s r : head 0 (scl l.+1 s r) = s * head 0 r.
Proof. by case: r => [|x r] /=; rewrite ?mulr0. Qed.

Lemma behead_scl l s r : behead (scl l.+1 s r) = scl l s (behead r).
Proof. by case: r => [|x r] //=; case: l. Qed.

Lemma svscale_scl l s b r : svscale b (scl l s r) = scl l (b * s) r.
Proof.
elim: r l => [|x r IH] [|l] //=.
- by rewrite -/(svscale b _) IH !mulrA.
- by rewrite -/(svscale b _) IH mulrA.
Qed.

Lemma scl_svscale l s b r : scl l s (svscale b r) = scl l (s * b) r.
Proof.
elim: r l => [|x r IH] [|l] //=; rewrite -/(svscale b _) IH ?mulrA //.
by rewrite (mulrAC s).
Qed.

Lemma scl0 r : scl 0 1 r = svscale a^-1 r.
Proof. by elim: r => //= x r ->; rewrite mul1r. Qed.

Lemma scl_cat s g e :
  scl (size g) s (g ++ e) = [seq s * x | x <- g] ++ [seq s / a * x | x <- e].
Proof.
elim: g => [|x g IH] /=; last by rewrite IH.
by elim: e => //= x e ->.
Qed.

Lemma gj_elim_scl l s p r : s != 0 ->
  gj_elim (scl l 1 p) (scl l.+1 s r) = scl l s (gj_elim p r).
Proof.
move=> s0; case: r => [|h t] /=; first by case: l.
rewrite mulf_eq0 (negbTE s0) /=; case: ifP => // _.
elim: t l p => [|x t IH] [|l] [|y p] //=.
- rewrite IH; congr (_ :: _).
  rewrite div1r mulf_eq0 invr_eq0 (negbTE a_neq0) /=.
  case: ifP => // _; rewrite mulrBr !mulrA; congr (_ - _).
  by rewrite -!mulrA; congr (_ * _); rewrite mulrCA.
- rewrite IH; congr (_ :: _).
  by rewrite mul1r; case: ifP => // _; rewrite mulrBr !mulrA.
Qed.

Lemma gj_pivot_scl l s rows : s != 0 ->
  gj_pivot [seq scl l.+1 s r | r <- rows]
  = omap (fun pr => (scl l.+1 s pr.1, [seq scl l.+1 s r | r <- pr.2])) (gj_pivot rows).
Proof.
move=> s0; elim: rows => [|r rows IH] //=.
rewrite head_scl mulf_eq0 (negbTE s0) /=; case: ifP => // _.
by rewrite IH; case: (gj_pivot rows) => [[p rest]|].
Qed.

Lemma gj_loop_scl l dn todo :
  gj_loop l [seq scl l 1 r | r <- dn] [seq scl l a r | r <- todo]
  = omap (map (scl 0 1)) (gj_loop l dn todo).
Proof.
elim: l dn todo => [|l IH] dn todo /=; first by rewrite map_rev.
rewrite gj_pivot_scl //; case: (gj_pivot todo) => [[p rest]|] //=.
rewrite head_scl behead_scl svscale_scl.
set np := svscale _ (behead p).
have -> : scl l ((a * head 0 p)^-1 * a) (behead p) = scl l 1 np.
  rewrite /np scl_svscale mul1r; congr (scl _ _ _).
  have [->|h0] := eqVneq (head 0 p) 0; first by rewrite mulr0 invr0 mul0r.
  by rewrite invfM mulrAC mulVf // mul1r.
rewrite -!map_comp -(IH (np :: _)) /= -!map_comp; congr (gj_loop _ (_ :: _) _).
- by apply: eq_map => r /=; rewrite gj_elim_scl ?oner_eq0.
- by apply: eq_map => r /=; rewrite gj_elim_scl.
Qed.

Lemma strans_sscale n b A : strans n (sscale b A) = sscale b (strans n A).
Proof.
apply: (@eq_from_nth _ [::]); rewrite ?size_map !size_strans // => i lt_in.
rewrite (nth_map [::]) ?size_strans // !nth_strans // /sscale -!map_comp.
by rewrite /svscale -map_comp; apply: eq_map => c /=; rewrite nth_svscale.
Qed.

Lemma strans_aug_sscale n G : size G = n ->
  strans n (sscale a G ++ sident F n) = [seq scl n a r | r <- strans n (G ++ sident F n)].
Proof.
move=> sG; apply: (@eq_from_nth _ [::]); rewrite ?size_map !size_strans // => i lt_in.
rewrite (nth_map [::]) ?size_strans // !nth_strans // !map_cat.
rewrite -{2}sG -(size_map (fun c => nth 0 c i) G) scl_cat divff // -!map_comp.
congr (_ ++ _); first by apply: eq_map => c /=; rewrite nth_svscale.
by apply: eq_map => c /=; rewrite mul1r.
Qed.

Lemma sinv_sscale n G : size G = n ->
  sinv n (sscale a G) = omap (sscale a^-1) (sinv n G).
Proof.
move=> sG; rewrite /sinv strans_aug_sscale //.
have := gj_loop_scl n [::] (strans n (G ++ sident F n)); rewrite /= => ->.
case: (gj_loop _ _ _) => [R|] //=; congr Some.
rewrite -strans_sscale; congr strans.
by apply: eq_map => r; rewrite scl0.
Qed.

Lemma inv_cert_sscale n G X : wf n n G ->
  inv_cert n G = Some X -> inv_cert n (sscale a G) = Some (sscale a^-1 X).
Proof.
move=> hG; rewrite /inv_cert sinv_sscale ?(wf_size hG) //.
case: (sinv n G) => [Y|] //=; case: ifP => // /andP [hY /eqP e] [<-].
rewrite wf_sscale //=.
suff -> : smul n (sscale a G) (sscale a^-1 Y) = sident F n by rewrite eqxx.
apply: (@mx_of_inj _ n n); rewrite ?wf_sident //.
  by apply: (@wf_smul _ n n n); exact: wf_sscale.
rewrite (@mx_of_smul _ n n n) ?wf_sscale // !mx_of_sscale -scalemxAl -scalemxAr scalerA.
by rewrite mulfV // scale1r -(mx_of_smul hG hY) e.
Qed.

End GJScale.

(* ================================================================== B *)
(* list-level scaling lemmas                                            *)

Section ScaleLemmas.
Variable F : fieldType.
Implicit Types (A B G X : smx F) (v y c r : seq F) (a b k : F) (n m i : nat).

Lemma svmulp_svscalel k v c : svmulp (svscale k v) c = svscale k (svmulp v c).
Proof.
rewrite /svmulp /svscale; elim: v c => [|x v IH] [|z c] //=.
by rewrite IH mulrA.
Qed.

Lemma srowscale_svscale k v A : srowscale (svscale k v) A = sscale k (srowscale v A).
Proof. by rewrite /srowscale /sscale -map_comp; apply: eq_map => c /=; exact: svmulp_svscalel. Qed.

Lemma sscale_sscale a b A : sscale a (sscale b A) = sscale (a * b) A.
Proof.
rewrite /sscale -map_comp; apply: eq_map => c /=.
by rewrite /svscale -map_comp; apply: eq_map => x /=; rewrite mulrA.
Qed.

Lemma sscale1 A : sscale 1 A = A.
Proof.
rewrite /sscale -[RHS]map_id; apply: eq_map => c /=.
by rewrite /svscale -[RHS]map_id; apply: eq_map => x /=; rewrite mul1r.
Qed.

Lemma lincomb_sscale n m k A c : wf n m A ->
  lincomb n (sscale k A) c = svscale k (lincomb n A c).
Proof.
move=> hA; have hkA := wf_sscale k hA.
apply: (@cv_of_inj _ n); rewrite ?size_svscale ?size_lincomb ?(wf_all hA) ?(wf_all hkA) //.
rewrite cv_of_svscale !(@cv_of_lincomb _ n m) // mx_of_sscale. by rewrite scalemxAl.
Qed.

Lemma svsub_svscale k v r : svsub (svscale k v) (svscale k r) = svscale k (svsub v r).
Proof.
rewrite /svsub /svscale; elim: v r => [|x v IH] [|z r] //=.
by rewrite IH mulrBr.
Qed.

Lemma svnrm2_svscale k v : svnrm2 (svscale k v) = k ^+ 2 * svnrm2 v.
Proof.
rewrite /svnrm2 /svdot; elim: v => [|x v IH] /=; first by rewrite mulr0.
by rewrite IH mulrDr expr2 !mulrA; congr (_ * _ + _); rewrite mulrAC.
Qed.

Lemma sgram_sscale n m k A : wf n m A ->
  sgram n (sscale k A) = sscale (k ^+ 2) (sgram n A).
Proof.
move=> hA; have hkA := wf_sscale k hA.
apply: (@mx_of_inj _ m m); rewrite ?wf_sscale ?(wf_sgram hA) ?(wf_sgram hkA) //.
rewrite mx_of_sscale !(@mx_of_sgram _ n m) // mx_of_sscale.
by rewrite -scalemxAr [(_ *: _)^T]linearZ /= -scalemxAl scalerA expr2.
Qed.

Lemma sdiagv_rec_sscale k i A : sdiagv_rec i (sscale k A) = svscale k (sdiagv_rec i A).
Proof. by elim: A i => //= c A IH i; rewrite IH nth_svscale. Qed.

End ScaleLemmas.

(* ================================================================== C *)
(* fit statistics under a common factor of the weights                  *)

Section StatsScale.
Variable F : realFieldType.
Implicit Types (Phi : smx F) (Ds : seq (smx F)) (v y c : seq F) (k : F) (n m : nat).

Lemma strace_sscale k (A : smx F) : strace (sscale k A) = k * strace A.
Proof.
rewrite /strace /sdiagv sdiagv_rec_sscale; elim: (sdiagv_rec 0 A) => [|x v IH] /=.
  by rewrite mulr0.
by rewrite IH mulrDr.
Qed.

(* the complete result for the weights k v, as a function of the result for the weights v *)
Definition stats_rescale k (st : stats_spec F) : stats_spec F :=
  {| st_dof := st_dof st; st_rw := svscale k (st_rw st); st_chi2 := k ^+ 2 * st_chi2 st;
     st_cov := st_cov st; st_sig2 := st_sig2 st; st_k2 := st_k2 st |}.

Theorem spec_stats_weight_scaleE n m k v Phi Ds y c st :
  k != 0 -> size v = n -> wf n m Phi -> all (wf n m) Ds ->
  spec_stats n m (size Ds) (Some v) Phi Ds y c = Some st ->
  spec_stats n m (size Ds) (Some [seq k * x | x <- v]) Phi Ds y c = Some (stats_rescale k st).
Proof.
move=> k0 sv hP hD; rewrite /spec_stats; case: ifP => // _.
have hw : wok n (Some v) by rewrite /= sv.
have hJ := wf_mfj c hP hD.
have hH := wf_wscale hw hJ.
have hG := wf_sgram hH.
have k20 : k ^+ 2 != 0 by rewrite expf_neq0.
case e: (inv_cert _ _) => [X|] // [<-] {st}.
rewrite -/(svscale k v) /= !srowscale_svscale svmulp_svscalel.
rewrite (sgram_sscale k hH) (inv_cert_sscale k20 hG e).
have hWP : wf n m (srowscale v Phi) := wf_wscale hw hP.
rewrite (lincomb_sscale k c hWP) svsub_svscale svnrm2_svscale.
rewrite /stats_rescale /= sscale_sscale !strace_sscale.
set N := svnrm2 _; set d : F := _%:R.
have -> : k ^+ 2 * N / d * k ^- 2 = N / d by rewrite -(mulrA _ N) mulrAC mulfV // mul1r.
by rewrite mulrACA mulfV // mul1r mulrA.
Qed.

Lemma spec_stats_weight_scale n m k v Phi Ds y c st :
  k != 0 -> size v = n -> wf n m Phi -> all (wf n m) Ds ->
  spec_stats n m (size Ds) (Some v) Phi Ds y c = Some st ->
  exists st', [/\ spec_stats n m (size Ds) (Some [seq k * x | x <- v]) Phi Ds y c = Some st',
                  st_cov st' = st_cov st,
                  st_chi2 st' = k ^+ 2 * st_chi2 st,
                  st_sig2 st' = st_sig2 st
                & st_dof st' = st_dof st].
Proof.
move=> k0 sv hP hD hst; exists (stats_rescale k st).
by split=> //; exact: spec_stats_weight_scaleE.
Qed.

(* the remaining two fields *)
Lemma spec_stats_weight_scale_rw_k2 n m k v Phi Ds y c st :
  k != 0 -> size v = n -> wf n m Phi -> all (wf n m) Ds ->
  spec_stats n m (size Ds) (Some v) Phi Ds y c = Some st ->
  exists st', [/\ spec_stats n m (size Ds) (Some [seq k * x | x <- v]) Phi Ds y c = Some st',
                  st_rw st' = [seq k * x | x <- st_rw st]
                & st_k2 st' = st_k2 st].
Proof.
move=> k0 sv hP hD hst; exists (stats_rescale k st).
by split=> //; exact: spec_stats_weight_scaleE.
Qed.

(* unit weights are the constant weights 1 *)
Lemma spec_stats_unit_ones n m Phi Ds y c :
  wf n m Phi -> all (wf n m) Ds -> size y = n ->
  spec_stats n m (size Ds) (Some (nseq n 1)) Phi Ds y c = spec_stats n m (size Ds) None Phi Ds y c.
Proof.
move=> hP hD sy; rewrite /spec_stats.
have -> : wscalev (Some (nseq n 1)) y = y by rewrite /= -sy svmulp_ones.
by rewrite (wscale_unit (wf_mfj c hP hD)) (wscale_unit hP).
Qed.

Theorem spec_stats_const_weightsE n m k Phi Ds y c st :
  k != 0 -> wf n m Phi -> all (wf n m) Ds -> size y = n ->
  spec_stats n m (size Ds) None Phi Ds y c = Some st ->
  spec_stats n m (size Ds) (Some (nseq n k)) Phi Ds y c = Some (stats_rescale k st).
Proof.
move=> k0 hP hD sy; rewrite -(spec_stats_unit_ones c hP hD sy) => hst.
have := spec_stats_weight_scaleE k0 (size_nseq n 1) hP hD hst.
by rewrite map_nseq mulr1.
Qed.

Lemma spec_stats_const_weights n m k Phi Ds y c st :
  k != 0 -> wf n m Phi -> all (wf n m) Ds -> size y = n ->
  spec_stats n m (size Ds) None Phi Ds y c = Some st ->
  exists st', [/\ spec_stats n m (size Ds) (Some (nseq n k)) Phi Ds y c = Some st',
                  st_cov st' = st_cov st,
                  st_chi2 st' = k ^+ 2 * st_chi2 st,
                  st_sig2 st' = st_sig2 st
                & st_dof st' = st_dof st].
Proof.
move=> k0 hP hD sy hst; exists (stats_rescale k st).
by split=> //; exact: spec_stats_const_weightsE.
Qed.

End StatsScale.

Print Assumptions sinv_sscale.
Print Assumptions inv_cert_sscale.
Print Assumptions spec_stats_weight_scaleE.
Print Assumptions spec_stats_weight_scale.
Print Assumptions spec_stats_weight_scale_rw_k2.
Print Assumptions spec_stats_unit_ones.
Print Assumptions spec_stats_const_weightsE.
Print Assumptions spec_stats_const_weights.
