(* NumericP.v : the executable specification of Model/Numeric.v related to MathComp matrices,
   and the numeric properties (C01, C02, C03, C07, C12-C14) proved on it. *)
From mathcomp Require Import all_ssreflect all_algebra.
From VP Require Import Base.LinAlg Base.SeqMx Base.Refine Model.Numeric.
Set Implicit Arguments. Unset Strict Implicit. Unset Printing Implicit Defensive.
Import Order.TTheory GRing.Theory Num.Theory.
Local Open Scope ring_scope.

Section NumericP.
Variable F : realFieldType.
Implicit Types (A B C Phi Y Dk V X : smx F) (v y c : seq F) (w : option (seq F)).
Implicit Types (n m s p i j k : nat).

Definition Wm n w : 'M[F]_n := if w is Some v then diag_mx (rv_of n v) else 1%:M.
Definition wok n w := if w is Some v then size v == n else true.

(* ================================================================== A *)
(* weights are row scaling                                              *)

Lemma wf_wscale n m w A : wok n w -> wf n m A -> wf n m (wscale w A).
Proof. by case: w => [v|] //= /eqP sv; exact: wf_srowscale. Qed.

Lemma mx_of_wscale n m w A : wok n w -> wf n m A ->
  mx_of n m (wscale w A) = Wm n w *m mx_of n m A.
Proof.
case: w => [v|] /= => [/eqP sv hA|_ _]; last by rewrite mul1mx.
exact: mx_of_srowscale.
Qed.

Lemma size_wscalev n w y : wok n w -> size y = n -> size (wscalev w y) = n.
Proof. by case: w => [v|] //= /eqP sv sy; rewrite size_svmulp sv sy minnn. Qed.

Lemma cv_of_wscalev n w y : wok n w -> size y = n ->
  cv_of n (wscalev w y) = Wm n w *m cv_of n y.
Proof.
case: w => [v|] /= => [/eqP sv sy|_ _]; last by rewrite mul1mx.
rewrite mul_diag_mx; apply/matrixP => i j.
by rewrite !mxE nth_svmulp // sv sy.
Qed.

Lemma wscale_map w A : wscale w A = [seq wscalev w c | c <- A].
Proof. by case: w => [v|] //=; rewrite map_id. Qed.

Lemma svmulp_ones c : svmulp (nseq (size c) 1) c = c.
Proof. by rewrite /svmulp; elim: c => //= x c ->; rewrite mul1r. Qed.

Lemma wscale_unit n m A : wf n m A -> wscale (Some (nseq n 1)) A = A.
Proof.
move=> /wf_all /allP hA /=; rewrite /srowscale -[RHS]map_id.
by apply/eq_in_map => c /hA /eqP <-; exact: svmulp_ones.
Qed.

Lemma spec_coeffs_prescaled n m v Phi Y :
  spec_coeffs n m (Some v) Phi Y = spec_coeffs n m None (srowscale v Phi) (srowscale v Y).
Proof. by []. Qed.

Lemma spec_resid_prescaled n v Phi Y C :
  spec_resid n (Some v) Phi Y C = spec_resid n None (srowscale v Phi) (srowscale v Y) C.
Proof. by []. Qed.

Lemma spec_jac_col_prescaled n m v Phi Dk C :
  spec_jac_col n m (Some v) Phi Dk C
  = spec_jac_col n m None (srowscale v Phi) (srowscale v Dk) C.
Proof. by []. Qed.

Lemma wscale_zero_row n m v A A' i :
  nth 0 v i = 0 -> size v = n -> wf n m A -> wf n m A' ->
  (forall i' j, i' != i -> ent A i' j = ent A' i' j) ->
  wscale (Some v) A = wscale (Some v) A'.
Proof.
move=> vi sv hA hA' h /=.
apply: (@mx_of_inj _ n m); try exact: wf_srowscale.
rewrite !mx_of_srowscale //; apply/matrixP => k j.
rewrite !rowscale_entry !mxE.
have [e|ne] := eqVneq (k : nat) i; first by rewrite e vi !mul0r.
by rewrite h.
Qed.

Lemma spec_coeffs_zero_weight n m s v Phi Phi' Y Y' i :
  nth 0 v i = 0 -> size v = n ->
  wf n m Phi -> wf n m Phi' -> wf n s Y -> wf n s Y' ->
  (forall i' j, i' != i -> ent Phi i' j = ent Phi' i' j) ->
  (forall i' j, i' != i -> ent Y i' j = ent Y' i' j) ->
  spec_coeffs n m (Some v) Phi Y = spec_coeffs n m (Some v) Phi' Y'.
Proof.
move=> vi sv hP hP' hY hY' eP eY; rewrite /spec_coeffs.
by rewrite (wscale_zero_row vi sv hP hP' eP) (wscale_zero_row vi sv hY hY' eY).
Qed.

(* ================================================================== B *)
(* coefficients (C01)                                                   *)

Section Coeffs.
Variables (n m s : nat) (w : option (seq F)) (Phi Y C : smx F).
Hypotheses (hw : wok n w) (hP : wf n m Phi) (hY : wf n s Y).
Hypothesis hC : spec_coeffs n m w Phi Y = Some C.

Let W := Wm n w.
Let Am := W *m mx_of n m Phi.
Let Bm := W *m mx_of n s Y.

Lemma spec_coeffs_normal :
  [/\ wf m s C,
      (Wm n w *m mx_of n m Phi)^T *m (Wm n w *m mx_of n m Phi) \in unitmx
    & (Wm n w *m mx_of n m Phi)^T *m
        (Wm n w *m mx_of n s Y - (Wm n w *m mx_of n m Phi) *m mx_of m s C) = 0].
Proof.
have := slsq_sound (wf_wscale hw hP) (wf_wscale hw hY) hC.
by rewrite !mx_of_wscale.
Qed.

Lemma spec_coeffs_wf : wf m s C.
Proof. by case: spec_coeffs_normal. Qed.

Lemma spec_coeffs_eq :
  mx_of m s C = invmx (Am^T *m Am) *m (Am^T *m Bm).
Proof.
have := slsq_eq (wf_wscale hw hP) (wf_wscale hw hY) hC.
by rewrite !mx_of_wscale.
Qed.

Lemma wresid_col (j : 'I_s) (c' : 'cV[F]_m) :
  W *m (col j (mx_of n s Y) - mx_of n m Phi *m c') = col j Bm - Am *m c'.
Proof. by rewrite mulmxBr mulmxA /Bm col_mul. Qed.

Lemma spec_coeffs_normal_col (j : 'I_s) :
  Am^T *m (col j Bm - Am *m col j (mx_of m s C)) = 0.
Proof.
have [_ _ ne] := spec_coeffs_normal.
by rewrite -col_mul -colB -col_mul ne col0.
Qed.

Lemma spec_coeffs_opt (j : 'I_s) (c' : 'cV[F]_m) :
  nrm2 (Wm n w *m (col j (mx_of n s Y) - mx_of n m Phi *m col j (mx_of m s C)))
  <= nrm2 (Wm n w *m (col j (mx_of n s Y) - mx_of n m Phi *m c')).
Proof.
rewrite !wresid_col; apply: ls_opt; exact: spec_coeffs_normal_col.
Qed.

(* uniqueness, from the normal equations *)
Lemma spec_coeffs_unique_normal (j : 'I_s) (c' : 'cV[F]_m) :
  (Wm n w *m mx_of n m Phi)^T *m
    (Wm n w *m (col j (mx_of n s Y) - mx_of n m Phi *m c')) = 0 ->
  c' = col j (mx_of m s C).
Proof.
rewrite wresid_col => ne.
have [_ uG _] := spec_coeffs_normal.
exact: (ls_unique uG ne (spec_coeffs_normal_col j)).
Qed.

(* uniqueness, from attaining the minimum *)
Lemma spec_coeffs_unique (j : 'I_s) (c' : 'cV[F]_m) :
  nrm2 (Wm n w *m (col j (mx_of n s Y) - mx_of n m Phi *m c'))
  <= nrm2 (Wm n w *m (col j (mx_of n s Y) - mx_of n m Phi *m col j (mx_of m s C))) ->
  c' = col j (mx_of m s C).
Proof.
move=> le; apply: spec_coeffs_unique_normal; rewrite wresid_col.
apply: ls_opt_conv => c''; rewrite -!wresid_col.
exact: le_trans le (spec_coeffs_opt j c'').
Qed.

End Coeffs.

Lemma spec_coeffs_linear n m s w Phi Y1 Y2 C1 C2 (a b : F) :
  wok n w -> wf n m Phi -> wf n s Y1 -> wf n s Y2 ->
  spec_coeffs n m w Phi Y1 = Some C1 -> spec_coeffs n m w Phi Y2 = Some C2 ->
  exists C3, [/\ spec_coeffs n m w Phi (sadd (sscale a Y1) (sscale b Y2)) = Some C3,
                 wf m s C3
               & mx_of m s C3 = a *: mx_of m s C1 + b *: mx_of m s C2].
Proof.
move=> hw hP hY1 hY2 e1 e2.
have hY3 : wf n s (sadd (sscale a Y1) (sscale b Y2)).
  by apply: wf_sadd; apply: wf_sscale.
have e3 : exists C3, spec_coeffs n m w Phi (sadd (sscale a Y1) (sscale b Y2)) = Some C3.
  move: e1; rewrite /spec_coeffs /slsq.
  by case: (inv_cert _ _) => [X|] // _; eexists.
case: e3 => C3 e3; exists C3; split=> //; first exact: (spec_coeffs_wf hw hP hY3 e3).
rewrite (spec_coeffs_eq hw hP hY3 e3) (spec_coeffs_eq hw hP hY1 e1).
rewrite (spec_coeffs_eq hw hP hY2 e2).
rewrite mx_of_sadd ?wf_sscale // !mx_of_sscale.
by rewrite !mulmxDr -!scalemxAr.
Qed.

(* ------------------------------------------------------------------ *)
(* implementation = specification on the abstract level:               *)
(* truncated-SVD solve (what the code does) against normal equations   *)
Section SvdImpl.
Variables (N M : nat).
Variables (U : 'M[F]_(N,M)) (sg : 'rV[F]_M) (Vt : 'M[F]_M).
Hypothesis UtU : U^T *m U = 1%:M.
Hypothesis VtV : Vt *m Vt^T = 1%:M.

Let A := U *m diag_mx sg *m Vt.

Section Kaufman.
Hypothesis sg_neq0 : forall i : 'I_M, sg 0 i != 0.

Lemma svd_gram_unitmx : A^T *m A \in unitmx.
Proof. by case: (UUt_gram UtU VtV sg_neq0). Qed.

Lemma svd_proj : U *m U^T = A *m invmx (A^T *m A) *m A^T.
Proof. by case: (UUt_gram UtU VtV sg_neq0). Qed.

Theorem svd_kaufman S (V : 'M[F]_(N,S)) :
  U *m (U^T *m V) - V = - ((1%:M - A *m invmx (A^T *m A) *m A^T) *m V).
Proof. by rewrite -svd_proj -kaufman_form mulmxA. Qed.

Theorem svd_kaufman_orth S (V : 'M[F]_(N,S)) :
  A^T *m (U *m (U^T *m V) - V) = 0.
Proof. by apply: (kaufman_orth_svd (X := diag_mx sg *m Vt)) => //; rewrite mulmxA. Qed.
End Kaufman.

Variable eps : F.
Hypothesis eps_ge0 : 0 <= eps.
Hypothesis sg_gt : forall i : 'I_M, eps < sg 0 i.

Lemma sg_gt_neq0 (i : 'I_M) : sg 0 i != 0.
Proof. exact: (sg_kept_neq0 eps_ge0 (sg_gt i)). Qed.

Lemma Aeps_full : Aeps U sg Vt eps = A.
Proof. by apply: Aeps_clean => i; rewrite sg_gt. Qed.

Theorem svd_solve_is_lsq S (B : 'M[F]_(N,S)) :
  solve U sg Vt eps B = invmx (A^T *m A) *m (A^T *m B).
Proof.
have uG := svd_gram_unitmx sg_gt_neq0.
have := normal_eq sg UtU VtV eps_ge0 B; rewrite Aeps_full mulmxBr => /subr0_eq ->.
by rewrite mulmxA mulKmx.
Qed.

Theorem svd_resid S (B : 'M[F]_(N,S)) :
  B - A *m solve U sg Vt eps B = (1%:M - A *m invmx (A^T *m A) *m A^T) *m B.
Proof. by rewrite svd_solve_is_lsq mulmxBl mul1mx !mulmxA. Qed.

End SvdImpl.

(* ================================================================== C *)
(* residuals (C02)                                                      *)

Lemma wf_spec_resid n m s w Phi Y C :
  wok n w -> wf n m Phi -> wf n s Y -> wf m s C -> wf n s (spec_resid n w Phi Y C).
Proof.
move=> hw hP hY hC; apply: wf_ssub; first exact: wf_wscale.
exact: wf_smul (wf_wscale hw hP) hC.
Qed.

Lemma mx_of_spec_resid n m s w Phi Y C :
  wok n w -> wf n m Phi -> wf n s Y -> wf m s C ->
  mx_of n s (spec_resid n w Phi Y C)
  = Wm n w *m (mx_of n s Y - mx_of n m Phi *m mx_of m s C).
Proof.
move=> hw hP hY hC; rewrite /spec_resid.
rewrite mx_of_ssub; [|exact: wf_wscale|exact: wf_smul (wf_wscale hw hP) hC].
rewrite (mx_of_smul (wf_wscale hw hP) hC) !mx_of_wscale //.
by rewrite mulmxBr mulmxA.
Qed.

(* column-after-column stacking of the residual vector *)
Lemma resid_layout n m s w Phi Y C i j (lt_in : (i < n)%N) (lt_js : (j < s)%N) :
  wok n w -> wf n m Phi -> wf n s Y -> wf m s C ->
  nth 0 (flatten (spec_resid n w Phi Y C)) (j * n + i)
  = (Wm n w *m (mx_of n s Y - mx_of n m Phi *m mx_of m s C))
      (Ordinal lt_in) (Ordinal lt_js).
Proof.
move=> hw hP hY hC; rewrite -mx_of_spec_resid // mxE /=.
exact: (nth_flatten_cm (wf_spec_resid hw hP hY hC)).
Qed.

Lemma size_resid_flat n m s w Phi Y C :
  wok n w -> wf n m Phi -> wf n s Y -> wf m s C ->
  size (flatten (spec_resid n w Phi Y C)) = (s * n)%N.
Proof. by move=> hw hP hY hC; rewrite (size_flatten_wf (wf_spec_resid hw hP hY hC)). Qed.

(* the residual of the reported coefficients is orthogonal to range(W Phi) *)
Lemma spec_resid_orth n m s w Phi Y C :
  wok n w -> wf n m Phi -> wf n s Y -> spec_coeffs n m w Phi Y = Some C ->
  (Wm n w *m mx_of n m Phi)^T *m mx_of n s (spec_resid n w Phi Y C) = 0.
Proof.
move=> hw hP hY hC; have [wC _ ne] := spec_coeffs_normal hw hP hY hC.
by rewrite (mx_of_spec_resid hw hP hY wC) mulmxBr mulmxA.
Qed.

(* ================================================================== D *)
(* Kaufman Jacobian (C03)                                               *)

Lemma proj_compl_mx n m s A V M :
  wf n m A -> wf n s V -> proj_compl n m A V = Some M ->
  [/\ wf n s M, (mx_of n m A)^T *m mx_of n m A \in unitmx
    & mx_of n s M
      = (1%:M - mx_of n m A *m invmx ((mx_of n m A)^T *m mx_of n m A) *m (mx_of n m A)^T)
        *m mx_of n s V].
Proof.
move=> hA hV; rewrite /proj_compl.
case e: (inv_cert m (sgram n A)) => [X|] // [<-].
have [hX] := inv_cert_sound (wf_sgram hA) e.
rewrite (mx_of_sgram hA) => uG eX.
have hAt := wf_strans hA.
have h1 : wf m s (smul m (strans n A) V) := wf_smul hAt hV.
have h2 : wf m s (smul m X (smul m (strans n A) V)) := wf_smul hX h1.
have h3 := wf_smul hA h2.
split=> //; first exact: wf_ssub.
rewrite (mx_of_ssub hV h3) (mx_of_smul hA h2) (mx_of_smul hX h1) (mx_of_smul hAt hV).
by rewrite mx_of_strans // eX mulmxBl mul1mx !mulmxA.
Qed.

Lemma spec_jac_col_mx n m s w Phi Dk C jc :
  wok n w -> wf n m Phi -> wf n m Dk -> wf m s C ->
  spec_jac_col n m w Phi Dk C = Some jc ->
  let A := Wm n w *m mx_of n m Phi in
  let P := A *m invmx (A^T *m A) *m A^T in
  exists M,
    [/\ jc = flatten M, wf n s M,
        mx_of n s M = - ((1%:M - P) *m (Wm n w *m mx_of n m Dk *m mx_of m s C)),
        A^T *m mx_of n s M = 0 & is_proj_onto A P].
Proof.
move=> hw hP hD hC; rewrite /spec_jac_col.
case e: (proj_compl _ _ _ _) => [M0|] // [<-].
set A := Wm n w *m mx_of n m Phi; set P := A *m _ *m _.
have hV : wf n s (smul n (wscale w Dk) C) := wf_smul (wf_wscale hw hD) hC.
have [hM0 uG eM0] := proj_compl_mx (wf_wscale hw hP) hV e.
move: uG eM0; rewrite (mx_of_smul (wf_wscale hw hD) hC) !mx_of_wscale // -/A -/P.
move=> uG eM0; have pP : is_proj_onto A P := proj_gram uG.
exists (sopp M0); split=> //; first exact: wf_sopp.
  by rewrite mx_of_sopp eM0.
by rewrite mx_of_sopp eM0 -kaufman_form; apply: kaufman_orth.
Qed.

(* ================================================================== F *)
(* fit statistics (C12, C13, C14)                                       *)

Lemma svnrm2_ge0 v : 0 <= svnrm2 v.
Proof.
rewrite (svnrm2_sum (erefl (size v))); apply: sumr_ge0 => i _; exact: sqr_ge0.
Qed.

Section Stats.
Variables (n m : nat) (w : option (seq F)) (Phi : smx F) (Ds : seq (smx F)) (y c : seq F).
Hypotheses (hw : wok n w) (hP : wf n m Phi) (hD : all (wf n m) Ds).
Hypotheses (sc : size c = m) (sy : size y = n).

Let p := size Ds.
Let q := (m + p)%N.
Let J := mfj n Phi Ds c.

Lemma wf_Dk k : (k < p)%N -> wf n m (nth [::] Ds k).
Proof. by move=> lt_k; apply: (allP hD); rewrite mem_nth. Qed.

Lemma wf_mfj_nl : wf n p [seq lincomb n Dk c | Dk <- Ds].
Proof.
apply/wfP; rewrite size_map; split=> // k lt_k.
by rewrite (nth_map [::]) // size_lincomb // (wf_all (wf_Dk lt_k)).
Qed.

Lemma wf_mfj : wf n (m + size Ds) (mfj n Phi Ds c).
Proof. exact: wf_cat hP wf_mfj_nl. Qed.

(* coefficients first, in basis order; then the nonlinear parameters in declaration order *)
Lemma mx_of_mfj :
  mx_of n (m + size Ds) (mfj n Phi Ds c)
  = row_mx (mx_of n m Phi)
           (\matrix_(i < n, k < size Ds) (mx_of n m (nth [::] Ds k) *m cv_of m c) i 0).
Proof.
rewrite /mfj (mx_of_cat hP wf_mfj_nl); congr row_mx.
apply/matrixP => i k; rewrite [LHS]mxE [RHS]mxE /ent (nth_map [::]) //.
by rewrite -(cv_of_lincomb c (wf_Dk (ltn_ord k))) mxE.
Qed.

Lemma mfj_col_lin i j : (j < m)%N -> ent (mfj n Phi Ds c) i j = ent Phi i j.
Proof. by move=> lt_j; rewrite /ent /mfj nth_cat (wf_size hP) lt_j. Qed.

Lemma mfj_col_nl (i : 'I_n) k : (k < size Ds)%N ->
  ent (mfj n Phi Ds c) i (m + k) = (mx_of n m (nth [::] Ds k) *m cv_of m c) i 0.
Proof.
move=> lt_k; rewrite /ent /mfj nth_cat (wf_size hP) ltnNge leq_addr /= addKn.
by rewrite (nth_map [::]) // -(cv_of_lincomb c (wf_Dk lt_k)) mxE.
Qed.

Lemma spec_stats_none_underdetermined :
  (n <= m + size Ds)%N -> spec_stats n m (size Ds) w Phi Ds y c = None.
Proof. by rewrite /spec_stats => ->. Qed.

Variable st : stats_spec F.
Hypothesis hst : spec_stats n m (size Ds) w Phi Ds y c = Some st.

Let Hm := Wm n w *m mx_of n (m + size Ds) (mfj n Phi Ds c).
Let Cov := mx_of (m + size Ds) (m + size Ds) (st_cov st).

Lemma spec_stats_sound :
  [/\ (m + size Ds < n)%N, st_dof st = (n - (m + size Ds))%N,
      st_chi2 st * (st_dof st)%:R = svnrm2 (st_rw st),
      cv_of n (st_rw st) = Wm n w *m (cv_of n y - mx_of n m Phi *m cv_of m c)
    & let H := Wm n w *m mx_of n (m + size Ds) (mfj n Phi Ds c) in
      H^T *m H \in unitmx /\
      mx_of (m + size Ds) (m + size Ds) (st_cov st) = st_chi2 st *: invmx (H^T *m H)].
Proof.
move: hst; rewrite /spec_stats; case: ifP => // /negbT; rewrite -ltnNge => lt_qn.
case e: (inv_cert _ _) => [X|] // [<-] /=.
have hH := wf_wscale hw wf_mfj.
have [hX uG eX] := inv_cert_sound (wf_sgram hH) e.
have hWP := wf_wscale hw hP.
split=> //.
- by rewrite divfK // pnatr_eq0 subn_eq0 -ltnNge.
- rewrite cv_of_svsub; last by rewrite (size_wscalev hw sy) size_lincomb // (wf_all hWP).
  by rewrite (cv_of_wscalev hw sy) (cv_of_lincomb c hWP) mx_of_wscale // mulmxBr mulmxA.
- move: uG eX; rewrite (mx_of_sgram hH) mx_of_wscale ?wf_mfj // => uG eX.
  by split=> //; rewrite mx_of_sscale eX.
Qed.

Lemma spec_stats_unit : Hm^T *m Hm \in unitmx.
Proof. by case: spec_stats_sound => _ _ _ _ []. Qed.

Lemma spec_stats_covE : Cov = st_chi2 st *: invmx (Hm^T *m Hm).
Proof. by case: spec_stats_sound => _ _ _ _ []. Qed.

Lemma spec_stats_wf_cov : wf (m + size Ds) (m + size Ds) (st_cov st).
Proof.
move: hst; rewrite /spec_stats; case: ifP => // _.
case e: (inv_cert _ _) => [X|] // [<-] /=.
have [hX _ _] := inv_cert_sound (wf_sgram (wf_wscale hw wf_mfj)) e.
exact: wf_sscale.
Qed.

Lemma spec_stats_sig2E :
  st_sig2 st = [seq svdot j (lincomb (m + size Ds) (st_cov st) j)
               | j <- strans n (mfj n Phi Ds c)].
Proof.
move: hst; rewrite /spec_stats; case: ifP => // _.
by case e: (inv_cert _ _) => [X|] // [<-].
Qed.

Lemma spec_stats_size_rw : size (st_rw st) = n.
Proof.
move: hst; rewrite /spec_stats; case: ifP => // _.
case e: (inv_cert _ _) => [X|] // [<-] /=.
rewrite size_svsub (size_wscalev hw sy) size_lincomb ?minnn //.
exact: (wf_all (wf_wscale hw hP)).
Qed.

Lemma dof_gt0 : (0 < st_dof st)%N.
Proof. by case: spec_stats_sound => lt -> _ _ _; rewrite subn_gt0. Qed.

Lemma chi2_ge0 : 0 <= st_chi2 st.
Proof.
case: spec_stats_sound => _ _ e _ _.
by rewrite -(pmulr_lge0 _ (_ : 0 < (st_dof st)%:R)) ?ltr0n ?dof_gt0 // e svnrm2_ge0.
Qed.

Lemma cov_sym : Cov^T = Cov.
Proof. by rewrite spec_stats_covE linearZ /= (gram_inv_sym Hm). Qed.

Lemma cov_diag_ge0 (i : 'I_(m + size Ds)) : 0 <= Cov i i.
Proof.
rewrite spec_stats_covE.
exact: (gram_inv_scale_diag_ge0 spec_stats_unit _ chi2_ge0).
Qed.

Lemma cov_cs (i j : 'I_(m + size Ds)) : (Cov i j) ^+ 2 <= Cov i i * Cov j j.
Proof. rewrite spec_stats_covE; exact: (gram_inv_scale_cs spec_stats_unit). Qed.

(* sigma^2 of the model prediction at sample i: j_i Cov j_i^T with j_i row i of the
   UNWEIGHTED model-function Jacobian *)
Let Jm := mx_of n (m + size Ds) (mfj n Phi Ds c).

Lemma size_sig2 : size (st_sig2 st) = n.
Proof. by rewrite spec_stats_sig2E size_map size_strans. Qed.

Lemma sig2_form (i : 'I_n) :
  nth 0 (st_sig2 st) i = (row i Jm *m Cov *m (row i Jm)^T) 0 0.
Proof.
rewrite spec_stats_sig2E (nth_map [::]) ?size_strans // nth_strans //.
set r := [seq nth 0 c0 i | c0 <- _].
have sr : size r = (m + size Ds)%N by rewrite size_map (wf_size wf_mfj).
have er : cv_of (m + size Ds) r = (row i Jm)^T.
  apply/matrixP => k l; rewrite !mxE /r (nth_map [::]) ?(wf_size wf_mfj) //.
rewrite (svdotE sr) ?size_lincomb ?(wf_all spec_stats_wf_cov) //.
by rewrite (cv_of_lincomb r spec_stats_wf_cov) er trmxK mulmxA.
Qed.

Lemma sig2_nth_ge0 (i : 'I_n) : 0 <= nth 0 (st_sig2 st) i.
Proof.
rewrite sig2_form spec_stats_covE -scalemxAr -scalemxAl mxE.
apply: mulr_ge0; first exact: chi2_ge0.
rewrite -mulmxA -{1}[row i Jm]trmxK.
exact: (quad_ge0 spec_stats_unit).
Qed.

(* a sample at which the whole model-function Jacobian row vanishes has sigma_i = 0 exactly, whatever the covariance *)
Lemma sig2_zero_row (i : 'I_n) : row i Jm = 0 -> nth 0 (st_sig2 st) i = 0.
Proof. by move=> h; rewrite sig2_form h !mul0mx mxE. Qed.

Lemma sig2_ge0 : all (fun x : F => 0 <= x) (st_sig2 st).
Proof.
apply/(all_nthP 0) => i; rewrite size_sig2 => lt_in.
exact: (sig2_nth_ge0 (Ordinal lt_in)).
Qed.

End Stats.

(* ================================================================== E *)
(* multiple right-hand sides (C07): everything acts column by column    *)

Lemma spec_coeffsE n m w Phi Y :
  spec_coeffs n m w Phi Y
  = omap (fun X => [seq lincomb m X (lincomb m (strans n (wscale w Phi)) (wscalev w y))
                   | y <- Y])
         (inv_cert m (sgram n (wscale w Phi))).
Proof.
rewrite /spec_coeffs /slsq; case: (inv_cert _ _) => //= X.
by rewrite /smul (wscale_map w Y) -!map_comp.
Qed.

Lemma spec_coeffs_perm n m w Phi Y C (idx : seq nat) :
  spec_coeffs n m w Phi Y = Some C -> all (fun i => (i < size Y)%N) idx ->
  spec_coeffs n m w Phi [seq nth [::] Y i | i <- idx] = Some [seq nth [::] C i | i <- idx].
Proof.
rewrite !spec_coeffsE; case: (inv_cert _ _) => //= X [<-] /allP h.
congr Some; rewrite -map_comp; apply/eq_in_map => i /h lt_i /=.
by rewrite (nth_map [::]).
Qed.

Lemma spec_coeffs_col n m w Phi Y C :
  spec_coeffs n m w Phi Y = Some C ->
  forall j, (j < size Y)%N ->
  spec_coeffs n m w Phi [:: nth [::] Y j] = Some [:: nth [::] C j].
Proof.
move=> hC j lt_j; apply: (spec_coeffs_perm (idx := [:: j]) hC).
by rewrite /= lt_j.
Qed.

Lemma spec_coeffs_size n m w Phi Y C :
  spec_coeffs n m w Phi Y = Some C -> size C = size Y.
Proof. by rewrite spec_coeffsE; case: (inv_cert _ _) => //= X [<-]; rewrite size_map. Qed.

Lemma spec_resid_col n w Phi Y C j :
  (j < size Y)%N -> size C = size Y ->
  nth [::] (spec_resid n w Phi Y C) j
  = head [::] (spec_resid n w Phi [:: nth [::] Y j] [:: nth [::] C j]).
Proof.
move=> lt_j sC; rewrite /spec_resid /ssub /smul (wscale_map w Y) (wscale_map w [:: _]) /=.
rewrite (nth_map ([::], [::])) ?size_zip ?size_map ?sC ?minnn //.
by rewrite nth_zip ?size_map //= !(nth_map [::]) ?sC.
Qed.

Definition kaufman_col n m w Phi Dk X (c : seq F) : seq F :=
  let v := lincomb n (wscale w Dk) c in
  svopp (svsub v (lincomb n (wscale w Phi)
                   (lincomb m X (lincomb m (strans n (wscale w Phi)) v)))).

Lemma spec_jac_colE n m w Phi Dk C :
  spec_jac_col n m w Phi Dk C
  = omap (fun X => flatten [seq kaufman_col n m w Phi Dk X c | c <- C])
         (inv_cert m (sgram n (wscale w Phi))).
Proof.
rewrite /spec_jac_col /proj_compl; case: (inv_cert _ _) => //= X.
by rewrite /sopp /ssub /smul -!map_comp zip_map -!map_comp.
Qed.

Lemma size_kaufman_col n m w Phi Dk X c :
  wok n w -> wf n m Phi -> wf n m Dk -> size (kaufman_col n m w Phi Dk X c) = n.
Proof.
move=> hw hP hD; rewrite /kaufman_col size_svopp size_svsub.
by rewrite !size_lincomb ?minnn // ?(wf_all (wf_wscale hw hP)) ?(wf_all (wf_wscale hw hD)).
Qed.

Lemma flatten_block (T : Type) n (M : seq (seq T)) j :
  all (fun l : seq T => size l == n) M -> (j < size M)%N ->
  take n (drop (j * n) (flatten M)) = nth [::] M j.
Proof.
elim: M j => // l M IH [|j] /= /andP [/eqP sl hM].
  by rewrite mul0n drop0 -sl take_size_cat.
rewrite ltnS => lt_j; rewrite mulSn drop_cat sl ltnNge leq_addr /= addKn.
exact: IH.
Qed.

(* the j-th block of length n of Kaufman column k is the Kaufman column of the
   single-right-hand-side problem with coefficient column j *)
Lemma spec_jac_col_block n m w Phi Dk C jc j :
  wok n w -> wf n m Phi -> wf n m Dk -> (j < size C)%N ->
  spec_jac_col n m w Phi Dk C = Some jc ->
  spec_jac_col n m w Phi Dk [:: nth [::] C j] = Some (take n (drop (j * n) jc)).
Proof.
move=> hw hP hD lt_j; rewrite !spec_jac_colE.
case: (inv_cert _ _) => //= X [<-]; rewrite cats0; congr Some.
rewrite flatten_block ?size_map // ?(nth_map [::]) //.
by rewrite all_map; apply/allP => c _ /=; rewrite size_kaufman_col.
Qed.

End NumericP.

Print Assumptions wf_wscale.
Print Assumptions mx_of_wscale.
Print Assumptions wscale_unit.
Print Assumptions spec_coeffs_prescaled.
Print Assumptions spec_resid_prescaled.
Print Assumptions spec_jac_col_prescaled.
Print Assumptions wscale_zero_row.
Print Assumptions spec_coeffs_zero_weight.
Print Assumptions spec_coeffs_normal.
Print Assumptions spec_coeffs_opt.
Print Assumptions spec_coeffs_unique.
Print Assumptions spec_coeffs_unique_normal.
Print Assumptions spec_coeffs_eq.
Print Assumptions spec_coeffs_linear.
Print Assumptions svd_solve_is_lsq.
Print Assumptions svd_resid.
Print Assumptions svd_kaufman.
Print Assumptions svd_kaufman_orth.
Print Assumptions wf_spec_resid.
Print Assumptions mx_of_spec_resid.
Print Assumptions resid_layout.
Print Assumptions spec_resid_orth.
Print Assumptions proj_compl_mx.
Print Assumptions spec_jac_col_mx.
Print Assumptions spec_coeffs_col.
Print Assumptions spec_resid_col.
Print Assumptions spec_coeffs_perm.
Print Assumptions spec_jac_col_block.
Print Assumptions wf_mfj.
Print Assumptions mx_of_mfj.
Print Assumptions mfj_col_lin.
Print Assumptions mfj_col_nl.
Print Assumptions spec_stats_sound.
Print Assumptions spec_stats_none_underdetermined.
Print Assumptions chi2_ge0.
Print Assumptions cov_sym.
Print Assumptions cov_diag_ge0.
Print Assumptions cov_cs.
Print Assumptions sig2_form.
Print Assumptions sig2_ge0.
