(* proofs about ProblemBuilder.v (property C18) *)
From Coq Require Import List Bool Arith Lia Permutation.
Import ListNotations.
From VP Require Import Model.Protocol Model.ProblemBuilder Proofs.ProtocolP.
Set Implicit Arguments.

Section BuilderP.
  Variables V Mx Cache Col Wv E St : Type.
  Variable um : umodel V Mx St.
  Variable solve : option Wv -> E -> Mx -> Mx -> option Cache.
  Variables (rows cols : Mx -> nat) (wlen : Wv -> nat).
  Variable wmul : option Wv -> Mx -> Mx.
  Variables (eabs : E -> E) (edefault : E).

  Notation validate := (@ProblemBuilder.validate Mx Wv E rows cols wlen).
  Notation build := (@ProblemBuilder.build V Mx Cache Wv E St um solve rows cols wlen wmul edefault).
  Notation build_ops := (@ProblemBuilder.build_ops V Mx Cache Wv E St um solve rows cols wlen wmul eabs edefault).
  Notation consistent := (@ProblemBuilder.consistent Mx Wv E rows cols wlen).
  Notation bfold := (@ProblemBuilder.bfold Mx Wv E eabs).
  Notation bstep := (@ProblemBuilder.bstep Mx Wv E eabs).

  Lemma validate_none_iff nout s : validate nout s = None <-> consistent nout s.
  Proof.
    unfold ProblemBuilder.validate, ProblemBuilder.consistent.
    destruct (bY s) as [y|] eqn:HY.
    - destruct (nout =? 0) eqn:H0; cbn [orb].
      { apply Nat.eqb_eq in H0. split; [discriminate|].
        intros (y' & Hy' & Hpos & _). lia. }
      apply Nat.eqb_neq in H0.
      destruct (rows y * cols y =? 0) eqn:H1.
      { apply Nat.eqb_eq in H1. split; [discriminate|].
        intros (y' & Hy' & _ & Hp & _). inversion Hy'; subst. lia. }
      apply Nat.eqb_neq in H1.
      destruct (nout =? rows y) eqn:H2; cbn [negb].
      + apply Nat.eqb_eq in H2.
        destruct (bW s) as [w|] eqn:HW.
        * destruct (wlen w =? rows y) eqn:H3.
          -- apply Nat.eqb_eq in H3. split; [intros _|reflexivity].
             exists y. repeat split; try lia. intros w' Hw'. inversion Hw'; subst. exact H3.
          -- apply Nat.eqb_neq in H3. split; [discriminate|].
             intros (y' & Hy' & _ & _ & _ & Hw). inversion Hy'; subst.
             specialize (Hw w eq_refl). lia.
        * split; [intros _|reflexivity].
          exists y. repeat split; try lia. intros w' Hw'. discriminate.
      + apply Nat.eqb_neq in H2. split; [discriminate|].
        intros (y' & Hy' & _ & _ & Hr & _). inversion Hy'; subst. lia.
    - split; [discriminate|]. intros (y' & Hy' & _). discriminate.
  Qed.

  (* C18: build succeeds exactly on consistent inputs *)
  Theorem build_ok_iff st s :
    (exists p, build st s = inr p) <-> consistent (um_nout um st) s.
  Proof.
    rewrite <- validate_none_iff. unfold ProblemBuilder.build.
    destruct (validate (um_nout um st) s) as [e|] eqn:Hv.
    - split; [intros (p & Hp); discriminate | discriminate].
    - split; [reflexivity|]. intros _.
      destruct (bY s) as [y|] eqn:HY.
      + eexists; reflexivity.
      + unfold ProblemBuilder.validate in Hv. rewrite HY in Hv. discriminate.
  Qed.

  (* what each error kind means *)
  Definition err_names_defect (nout : nat) (s : bstate Mx Wv E) (e : berr) : Prop :=
    match e with
    | YDataMissing => bY s = None
    | ZeroLengthVector => exists y, bY s = Some y /\ (nout = 0 \/ rows y * cols y = 0)
    | InvalidLengthOfData x yl =>
        exists y, bY s = Some y /\ x = nout /\ yl = rows y /\ nout <> rows y /\
                  0 < nout /\ 0 < rows y * cols y
    | InvalidLengthOfWeights =>
        exists y w, bY s = Some y /\ bW s = Some w /\ wlen w <> rows y /\ rows y = nout
    end.

  Lemma validate_some_sound nout s e : validate nout s = Some e -> err_names_defect nout s e.
  Proof.
    unfold ProblemBuilder.validate.
    destruct (bY s) as [y|] eqn:HY.
    - destruct (nout =? 0) eqn:H0; cbn [orb].
      { intros H; inversion H; subst. apply Nat.eqb_eq in H0. exists y. auto. }
      destruct (rows y * cols y =? 0) eqn:H1.
      { intros H; inversion H; subst. apply Nat.eqb_eq in H1. exists y. auto. }
      apply Nat.eqb_neq in H0. apply Nat.eqb_neq in H1.
      destruct (nout =? rows y) eqn:H2; cbn [negb].
      + apply Nat.eqb_eq in H2. destruct (bW s) as [w|] eqn:HW; [|discriminate].
        destruct (wlen w =? rows y) eqn:H3; [discriminate|].
        intros H; inversion H; subst. apply Nat.eqb_neq in H3.
        exists y, w. auto.
      + apply Nat.eqb_neq in H2. intros H; inversion H; subst.
        exists y. repeat split; auto; lia.
    - intros H; inversion H; subst. exact HY.
  Qed.

  Theorem build_err_sound st s e :
    build st s = inl e -> err_names_defect (um_nout um st) s e.
  Proof.
    unfold ProblemBuilder.build.
    destruct (validate (um_nout um st) s) as [e'|] eqn:Hv.
    - intros H; inversion H; subst. apply validate_some_sound; assumption.
    - destruct (bY s) eqn:HY; [discriminate|].
      unfold ProblemBuilder.validate in Hv. rewrite HY in Hv. discriminate.
  Qed.

  (* the builder state after any call sequence is "the last call of each kind" *)
  Lemma fold_last os s :
    fold_left bstep os s =
    {| bY := last_obs os (bY s); bW := last_w os (bW s); bE := last_eps eabs os (bE s) |}.
  Proof.
    revert s. induction os as [|o os IH]; intros s; cbn [fold_left last_obs last_w last_eps].
    - destruct s; reflexivity.
    - rewrite IH. destruct o; reflexivity.
  Qed.

  Theorem bfold_last os :
    bfold os = {| bY := last_obs os None; bW := last_w os None; bE := last_eps eabs os None |}.
  Proof. unfold ProblemBuilder.bfold. rewrite fold_last. reflexivity. Qed.

  (* order / repetition invariance: only the last call of each kind matters *)
  Theorem build_order st os os' :
    last_obs os None = last_obs os' None ->
    last_w os None = last_w os' None ->
    last_eps eabs os None = last_eps eabs os' None ->
    build_ops st os = build_ops st os'.
  Proof.
    intros H1 H2 H3. unfold ProblemBuilder.build_ops. rewrite !bfold_last, H1, H2, H3. reflexivity.
  Qed.

  (* with at most one call per kind, every permutation of the calls builds the same problem *)
  Definition kind (o : bop Mx Wv E) : nat :=
    match o with BObs _ => 0 | BWeights _ => 1 | BEps _ => 2 end.

  Lemma last_obs_notin os acc : ~ In 0 (map kind os) -> last_obs os acc = acc.
  Proof.
    revert acc. induction os as [|o os IH]; intros acc H; cbn [last_obs]; [reflexivity|].
    destruct o; cbn in H; try (apply IH; tauto). exfalso; tauto.
  Qed.
  Lemma last_w_notin os acc : ~ In 1 (map kind os) -> last_w os acc = acc.
  Proof.
    revert acc. induction os as [|o os IH]; intros acc H; cbn [last_w]; [reflexivity|].
    destruct o; cbn in H; try (apply IH; tauto). exfalso; tauto.
  Qed.
  Lemma last_eps_notin os acc : ~ In 2 (map kind os) -> last_eps eabs os acc = acc.
  Proof.
    revert acc. induction os as [|o os IH]; intros acc H; cbn [last_eps]; [reflexivity|].
    destruct o; cbn in H; try (apply IH; tauto). exfalso; tauto.
  Qed.

  Lemma last_obs_in os acc y : NoDup (map kind os) -> In (BObs y) os -> last_obs os acc = Some y.
  Proof.
    revert acc. induction os as [|o os IH]; intros acc ND HI; [destruct HI|].
    cbn [map] in ND. inversion ND as [|k ks Hnot ND']; subst.
    destruct HI as [->|HI]; cbn [last_obs].
    - apply last_obs_notin. exact Hnot.
    - destruct o; apply IH; assumption.
  Qed.
  Lemma last_w_in os acc w : NoDup (map kind os) -> In (BWeights w) os -> last_w os acc = Some w.
  Proof.
    revert acc. induction os as [|o os IH]; intros acc ND HI; [destruct HI|].
    cbn [map] in ND. inversion ND as [|k ks Hnot ND']; subst.
    destruct HI as [->|HI]; cbn [last_w].
    - apply last_w_notin. exact Hnot.
    - destruct o; apply IH; assumption.
  Qed.
  Lemma last_eps_in os acc e :
    NoDup (map kind os) -> In (BEps e) os -> last_eps eabs os acc = Some (eabs e).
  Proof.
    revert acc. induction os as [|o os IH]; intros acc ND HI; [destruct HI|].
    cbn [map] in ND. inversion ND as [|k ks Hnot ND']; subst.
    destruct HI as [->|HI]; cbn [last_eps].
    - apply last_eps_notin. exact Hnot.
    - destruct o; apply IH; assumption.
  Qed.

  Lemma last_obs_perm os os' :
    NoDup (map kind os) -> Permutation os os' -> last_obs os None = last_obs os' None.
  Proof.
    intros ND HP.
    assert (ND' : NoDup (map kind os')).
    { eapply Permutation_NoDup; [apply Permutation_map; exact HP | exact ND]. }
    destruct (in_dec Nat.eq_dec 0 (map kind os)) as [Hin|Hnin].
    - apply in_map_iff in Hin. destruct Hin as (o & Hk & Ho). destruct o; try discriminate.
      rewrite (@last_obs_in os None _ ND Ho).
      symmetry. apply last_obs_in; [exact ND'|]. eapply Permutation_in; eassumption.
    - rewrite (@last_obs_notin os None Hnin). symmetry. apply last_obs_notin.
      intros H. apply Hnin. eapply Permutation_in; [apply Permutation_map, Permutation_sym; exact HP| exact H].
  Qed.
  Lemma last_w_perm os os' :
    NoDup (map kind os) -> Permutation os os' -> last_w os None = last_w os' None.
  Proof.
    intros ND HP.
    assert (ND' : NoDup (map kind os')).
    { eapply Permutation_NoDup; [apply Permutation_map; exact HP | exact ND]. }
    destruct (in_dec Nat.eq_dec 1 (map kind os)) as [Hin|Hnin].
    - apply in_map_iff in Hin. destruct Hin as (o & Hk & Ho). destruct o; try discriminate.
      rewrite (@last_w_in os None _ ND Ho).
      symmetry. apply last_w_in; [exact ND'|]. eapply Permutation_in; eassumption.
    - rewrite (@last_w_notin os None Hnin). symmetry. apply last_w_notin.
      intros H. apply Hnin. eapply Permutation_in; [apply Permutation_map, Permutation_sym; exact HP| exact H].
  Qed.
  Lemma last_eps_perm os os' :
    NoDup (map kind os) -> Permutation os os' -> last_eps eabs os None = last_eps eabs os' None.
  Proof.
    intros ND HP.
    assert (ND' : NoDup (map kind os')).
    { eapply Permutation_NoDup; [apply Permutation_map; exact HP | exact ND]. }
    destruct (in_dec Nat.eq_dec 2 (map kind os)) as [Hin|Hnin].
    - apply in_map_iff in Hin. destruct Hin as (o & Hk & Ho). destruct o; try discriminate.
      rewrite (@last_eps_in os None _ ND Ho).
      symmetry. apply last_eps_in; [exact ND'|]. eapply Permutation_in; eassumption.
    - rewrite (@last_eps_notin os None Hnin). symmetry. apply last_eps_notin.
      intros H. apply Hnin. eapply Permutation_in; [apply Permutation_map, Permutation_sym; exact HP| exact H].
  Qed.

  Theorem build_perm st os os' :
    NoDup (map kind os) -> Permutation os os' -> build_ops st os = build_ops st os'.
  Proof.
    intros ND HP. apply build_order;
      [apply last_obs_perm | apply last_w_perm | apply last_eps_perm]; assumption.
  Qed.

  (* threshold: absolute value of the last epsilon call, machine epsilon if none *)
  Theorem build_eps st os p :
    build_ops st os = inr p ->
    p_eps p = match last_eps eabs os None with Some e => e | None => edefault end.
  Proof.
    unfold ProblemBuilder.build_ops, ProblemBuilder.build. rewrite bfold_last.
    destruct (validate _ _); [discriminate|]. cbn [bY bW bE].
    destruct (last_obs os None); [|discriminate].
    intros H; inversion H; subst; clear H.
    destruct (set_params_frame um solve
      {| p_st := st; p_Yw := wmul (last_w os None) m;
         p_eps := eps_of edefault {| bY := Some m; bW := last_w os None; bE := last_eps eabs os None |};
         p_w := last_w os None; p_cached := None |} (um_params um st)) as (_ & -> & _).
    reflexivity.
  Qed.

  (* weights are applied to the observations exactly once, and are the ones kept by the problem *)
  Theorem build_data st os p :
    build_ops st os = inr p ->
    exists y, last_obs os None = Some y /\
              p_Yw p = wmul (last_w os None) y /\ p_w p = last_w os None.
  Proof.
    unfold ProblemBuilder.build_ops, ProblemBuilder.build. rewrite bfold_last.
    destruct (validate _ _); [discriminate|]. cbn [bY bW bE].
    destruct (last_obs os None) as [y|]; [|discriminate].
    intros H; inversion H; subst; clear H. exists y.
    destruct (set_params_frame um solve
      {| p_st := st; p_Yw := wmul (last_w os None) y;
         p_eps := eps_of edefault {| bY := Some y; bW := last_w os None; bE := last_eps eabs os None |};
         p_w := last_w os None; p_cached := None |} (um_params um st)) as (-> & _ & ->).
    auto.
  Qed.

  (* the freshly built problem went through exactly one parameter update at the model's own
     parameters: cache present iff the model accepted them, evaluated, and the solve succeeded *)
  Theorem build_cache st os p :
    build_ops st os = inr p ->
    let '(st1, ok) := um_set um st (um_params um st) in
    if ok then
      let '(st2, phi) := um_eval um st1 in
      p_st p = st2 /\
      p_cached p = match phi with
                   | Some f => solve (p_w p) (p_eps p) f (p_Yw p)
                   | None => None end
    else p_st p = st1 /\ p_cached p = None.
  Proof.
    unfold ProblemBuilder.build_ops, ProblemBuilder.build.
    destruct (validate _ _); [discriminate|].
    destruct (bY (bfold os)) as [y|]; [|discriminate].
    intros H; inversion H; subst; clear H.
    match goal with |- context [Protocol.set_params um solve ?q ?a] =>
      pose proof (set_params_spec um solve q a) as Hs;
      destruct (set_params_frame um solve q a) as (HY & HE & HW) end.
    cbn [p_st p_w p_eps p_Yw] in Hs.
    destruct (um_set um st (um_params um st)) as [st1 ok].
    destruct ok.
    - destruct (um_eval um st1) as [st2 phi]. rewrite HY, HE, HW. exact Hs.
    - exact Hs.
  Qed.

  (* under the trait contract (a successful set_params stores the vector; eval leaves the
     parameters alone) the new problem reports the model's initial parameters *)
  Theorem build_params st os p :
    (forall s a s', um_set um s a = (s', true) -> um_params um s' = a) ->
    (forall s a s', um_set um s a = (s', false) -> um_params um s' = um_params um s) ->
    (forall s s' r, um_eval um s = (s', r) -> um_params um s' = um_params um s) ->
    build_ops st os = inr p -> params um p = um_params um st.
  Proof.
    intros Hset Hfail Hev Hb. pose proof (build_cache _ _ Hb) as Hc. unfold params.
    destruct (um_set um st (um_params um st)) as [st1 ok] eqn:Hs.
    destruct ok.
    - destruct (um_eval um st1) as [st2 phi] eqn:He. destruct Hc as [-> _].
      rewrite (Hev _ _ _ He). apply (Hset _ _ _ Hs).
    - destruct Hc as [-> _]. apply (Hfail _ _ _ Hs).
  Qed.
End BuilderP.
