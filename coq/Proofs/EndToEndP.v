(* EndToEndP.v : the protocol layer (Model/Protocol.v, Model/LMDriver.v: ANY user model, ANY history of
   operations, ANY script of optimizer decisions) composed with the numeric layer (Model/Numeric.v:
   exact least squares over a real field).  The abstract [solve] of the protocol is instantiated with
   the specification "weight the basis matrix, solve the least-squares problem against the weighted
   data, form the residual matrix"; the invariants proved once for every instance (coherent_run,
   minimize_post) then say, in terms of MathComp matrices, what C01 / C02 / C04 / C10 state about
   the state a caller or the optimizer leaves behind. *)
From mathcomp Require Import all_ssreflect all_algebra.
From VP Require Import Base.LinAlg Base.SeqMx Base.Refine Model.Numeric Proofs.NumericP.
From VP Require Import Model.Protocol Model.LMDriver Proofs.ProtocolP Proofs.LMDriverP.
Set Implicit Arguments. Unset Strict Implicit. Unset Printing Implicit Defensive.
Import GRing.Theory Num.Theory.
Local Open Scope ring_scope.

Section EndToEnd.
Variable F : realFieldType.
Variables (n m s : nat).                 (* samples, basis functions, right-hand sides *)
Variables (V St Col : Type).
Variable um : umodel V (smx F) St.       (* the user's model: stateful, may fail at any call *)
Variables (Phi : V -> smx F) (D : nat -> V -> smx F).
Hypothesis FF : faulty_functional um Phi D.        (* the trait contract *)
Hypothesis shape : forall a, wf n m (Phi a).       (* evaluations are N x M *)

(* cache = (coefficients, residual matrix, the basis matrix they were computed from — the code keeps its SVD) *)
Definition num_cache : Type := (smx F * smx F * smx F)%type.

(* mod.rs set_params, numeric content: Phi_w = W Phi; C = argmin || Y_w - Phi_w C ||; R = Y_w - Phi_w C.
   None: the weighted basis matrix has no full column rank (this exact specification covers the full-rank case;
   the truncated solve is Proofs/MinNormP.v) *)
Definition num_solve (w : option (seq F)) (e : unit) (P Yw : smx F) : option num_cache :=
  if slsq n m (wscale w P) Yw is Some C then Some (C, ssub Yw (smul n (wscale w P) C), P) else None.

(* mod.rs jacobian, numeric content of one column: -(I - P) W D_k C, stacked; None never occurs on a cached state
   (num_jaccol_total) *)
Definition num_jaccol (w : option (seq F)) (c : num_cache) (Dk : smx F) : option (seq F) :=
  let '(C, _, P) := c in spec_jac_col n m w P Dk C.

Definition num_problem : Type := problem (smx F) num_cache (option (seq F)) unit St.

(* builder.rs build(): the problem owns the weights and the observations weighted once *)
Definition built_from (w : option (seq F)) (Y : smx F) (p : num_problem) : Prop :=
  p_w p = w /\ p_Yw p = wscale w Y.

Lemma coherent_state w Y (p : num_problem) C R P :
  built_from w Y p -> coherent um num_solve Phi p -> p_cached p = Some (C, R, P) ->
  [/\ spec_coeffs n m w (Phi (params um p)) Y = Some C,
      R = spec_resid n w (Phi (params um p)) Y C & P = Phi (params um p)].
Proof.
move=> [hpw hpY] co hc; have := co _ hc.
rewrite hpw hpY /num_solve /spec_coeffs /spec_resid.
by case: (slsq _ _ _ _) => [C'|] // [-> -> ->].
Qed.

(* what a coherent state means numerically: the coefficients shown minimise the weighted residual norm of every
   right-hand side AT THE PARAMETERS THE PROBLEM REPORTS, and the residual matrix shown is W (Y - Phi C) there *)
Definition state_correct (w : option (seq F)) (Y : smx F) (p : num_problem) : Prop :=
  forall C R P, p_cached p = Some (C, R, P) ->
    [/\ wf m s C,
        forall (j : 'I_s) (c' : 'cV[F]_m),
          nrm2 (Wm n w *m (col j (mx_of n s Y)
                           - mx_of n m (Phi (params um p)) *m col j (mx_of m s C)))
          <= nrm2 (Wm n w *m (col j (mx_of n s Y) - mx_of n m (Phi (params um p)) *m c'))
      & mx_of n s R
        = Wm n w *m (mx_of n s Y - mx_of n m (Phi (params um p)) *m mx_of m s C)].

Lemma coherent_correct w Y (p : num_problem) :
  wok n w -> wf n s Y -> built_from w Y p -> coherent um num_solve Phi p -> state_correct w Y p.
Proof.
move=> hw hY hb co C R P hc.
have [hC -> _] := coherent_state hb co hc.
have hwfC := spec_coeffs_wf hw (shape _) hY hC.
split=> //.
- by move=> j c'; apply: spec_coeffs_opt hC j c'.
- exact: mx_of_spec_resid.
Qed.

(* whenever coefficients exist, every Jacobian column exists and is the Kaufman column *)
Lemma num_jaccol_formula w Y P C Dk :
  wok n w -> wf n m P -> wf n s Y -> wf n m Dk -> spec_coeffs n m w P Y = Some C ->
  exists (jc : seq F) (M : smx F),
    [/\ spec_jac_col n m w P Dk C = Some jc, jc = flatten M, wf n s M,
        mx_of n s M
        = - ((1%:M - (Wm n w *m mx_of n m P)
                      *m invmx ((Wm n w *m mx_of n m P)^T *m (Wm n w *m mx_of n m P))
                      *m (Wm n w *m mx_of n m P)^T)
             *m (Wm n w *m mx_of n m Dk *m mx_of m s C))
      & (Wm n w *m mx_of n m P)^T *m mx_of n s M = 0].
Proof.
move=> hw hP hY hD hC; have hwfC := spec_coeffs_wf hw hP hY hC.
have [jc ej] : exists jc, spec_jac_col n m w P Dk C = Some jc.
  move: hC; rewrite /spec_coeffs /slsq /spec_jac_col /proj_compl.
  by case: (inv_cert _ _) => [X|] // _; eexists.
have [M [e1 e2 e3 e4 _]] := spec_jac_col_mx hw hP hD hwfC ej.
by exists jc, M; split.
Qed.

Variable jaccol : option (seq F) -> num_cache -> smx F -> Col.

(* C01 / C02 / C10 for every history: after ANY sequence of updates (failing ones included), queries and Jacobian
   requests, whatever the problem shows is correct for the parameters it reports *)
Theorem history_end_to_end w Y (p : num_problem) (os : list (op V)) :
  wok n w -> wf n s Y -> built_from w Y p -> coherent um num_solve Phi p ->
  state_correct w Y (fst (run um num_solve jaccol p os)).
Proof.
move=> hw hY [hpw hpY] co.
have [fY [_ fw]] := run_frame um num_solve jaccol p os.
apply: coherent_correct => //; first by split; rewrite ?fw ?fY.
exact: (coherent_run jaccol FF).
Qed.

(* a single update from ANY problem state (coherent or not) *)
Theorem update_end_to_end w Y (p : num_problem) a :
  wok n w -> wf n s Y -> built_from w Y p -> state_correct w Y (set_params um num_solve p a).
Proof.
move=> hw hY [hpw hpY].
have [fY [_ fw]] := set_params_frame um num_solve p a.
apply: coherent_correct => //; first by split; rewrite ?fw ?fY.
exact: (coherent_set_params num_solve FF).
Qed.

(* C04 for every script of accepted and rejected trial steps, every termination reason, Ok and Err alike: the
   problem fit() hands back shows coefficients that are optimal for the parameters it reports and residuals that are
   W (Y - Phi C) there *)
Theorem fit_end_to_end w Y (dec : num_cache -> num_cache -> bool) (script : list (choice V))
        (p p' : num_problem) (r : report V num_cache) c0 :
  wok n w -> wf n s Y -> built_from w Y p -> coherent um num_solve Phi p ->
  p_cached p = Some c0 ->
  minimize um num_solve jaccol dec script p = Some (p', r) ->
  state_correct w Y p'.
Proof.
move=> hw hY [hpw hpY] co hc0 hmin.
have hpost := @minimize_post _ _ _ _ _ _ _ um num_solve jaccol dec Phi D FF
                unit (fun _ _ => True) (fun _ => tt) (fun _ => I) (fun _ _ _ _ _ => I)
                (fun _ _ _ => I) script p p' r c0 co hc0 hmin.
case: hpost => co' [fY [_ [fw _]]].
by apply: coherent_correct => //; split; rewrite ?fw ?fY.
Qed.

(* C03 for every history: a Jacobian that is produced consists of exactly one column per nonlinear parameter, column k
   being the Kaufman column for the derivative matrix D_k at the parameters the problem reports and the coefficients
   it shows *)
Theorem jacobian_end_to_end w Y (p : num_problem) (os : list (op V)) :
  wok n w -> wf n s Y -> built_from w Y p -> coherent um num_solve Phi p ->
  let p' := fst (run um num_solve num_jaccol p os) in
  forall C R P p'' cols,
    p_cached p' = Some (C, R, P) ->
    jacobian um num_jaccol p' = (p'', Some cols) ->
    cols = List.map (fun k => spec_jac_col n m w (Phi (params um p')) (D k (params um p')) C)
                    (List.seq 0 (um_nparams um (p_st p')))
    /\ spec_coeffs n m w (Phi (params um p')) Y = Some C.
Proof.
move=> hw hY [hpw hpY] co p' C R P p'' cols hc.
have [fY [_ fw]] := run_frame um num_solve num_jaccol p os.
have hb' : built_from w Y p' by split; rewrite /p' ?fw ?fY.
have co' : coherent um num_solve Phi p' by exact: (coherent_run num_jaccol FF).
have [hC _ eP] := coherent_state hb' co' hc.
rewrite /Protocol.jacobian hc.
case ej: (jac_cols _ _ _ _ _ _ _) => [st1 j] [_ ej2]; rewrite ej2 in ej.
have := @jac_cols_spec _ _ _ _ _ _ um num_jaccol Phi D FF _ _ _ _ _ _ _ ej.
by case: hb' => -> _ ->; rewrite /num_jaccol eP.
Qed.
End EndToEnd.

(* ------------------------------------------------------------------------------------------ *)
(* fit_with_statistics end to end (one right-hand side): the statistics of a successful run are *)
(* the exact specification evaluated at the final parameters and the final coefficients         *)
Section EndToEndStats.
Variable F : realFieldType.
Variables (n m : nat).
Variables (V St : Type).
Variable um : umodel V (smx F) St.
Variables (Phi : V -> smx F) (D : nat -> V -> smx F).
Hypothesis FF : faulty_functional um Phi D.
Variable np : nat.
Hypothesis hnp : forall st, um_nparams um st = np.   (* parameter_count() is a constant of the model *)

Notation num_problem := (num_problem F St).
Notation num_cache := (num_cache F).

Definition with_st (p : num_problem) (st : St) : num_problem :=
  {| p_st := st; p_Yw := p_Yw p; p_eps := p_eps p; p_w := p_w p; p_cached := p_cached p |}.

(* the derivative matrices k, k+1, ..., k+cnt-1; None as soon as one evaluation fails *)
Fixpoint collect_derivs (st : St) (k cnt : nat) : St * option (seq (smx F)) :=
  match cnt with
  | 0 => (st, Some [::])
  | S c' => let '(st1, d) := um_deriv um st k in
            match d with
            | None => (st1, None)
            | Some dk => let '(st2, r) := collect_derivs st1 (S k) c' in (st2, omap (cons dk) r)
            end
  end.

Lemma collect_derivs_spec st k cnt st' Ds :
  collect_derivs st k cnt = (st', Some Ds) ->
  um_params um st' = um_params um st /\ Ds = [seq D i (um_params um st) | i <- iota k cnt].
Proof.
elim: cnt st k st' Ds => [|c' IH] st k st' Ds /=; first by case=> <- <-.
case ed: (um_deriv um st k) => [st1 [dk|]] //.
case ec: (collect_derivs st1 k.+1 c') => [st2 [r|]] //= [<- <-].
have [hp hd] := ff_deriv FF _ _ ed; have [hp2 ->] := IH _ _ _ _ ec.
by rewrite hp2 hp (hd _ erefl).
Qed.

(* statistics/mod.rs try_calculate as the problem sees it: one evaluation and P derivative calls for the model-function
   Jacobian, one more evaluation for the weighted residuals, then the numeric content (Model/Numeric.spec_stats: guard
   N > M + P, degrees of freedom, reduced chi^2, covariance through the certified inverse).  [y] are the observations as
   supplied; any failing model call or a None of spec_stats is a statistics error *)
Definition num_stats (y : seq F) (p : num_problem) (c : num_cache)
  : num_problem * option (stats_spec F) :=
  let '(C, _, _) := c in
  let np := um_nparams um (p_st p) in
  let '(st1, phi1) := um_eval um (p_st p) in
  match phi1 with
  | None => (with_st p st1, None)
  | Some P1 =>
      let '(st2, ds) := collect_derivs st1 0 np in
      match ds with
      | None => (with_st p st2, None)
      | Some Ds =>
          let '(st3, phi2) := um_eval um st2 in
          match phi2 with
          | None => (with_st p st3, None)
          | Some _ => (with_st p st3, spec_stats n m np (p_w p) P1 Ds y (head [::] C))
          end
      end
  end.

Lemma num_stats_spec y (p p2 : num_problem) C R P st :
  num_stats y p (C, R, P) = (p2, Some st) ->
  [/\ params um p2 = params um p, p_w p2 = p_w p, p_Yw p2 = p_Yw p, p_cached p2 = p_cached p
    & spec_stats n m np (p_w p) (Phi (params um p))
        [seq D k (params um p) | k <- iota 0 np] y (head [::] C) = Some st].
Proof.
rewrite /num_stats /params hnp.
case e1: (um_eval um (p_st p)) => [st1 [P1|]] //.
case ed: (collect_derivs st1 0 _) => [st2 [Ds|]] //.
case e2: (um_eval um st2) => [st3 [P2|]] // [<- hst].
have [hp1 hP1] := ff_eval FF _ e1; have [hpd hDs] := collect_derivs_spec ed.
have [hp2 _] := ff_eval FF _ e2.
split=> //=; first by rewrite hp2 hpd hp1.
by move: hst; rewrite (hP1 _ erefl) hDs hp1.
Qed.

Variable jaccol : option (seq F) -> num_cache -> smx F -> option (seq F).

(* C12 / C13 as one statement about the whole pipeline: whenever fit_with_statistics returns Ok — for ANY script of
   optimizer decisions and ANY (failing) model honouring the trait contract — the termination was successful, the
   problem handed back shows coefficients C that are the least-squares coefficients for the parameters a it reports,
   and the statistics are exactly spec_stats at (Phi a, D_k a, y, C): N > M + P, dof = N - M - P, chi^2 dof = ||r_w||^2,
   r_w = W (y - Phi c), Cov = chi^2 (H^T H)^-1 with H = W [Phi | D_k c]  (Proofs/NumericP.spec_stats_sound) *)
Theorem stats_end_to_end w y (dec : num_cache -> num_cache -> bool) (script : list (choice V))
        (p p2 : num_problem) (r : report V num_cache) c0 st :
  p_w p = w -> p_Yw p = wscale w [:: y] ->
  coherent um (num_solve n m) Phi p -> p_cached p = Some c0 ->
  fit_with_statistics um (num_solve n m) jaccol dec (num_stats y) script p = Some (FSOk p2 r st) ->
  exists C R P,
    let a := params um p2 in
    [/\ successful (termination r) = true, p_cached p2 = Some (C, R, P),
        spec_coeffs n m w (Phi a) [:: y] = Some C
      & spec_stats n m np w (Phi a) [seq D k a | k <- iota 0 np] y (head [::] C) = Some st].
Proof.
move=> hpw hpY co hc0; rewrite /fit_with_statistics.
case ef: (fit _ _ _ _ _ _) => [[p' r'|p' r']|] //.
have [hmin hsucc] := proj1 (fit_ok_iff um (num_solve n m) jaccol dec script p p' r') ef.
case hc: (p_cached p') => [[[C R] P]|] //.
case es: (num_stats y p' (C, R, P)) => [p3 [s'|]] // [e3 er est]; subst p3 r' s'.
have hpost := @minimize_post _ _ _ _ _ _ _ um (num_solve n m) jaccol dec Phi D FF
                unit (fun _ _ => True) (fun _ => tt) (fun _ => I) (fun _ _ _ _ _ => I)
                (fun _ _ _ => I) script p p' r c0 co hc0 hmin.
case: hpost => co' [fY [_ [fw _]]].
have hb' : built_from w [:: y] p' by split; rewrite ?fw ?fY.
have [hC _ eP] := coherent_state hb' co' hc.
have [ep2 ew2 eY2 ec2 hst] := num_stats_spec es.
exists C, R, P => /=; split=> //; first by rewrite ec2.
- by rewrite ep2.
- by move: hst; rewrite ep2 fw hpw.
Qed.
End EndToEndStats.
