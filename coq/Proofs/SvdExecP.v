(* SvdExecP.v : the executable replay of the implementation's truncated-SVD solve
   (Model/Numeric.v, svd_solve_exec) IS LinAlg.solve on the refined factors; consequently it
   inherits optimality, minimum norm, and (full rank) the normal-equations closed form. *)
From mathcomp Require Import all_ssreflect all_algebra.
From VP Require Import Base.LinAlg Base.SeqMx Base.Refine Model.Numeric Proofs.NumericP.
Set Implicit Arguments. Unset Strict Implicit. Unset Printing Implicit Defensive.
Import Order.TTheory GRing.Theory Num.Theory.
Local Open Scope ring_scope.

Section SvdExecP.
Variable F : realFieldType.
Implicit Types (U Vt B : smx F) (sg : seq F) (eps : F) (n k m s : nat).

(* the thresholded reciprocal list refines LinAlg.sginv *)
Lemma rv_of_sginv k sg eps : size sg = k ->
  rv_of k [seq (if eps < x then x^-1 else 0) | x <- sg] = sginv (rv_of k sg) eps.
Proof.
move=> ssg; apply/rowP => i; rewrite !mxE.
by rewrite (nth_map 0) // ssg.
Qed.

Section Exec.
Variables (n k m s : nat) (U : smx F) (sg : seq F) (Vt : smx F) (eps : F) (B : smx F).
Hypothesis hU : wf n k U.
Hypothesis hsg : size sg = k.
Hypothesis hVt : wf k m Vt.
Hypothesis hB : wf n s B.

Let sgi := [seq (if eps < x then x^-1 else 0) | x <- sg].

Let size_sgi : size sgi = k.
Proof. by rewrite size_map. Qed.

Let hUtB : wf k s (smul k (strans n U) B).
Proof. exact: wf_smul (wf_strans hU) hB. Qed.

Let hD : wf k s (srowscale sgi (smul k (strans n U) B)).
Proof. exact: wf_srowscale size_sgi hUtB. Qed.

Theorem wf_svd_solve_exec : wf m s (svd_solve_exec n k m U sg Vt eps B).
Proof. exact: wf_smul (wf_strans hVt) hD. Qed.

Theorem svd_solve_execE :
  mx_of m s (svd_solve_exec n k m U sg Vt eps B)
  = solve (mx_of n k U) (rv_of k sg) (mx_of k m Vt) eps (mx_of n s B).
Proof.
rewrite /svd_solve_exec -/sgi (mx_of_smul (wf_strans hVt) hD).
rewrite (mx_of_srowscale size_sgi hUtB) (mx_of_smul (wf_strans hU) hB).
by rewrite !mx_of_strans // /sgi rv_of_sginv.
Qed.

(* ------------------------------------------------ consequences (orthonormal factors) *)
Hypothesis UtU : (mx_of n k U)^T *m mx_of n k U = 1%:M.
Hypothesis VtV : mx_of k m Vt *m (mx_of k m Vt)^T = 1%:M.
Hypothesis eps_ge0 : 0 <= eps.

Let AE := Aeps (mx_of n k U) (rv_of k sg) (mx_of k m Vt) eps.

(* normal equations of the truncated operator *)
Theorem svd_exec_normal_eq :
  AE^T *m (mx_of n s B - AE *m mx_of m s (svd_solve_exec n k m U sg Vt eps B)) = 0.
Proof. by rewrite svd_solve_execE; exact: normal_eq. Qed.

(* every column is a least-squares solution for the truncated operator *)
Theorem svd_exec_opt (j : 'I_s) (c' : 'cV[F]_m) :
  nrm2 (col j (mx_of n s B)
        - AE *m col j (mx_of m s (svd_solve_exec n k m U sg Vt eps B)))
  <= nrm2 (col j (mx_of n s B) - AE *m c').
Proof. by rewrite svd_solve_execE; exact: solve_opt. Qed.

(* and the one of minimum norm among all least-squares solutions *)
Theorem svd_exec_min_norm (j : 'I_s) (c' : 'cV[F]_m) :
  AE^T *m (col j (mx_of n s B) - AE *m c') = 0 ->
  nrm2 (col j (mx_of m s (svd_solve_exec n k m U sg Vt eps B))) <= nrm2 c'.
Proof. by rewrite svd_solve_execE; exact: solve_min_norm. Qed.

Theorem svd_exec_min_norm_unique (j : 'I_s) (c' : 'cV[F]_m) :
  AE^T *m (col j (mx_of n s B) - AE *m c') = 0 ->
  nrm2 c' <= nrm2 (col j (mx_of m s (svd_solve_exec n k m U sg Vt eps B))) ->
  c' = col j (mx_of m s (svd_solve_exec n k m U sg Vt eps B)).
Proof. by rewrite svd_solve_execE; exact: solve_min_norm_unique. Qed.

(* when every singular value is kept or exactly zero the truncated operator is the matrix *)
Theorem svd_exec_Aeps_clean :
  (forall i : 'I_k, (eps < rv_of k sg 0 i) || (rv_of k sg 0 i == 0)) ->
  AE = mx_of n k U *m diag_mx (rv_of k sg) *m mx_of k m Vt.
Proof. exact: Aeps_clean. Qed.

Theorem svd_exec_opt_clean (j : 'I_s) (c' : 'cV[F]_m) :
  (forall i : 'I_k, (eps < rv_of k sg 0 i) || (rv_of k sg 0 i == 0)) ->
  let A := mx_of n k U *m diag_mx (rv_of k sg) *m mx_of k m Vt in
  nrm2 (col j (mx_of n s B)
        - A *m col j (mx_of m s (svd_solve_exec n k m U sg Vt eps B)))
  <= nrm2 (col j (mx_of n s B) - A *m c').
Proof. by move=> h /=; rewrite -svd_exec_Aeps_clean //; exact: svd_exec_opt. Qed.

End Exec.

(* ------------------------------------------------ full rank: the normal-equations formula *)
Section ExecSquare.
Variables (n m s : nat) (U : smx F) (sg : seq F) (Vt : smx F) (eps : F) (B : smx F).
Hypothesis hU : wf n m U.
Hypothesis hsg : size sg = m.
Hypothesis hVt : wf m m Vt.
Hypothesis hB : wf n s B.
Hypothesis UtU : (mx_of n m U)^T *m mx_of n m U = 1%:M.
Hypothesis VtV : mx_of m m Vt *m (mx_of m m Vt)^T = 1%:M.
Hypothesis eps_ge0 : 0 <= eps.
Hypothesis sg_gt : forall i : 'I_m, eps < rv_of m sg 0 i.

Theorem svd_exec_is_lsq :
  let A := mx_of n m U *m diag_mx (rv_of m sg) *m mx_of m m Vt in
  mx_of m s (svd_solve_exec n m m U sg Vt eps B)
  = invmx (A^T *m A) *m (A^T *m mx_of n s B).
Proof. by rewrite /= (svd_solve_execE _ hU hsg hVt hB); exact: svd_solve_is_lsq. Qed.

End ExecSquare.

(* the same, with the hypothesis on the singular values stated on the list *)
Corollary svd_exec_is_lsq_nth n m s U sg Vt eps B :
  wf n m U -> size sg = m -> wf m m Vt -> wf n s B ->
  (mx_of n m U)^T *m mx_of n m U = 1%:M ->
  mx_of m m Vt *m (mx_of m m Vt)^T = 1%:M ->
  0 <= eps ->
  (forall i, (i < m)%N -> eps < nth 0 sg i) ->
  let A := mx_of n m U *m diag_mx (rv_of m sg) *m mx_of m m Vt in
  mx_of m s (svd_solve_exec n m m U sg Vt eps B)
  = invmx (A^T *m A) *m (A^T *m mx_of n s B).
Proof.
move=> hU hsg hVt hB UtU VtV e0 h; apply: svd_exec_is_lsq => // i.
by rewrite mxE; exact: h.
Qed.

End SvdExecP.

Check wf_svd_solve_exec.
Check svd_solve_execE.
Check svd_exec_normal_eq.
Check svd_exec_opt.
Check svd_exec_min_norm.
Check svd_exec_min_norm_unique.
Check svd_exec_Aeps_clean.
Check svd_exec_opt_clean.
Check svd_exec_is_lsq.
Check svd_exec_is_lsq_nth.

Print Assumptions wf_svd_solve_exec.
Print Assumptions svd_solve_execE.
Print Assumptions svd_exec_normal_eq.
Print Assumptions svd_exec_opt.
Print Assumptions svd_exec_min_norm.
Print Assumptions svd_exec_min_norm_unique.
Print Assumptions svd_exec_Aeps_clean.
Print Assumptions svd_exec_opt_clean.
Print Assumptions svd_exec_is_lsq.
Print Assumptions svd_exec_is_lsq_nth.
