(* proofs about Par.v (property C11) *)
From Coq Require Import List Bool Arith Lia Permutation.
Import ListNotations.
From VP Require Import Model.Par.
Set Implicit Arguments.

Section ParP.
  Variable A : Type.
  Notation wr := (wr A).
  Notation mem := (mem A).
  Implicit Types (col : list A) (cols : list (list A)).

  Lemma write_other (m : mem) (w : wr) k i : fst w <> (k, i) -> write m w k i = m k i.
  Proof.
    destruct w as [[k' i'] v]. cbn. intros H. unfold write; cbn.
    destruct (Nat.eqb_spec k k'); destruct (Nat.eqb_spec i i'); cbn; try reflexivity.
    subst. exfalso. apply H. reflexivity.
  Qed.

  Lemma write_same (m : mem) k i v : write m ((k, i), v) k i = Some v.
  Proof. unfold write; cbn. rewrite !Nat.eqb_refl. reflexivity. Qed.

  Lemma apply_notin ws (m : mem) k i : ~ In (k, i) (map fst ws) -> apply ws m k i = m k i.
  Proof.
    revert m. induction ws as [|w ws IH]; intros m H; cbn; [reflexivity|].
    unfold apply in *. cbn. rewrite IH.
    - apply write_other. intros E. apply H. left. exact E.
    - intros E. apply H. right. exact E.
  Qed.

  Lemma apply_in ws (m : mem) k i v :
    NoDup (map fst ws) -> In ((k, i), v) ws -> apply ws m k i = Some v.
  Proof.
    revert m. induction ws as [|w ws IH]; intros m ND HI; [destruct HI|].
    cbn in ND. inversion ND as [|a l Hnot ND']; subst.
    unfold apply in *. cbn. destruct HI as [->|HI].
    - change (fold_left (@write A) ws (write m (k, i, v)) k i) with (apply ws (write m (k, i, v)) k i).
      rewrite apply_notin; [apply write_same|exact Hnot].
    - apply IH; assumption.
  Qed.

  (* C11: every schedule — every order of the tasks, every interleaving of their cell writes —
     leaves the same memory *)
  Theorem schedule_independent ws ws' (m : mem) :
    NoDup (map fst ws) -> Permutation ws ws' -> forall k i, apply ws m k i = apply ws' m k i.
  Proof.
    intros ND HP k i.
    assert (ND' : NoDup (map fst ws')).
    { eapply Permutation_NoDup; [apply Permutation_map; exact HP|exact ND]. }
    destruct (in_dec (fun a b : nat * nat => ltac:(decide equality; apply Nat.eq_dec)) (k, i) (map fst ws)) as [Hin|Hnin].
    - apply in_map_iff in Hin. destruct Hin as ([[k' i'] v] & Ha & Hw). cbn in Ha. inversion Ha; subst.
      rewrite (@apply_in ws m k i v ND Hw). symmetry. apply apply_in; [exact ND'|].
      eapply Permutation_in; eassumption.
    - rewrite (@apply_notin ws m k i Hnin). symmetry. apply apply_notin.
      intros H. apply Hnin. eapply Permutation_in; [apply Permutation_map, Permutation_sym; exact HP|exact H].
  Qed.

  (* the cell writes of the column tasks have pairwise distinct addresses *)
  Lemma task_from_addr k i col a : In a (map (@fst (nat * nat) A) (task_from k i col)) -> fst a = k /\ i <= snd a.
  Proof.
    revert i. induction col as [|v r IH]; intros i H; [destruct H|].
    cbn in H. destruct H as [<-|H]; [cbn; split; [reflexivity|lia]|].
    apply IH in H. destruct H; split; [assumption|lia].
  Qed.

  Lemma task_from_nodup k i col : NoDup (map (@fst (nat * nat) A) (task_from k i col)).
  Proof.
    revert i. induction col as [|v r IH]; intros i; cbn; constructor; [|apply IH].
    intros H. apply task_from_addr in H. cbn in H. lia.
  Qed.

  Lemma tasks_from_addr k cols a : In a (map (@fst (nat * nat) A) (tasks_from k cols)) -> k <= fst a.
  Proof.
    revert k. induction cols as [|c r IH]; intros k H; [destruct H|].
    cbn in H. rewrite map_app in H. apply in_app_or in H. destruct H as [H|H].
    - apply task_from_addr in H. lia.
    - apply IH in H. lia.
  Qed.

  Lemma nodup_app (l1 l2 : list (nat * nat)) :
    NoDup l1 -> NoDup l2 -> (forall a, In a l1 -> ~ In a l2) -> NoDup (l1 ++ l2).
  Proof.
    induction l1 as [|a l1 IH]; intros N1 N2 H; cbn; [exact N2|].
    inversion N1 as [|x l Hn N1']; subst. constructor.
    - intros Hin. apply in_app_or in Hin. destruct Hin as [Hin|Hin]; [tauto|].
      apply (H a); [left; reflexivity|exact Hin].
    - apply IH; [exact N1'|exact N2|]. intros b Hb. apply H. right. exact Hb.
  Qed.

  Lemma tasks_from_nodup k cols : NoDup (map (@fst (nat * nat) A) (tasks_from k cols)).
  Proof.
    revert k. induction cols as [|c r IH]; intros k; cbn; [constructor|].
    rewrite map_app. apply nodup_app; [apply task_from_nodup|apply IH|].
    intros a H1 H2. apply task_from_addr in H1. apply tasks_from_addr in H2. lia.
  Qed.

  (* what the sequential order leaves in memory *)
  Lemma task_from_in k i col j v : nth_error col j = Some v -> In ((k, i + j), v) (task_from k i col).
  Proof.
    revert i j. induction col as [|x r IH]; intros i j H; [destruct j; discriminate|].
    destruct j as [|j]; cbn in *.
    - inversion H; subst. rewrite Nat.add_0_r. left. reflexivity.
    - right. replace (i + S j) with (S i + j) by lia. apply IH. exact H.
  Qed.

  Lemma tasks_from_in k cols c (j : list A) i v :
    nth_error cols c = Some j -> nth_error j i = Some v -> In ((k + c, i), v) (tasks_from k cols).
  Proof.
    revert k c. induction cols as [|x r IH]; intros k c Hc Hi; [destruct c; discriminate|].
    destruct c as [|c]; cbn in *.
    - inversion Hc; subst. rewrite Nat.add_0_r. apply in_or_app. left.
      apply (@task_from_in k 0 j i v Hi).
    - apply in_or_app. right. replace (k + S c) with (S k + c) by lia. apply IH; assumption.
  Qed.

  Lemma task_from_in_inv k i col a v : In (a, v) (task_from k i col) ->
    fst a = k /\ i <= snd a /\ nth_error col (snd a - i) = Some v.
  Proof.
    revert i. induction col as [|x r IH]; intros i H; [destruct H|].
    cbn in H. destruct H as [E|H].
    - inversion E; subst. cbn. rewrite Nat.sub_diag. auto.
    - apply IH in H. destruct H as (H1 & H2 & H3). split; [exact H1|]. split; [lia|].
      replace (snd a - i) with (S (snd a - S i)) by lia. exact H3.
  Qed.

  Lemma tasks_from_in_inv k cols a v : In (a, v) (tasks_from k cols) ->
    k <= fst a /\ exists c, nth_error cols (fst a - k) = Some c /\ nth_error c (snd a) = Some v.
  Proof.
    revert k. induction cols as [|x r IH]; intros k H; [destruct H|].
    cbn in H. apply in_app_or in H. destruct H as [H|H].
    - apply task_from_in_inv in H. destruct H as (H1 & H2 & H3). subst. split; [lia|].
      exists x. rewrite Nat.sub_diag. cbn. rewrite Nat.sub_0_r in H3. auto.
    - apply IH in H. destruct H as (H1 & c & H2 & H3). split; [lia|].
      exists c. replace (fst a - k) with (S (fst a - S k)) by lia. auto.
  Qed.

  Theorem sequential_result cols k i : apply (sequential cols) (@empty A) k i = expected cols k i.
  Proof.
    unfold expected, sequential.
    destruct (nth_error cols k) as [c|] eqn:Hc.
    - destruct (nth_error c i) as [v|] eqn:Hi.
      + apply apply_in; [apply tasks_from_nodup|]. apply (@tasks_from_in 0 cols k c i v Hc Hi).
      + rewrite apply_notin; [reflexivity|]. intros H. apply in_map_iff in H.
        destruct H as ([a v] & Ha & Hw). cbn in Ha. subst a.
        apply tasks_from_in_inv in Hw. cbn in Hw. destruct Hw as (_ & c' & H1 & H2).
        rewrite Nat.sub_0_r in H1. rewrite Hc in H1. inversion H1; subst. rewrite Hi in H2. discriminate.
    - rewrite apply_notin; [reflexivity|]. intros H. apply in_map_iff in H.
      destruct H as ([a v] & Ha & Hw). cbn in Ha. subst a.
      apply tasks_from_in_inv in Hw. cbn in Hw. destruct Hw as (_ & c' & H1 & _).
      rewrite Nat.sub_0_r in H1. rewrite Hc in H1. discriminate.
  Qed.

  (* C11: under every schedule the parallel Jacobian is the sequential one *)
  Theorem parallel_is_sequential cols ws :
    Permutation (sequential cols) ws -> forall k i, apply ws (@empty A) k i = expected cols k i.
  Proof.
    intros HP k i. rewrite <- sequential_result. symmetry.
    apply schedule_independent; [apply tasks_from_nodup|exact HP].
  Qed.

  (* every cell of an R x P Jacobian is written under every schedule (no garbage) *)
  Theorem parallel_fills cols ws rows :
    Forall (fun c => length c = rows) cols -> Permutation (sequential cols) ws ->
    forall k i, k < length cols -> i < rows -> apply ws (@empty A) k i <> None.
  Proof.
    intros HF HP k i Hk Hi. rewrite (@parallel_is_sequential cols ws HP). unfold expected.
    destruct (nth_error cols k) as [c|] eqn:Hc.
    - assert (Hl : length c = rows).
      { rewrite Forall_forall in HF. apply HF. eapply nth_error_In. exact Hc. }
      intros E. apply nth_error_None in E. lia.
    - apply nth_error_None in Hc. lia.
  Qed.

  (* failures: the outcome does not depend on the order in which task results are examined *)
  Lemma collect_cons (o : option (list A)) r :
    collect (o :: r) = match o, collect r with Some c, Some cr => Some (c :: cr) | _, _ => None end.
  Proof. reflexivity. Qed.

  Lemma collect_some_iff (outs : list (option (list A))) :
    (exists cols, collect outs = Some cols) <-> Forall (fun o => o <> None) outs.
  Proof.
    induction outs as [|o r IH].
    - split; [constructor|eexists; reflexivity].
    - rewrite collect_cons. destruct o as [c|].
      + destruct (collect r) as [cr|].
        * split; [intros _; constructor; [discriminate|apply IH; eexists; reflexivity]|intros _; eexists; reflexivity].
        * split; [intros (x & Hx); discriminate|]. intros HF. inversion HF as [|? ? _ HF']; subst.
          apply IH in HF'. destruct HF' as (x & Hx). discriminate.
      + split; [intros (x & Hx); discriminate|]. intros HF. inversion HF as [|? ? Hn _]; subst.
        exfalso; apply Hn; reflexivity.
  Qed.

  Lemma collect_none_iff (outs : list (option (list A))) :
    collect outs = None <-> ~ Forall (fun o => o <> None) outs.
  Proof.
    pose proof (collect_some_iff outs) as H. destruct (collect outs) as [c|].
    - split; [discriminate|]. intros Hn. exfalso. apply Hn. apply H. eexists; reflexivity.
    - split; [|reflexivity]. intros _ HF. apply H in HF. destruct HF as (x & Hx). discriminate.
  Qed.

  (* a failing derivative makes the Jacobian absent whichever tasks ran first *)
  Theorem collect_perm (outs outs' : list (option (list A))) :
    Permutation outs outs' -> (collect outs = None <-> collect outs' = None).
  Proof.
    intros HP. rewrite !collect_none_iff.
    assert (HF : Forall (fun o : option (list A) => o <> None) outs <-> Forall (fun o => o <> None) outs').
    { rewrite !Forall_forall. split; intros HH x Hx; apply HH.
      - eapply Permutation_in; [apply Permutation_sym; exact HP|exact Hx].
      - eapply Permutation_in; [exact HP|exact Hx]. }
    tauto.
  Qed.

  Theorem collect_none_if_any (outs : list (option (list A))) : In None outs -> collect outs = None.
  Proof.
    intros H. apply collect_none_iff. intros HF. rewrite Forall_forall in HF. apply (HF None H). reflexivity.
  Qed.
End ParP.
