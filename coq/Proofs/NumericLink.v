(* NumericLink.v — the acceptance predicate check_state compares the implementation with exactly
   the specification functions: its internal expressions (computed from one certified inverse X)
   are the spec_* functions. *)
From mathcomp Require Import all_ssreflect all_algebra.
From VP Require Import Base.SeqMx Model.Numeric.
Set Implicit Arguments. Unset Strict Implicit. Unset Printing Implicit Defensive.
Import GRing.Theory Num.Theory.
Local Open Scope ring_scope.

Section Link.
Variable F : realFieldType.
Implicit Types (A B V X Phi Y C Dk : smx F) (w : option (seq F)).

Lemma coeffs_with_spec n m w Phi Y X :
  inv_cert m (sgram n (wscale w Phi)) = Some X ->
  spec_coeffs n m w Phi Y = Some (coeffs_with n m X (wscale w Phi) (wscale w Y)).
Proof. by rewrite /spec_coeffs /slsq => ->. Qed.

Lemma coeffs_with_none n m w Phi Y :
  inv_cert m (sgram n (wscale w Phi)) = None -> spec_coeffs n m w Phi Y = None.
Proof. by rewrite /spec_coeffs /slsq => ->. Qed.

Lemma proj_compl_with_spec n m A V X :
  inv_cert m (sgram n A) = Some X -> proj_compl n m A V = Some (proj_compl_with n m X A V).
Proof. by rewrite /proj_compl => ->. Qed.

Lemma jac_col_with_spec n m w Phi Dk C X :
  inv_cert m (sgram n (wscale w Phi)) = Some X ->
  spec_jac_col n m w Phi Dk C =
  Some (flatten (sopp (proj_compl_with n m X (wscale w Phi) (smul n (wscale w Dk) C)))).
Proof. by rewrite /spec_jac_col /proj_compl => ->. Qed.

Lemma kappa2_with_spec n m A X :
  inv_cert m (sgram n A) = Some X -> kappa2 n m A = Some (kappa2_with n X A).
Proof. by rewrite /kappa2 => ->. Qed.

Lemma resid_with_spec n w Phi Y C :
  ssub (wscale w Y) (smul n (wscale w Phi) C) = spec_resid n w Phi Y C.
Proof. by []. Qed.

(* acceptance with mode "coefficients" means: the implementation's coefficients are within the
   stated tolerance of the specification's *)
Lemma check_state_coeffs cu2 floor2 k2max (o : state_obs F) :
  check_state 1 cu2 floor2 k2max o = 0%N ->
  exists C k2,
    [/\ spec_coeffs (so_n o) (so_m o) (so_w o) (so_Phi o) (so_Y o) = Some C,
        kappa2 (so_n o) (so_m o) (wscale (so_w o) (so_Phi o)) = Some k2, k2 <= k2max &
        close2 (tol2_solve cu2 (so_n o) (so_m o) k2) floor2 (flatten (so_C o)) (flatten C)].
Proof.
rewrite /check_state.
set b0 := (~~ _). case: b0 => //.
case e: (inv_cert _ _) => [X|] //.
set k2 := kappa2_with _ _ _. case hk: (k2max < k2) => //.
have -> : odd 1 = true by [].
have -> : odd (1 %/ 2) = false by [].
rewrite andTb !andFb.
case hc: (close2 _ _ _ _) => //= _.
exists (coeffs_with (so_n o) (so_m o) X (wscale (so_w o) (so_Phi o)) (wscale (so_w o) (so_Y o))), k2.
rewrite (coeffs_with_spec _ e) (kappa2_with_spec e); split=> //.
by rewrite Order.TotalTheory.leNgt hk.
Qed.
End Link.

Section Band.
Variable F : realFieldType.
(* the band radius t(q; nu) * sigma_i is non-decreasing in the probability as soon as the quantile is *)
Lemma band_mono (t t' s : F) : 0 <= s -> t <= t' -> t * s <= t' * s.
Proof. by move=> hs ht; rewrite ler_wpmul2r. Qed.

Lemma band_nonneg (t s : F) : 0 <= t -> 0 <= s -> 0 <= t * s.
Proof. by move=> ht hs; rewrite mulr_ge0. Qed.
End Band.
