(* basic facts about the protocol state machine (Protocol.v) *)
From Coq Require Import List Bool Arith Lia.
Import ListNotations.
From VP Require Import Model.Protocol.
Set Implicit Arguments.

Section ProtocolP.
  Variables V Mx Cache Col W E St : Type.
  Variable um : umodel V Mx St.
  Variable solve : W -> E -> Mx -> Mx -> option Cache.
  Variable jaccol : W -> Cache -> Mx -> Col.

  Notation problem := (problem Mx Cache W E St).
  Notation set_params := (@set_params V Mx Cache W E St um solve).

  (* a parameter update never touches the data, the threshold or the weights *)
  Lemma set_params_frame (p : problem) a :
    p_Yw (set_params p a) = p_Yw p /\ p_eps (set_params p a) = p_eps p /\
    p_w (set_params p a) = p_w p.
  Proof.
    unfold Protocol.set_params. destruct (um_set um (p_st p) a) as [st1 ok].
    destruct ok; [destruct (um_eval um st1) as [st2 phi]|]; cbn; auto.
  Qed.

  (* what a parameter update leaves behind, case by case *)
  Lemma set_params_spec (p : problem) a :
    let '(st1, ok) := um_set um (p_st p) a in
    if ok then
      let '(st2, phi) := um_eval um st1 in
      p_st (set_params p a) = st2 /\
      p_cached (set_params p a) =
        match phi with Some f => solve (p_w p) (p_eps p) f (p_Yw p) | None => None end
    else p_st (set_params p a) = st1 /\ p_cached (set_params p a) = None.
  Proof.
    unfold Protocol.set_params. destruct (um_set um (p_st p) a) as [st1 ok].
    destruct ok; [destruct (um_eval um st1) as [st2 phi]|]; cbn; auto.
  Qed.
End ProtocolP.

(* ------------------------------------------------------------------------------------------ *)
(* contracts on the user's model and the invariants they give (C02, C09, C10) *)
Section Contracts.
  Variables V Mx Cache Col W E St : Type.
  Variable um : umodel V Mx St.
  Variable solve : W -> E -> Mx -> Mx -> option Cache.
  Variable jaccol : W -> Cache -> Mx -> Col.

  Notation problem := (problem Mx Cache W E St).
  Notation set_params := (@set_params V Mx Cache W E St um solve).
  Notation jacobian := (@jacobian V Mx Cache Col W E St um jaccol).
  Notation jac_cols := (@jac_cols V Mx Cache Col W St um jaccol).
  Notation params := (@params V Mx Cache W E St um).
  Notation step := (@step V Mx Cache Col W E St um solve jaccol).
  Notation run := (@run V Mx Cache Col W E St um solve jaccol).

  (* The trait contract, with failures allowed at every call: a call may fail (transiently or
     forever), but when it succeeds it answers for the parameters the model holds; only a
     successful set_params changes the parameters a well-behaved model reports.
     [Phi a] / [D k a] are the model's basis matrix / k-th derivative matrix at parameters a. *)
  Record faulty_functional (Phi : V -> Mx) (D : nat -> V -> Mx) : Prop := {
    ff_set_ok : forall st a st', um_set um st a = (st', true) -> um_params um st' = a;
    ff_eval : forall st st' r, um_eval um st = (st', r) ->
                um_params um st' = um_params um st /\
                (forall f, r = Some f -> f = Phi (um_params um st));
    ff_deriv : forall st k st' r, um_deriv um st k = (st', r) ->
                um_params um st' = um_params um st /\
                (forall d, r = Some d -> d = D k (um_params um st));
    ff_np : forall st a st' ok, um_set um st a = (st', ok) -> um_nparams um st' = um_nparams um st;
  }.

  (* C09, first clause: a failed parameter application or a failed evaluation leaves nothing
     behind that could be attributed to the requested parameters *)
  Theorem absent_after_failure (p : problem) a :
    (snd (um_set um (p_st p) a) = false \/
     snd (um_eval um (fst (um_set um (p_st p) a))) = None) ->
    p_cached (set_params p a) = None.
  Proof.
    intros H. pose proof (set_params_spec um solve p a) as Hs.
    destruct (um_set um (p_st p) a) as [st1 ok]. cbn [fst snd] in H.
    destruct ok.
    - destruct (um_eval um st1) as [st2 phi]. cbn [snd] in H.
      destruct H as [H|H]; [discriminate|]. subst phi. apply Hs.
    - apply Hs.
  Qed.

  (* the answers of the derivative calls one Jacobian request makes, in order; the sequential
     iteration stops at the first failure *)
  Fixpoint deriv_trace (st : St) (k n : nat) : list (option Mx) :=
    match n with
    | 0 => []
    | S n' => let '(st1, d) := um_deriv um st k in
              d :: match d with Some _ => deriv_trace st1 (S k) n' | None => [] end
    end.

  (* C03/C09: no Jacobian iff some derivative failed; a Jacobian is never partially filled *)
  Lemma jac_none_iff st w c k n :
    snd (jac_cols st w c k n) = None <-> In None (deriv_trace st k n).
  Proof.
    revert st k. induction n as [|n IH]; intros st k; cbn [Protocol.jac_cols deriv_trace].
    - cbn. split; [discriminate|tauto].
    - destruct (um_deriv um st k) as [st1 d]. destruct d as [dk|].
      + specialize (IH st1 (S k)). destruct (jac_cols st1 w c (S k) n) as [st2 rest]. cbn [snd] in *.
        destruct rest as [r|].
        * split; [discriminate|]. intros [H|H]; [discriminate|]. apply IH in H. discriminate.
        * split; [intros _; right; apply IH; reflexivity | reflexivity].
      + cbn. split; auto.
  Qed.

  Lemma jac_some_length st w c k n st' cols :
    jac_cols st w c k n = (st', Some cols) -> length cols = n.
  Proof.
    revert st k st' cols. induction n as [|n IH]; intros st k st' cols; cbn [Protocol.jac_cols].
    - intros H; inversion H; reflexivity.
    - destruct (um_deriv um st k) as [st1 d]. destruct d as [dk|]; [|discriminate].
      destruct (jac_cols st1 w c (S k) n) as [st2 rest] eqn:Hr. destruct rest as [r|]; [|discriminate].
      intros H; inversion H; subst. cbn. f_equal. eapply IH; eassumption.
  Qed.

  Lemma jacobian_no_cache (p : problem) : p_cached p = None -> snd (jacobian p) = None.
  Proof. unfold Protocol.jacobian. intros ->. reflexivity. Qed.

  (* queries never change the problem *)
  Lemma observe_pure (p : problem) : fst (step p OObserve) = p.
  Proof. reflexivity. Qed.

  Lemma jacobian_frame (p : problem) :
    p_Yw (fst (jacobian p)) = p_Yw p /\ p_eps (fst (jacobian p)) = p_eps p /\
    p_w (fst (jacobian p)) = p_w p /\ p_cached (fst (jacobian p)) = p_cached p.
  Proof.
    unfold Protocol.jacobian. destruct (p_cached p) as [c|] eqn:Hc; [|cbn; auto].
    destruct (jac_cols _ _ _ _ _) as [st1 j]. cbn. auto.
  Qed.

  (* no history of operations ever touches the data, the threshold or the weights *)
  Lemma run_frame (p : problem) os :
    p_Yw (fst (run p os)) = p_Yw p /\ p_eps (fst (run p os)) = p_eps p /\
    p_w (fst (run p os)) = p_w p.
  Proof.
    revert p. induction os as [|o os IH]; intros p; cbn [Protocol.run]; [auto|].
    destruct (step p o) as [p1 b] eqn:Hs. specialize (IH p1).
    destruct (run p1 os) as [p2 bs]. cbn [fst] in *.
    assert (H1 : p_Yw p1 = p_Yw p /\ p_eps p1 = p_eps p /\ p_w p1 = p_w p).
    { destruct o; cbn [Protocol.step] in Hs.
      - inversion Hs; subst. apply set_params_frame.
      - inversion Hs; subst. auto.
      - destruct (jacobian p) as [p' j] eqn:Hj. inversion Hs; subst.
        destruct (jacobian_frame p) as (A & B & C & _). rewrite Hj in A, B, C. auto. }
    destruct IH as (A & B & C). destruct H1 as (A1 & B1 & C1).
    rewrite A, B, C. auto.
  Qed.

  Section WithContract.
    Variables (Phi : V -> Mx) (D : nat -> V -> Mx).
    Hypothesis FF : faulty_functional Phi D.

    (* whatever is cached belongs to the parameters the problem reports *)
    Definition coherent (p : problem) : Prop :=
      forall c, p_cached p = Some c -> Some c = solve (p_w p) (p_eps p) (Phi (params p)) (p_Yw p).

    Lemma coherent_set_params (p : problem) a : coherent (set_params p a).
    Proof.
      unfold coherent. intros c Hc.
      pose proof (set_params_spec um solve p a) as Hs.
      destruct (set_params_frame um solve p a) as (HY & HE & HW).
      rewrite HY, HE, HW. unfold Protocol.params.
      destruct (um_set um (p_st p) a) as [st1 ok] eqn:Hset.
      destruct ok.
      - destruct (um_eval um st1) as [st2 phi] eqn:Hev.
        destruct Hs as [Hst Hca]. rewrite Hst. rewrite Hca in Hc.
        destruct phi as [f|]; [|discriminate].
        destruct (ff_eval FF _ Hev) as [Hp Hf].
        rewrite Hp, <- (Hf f eq_refl). symmetry. exact Hc.
      - destruct Hs as [_ Hca]. rewrite Hca in Hc. discriminate.
    Qed.

    Lemma jac_cols_params st w c k n st' j :
      jac_cols st w c k n = (st', j) -> um_params um st' = um_params um st.
    Proof.
      revert st k st' j. induction n as [|n IH]; intros st k st' j; cbn [Protocol.jac_cols].
      - intros H; inversion H; reflexivity.
      - destruct (um_deriv um st k) as [st1 d] eqn:Hd.
        destruct (ff_deriv FF _ _ Hd) as [Hp _].
        destruct d as [dk|].
        + destruct (jac_cols st1 w c (S k) n) as [st2 rest] eqn:Hr.
          intros H; inversion H; subst. rewrite (IH _ _ _ _ Hr). exact Hp.
        + intros H; inversion H; subst. exact Hp.
    Qed.

    Lemma coherent_jacobian (p : problem) : coherent p -> coherent (fst (jacobian p)).
    Proof.
      unfold Protocol.jacobian. destruct (p_cached p) as [c|] eqn:Hc; [|auto].
      destruct (jac_cols (p_st p) (p_w p) c 0 (um_nparams um (p_st p))) as [st1 j] eqn:Hj.
      cbn [fst]. unfold coherent, Protocol.params. cbn [p_cached p_st p_w p_eps p_Yw].
      intros Hco c' Hc'. rewrite (jac_cols_params _ _ _ _ _ Hj). apply Hco. rewrite Hc. exact Hc'.
    Qed.

    (* C09, second clause / C02: for every history of updates, queries and Jacobian requests,
       with failures anywhere, what is present is right for the parameters reported *)
    Theorem coherent_run (p : problem) os : coherent p -> coherent (fst (run p os)).
    Proof.
      revert p. induction os as [|o os IH]; intros p Hp; cbn [Protocol.run]; [exact Hp|].
      destruct (step p o) as [p1 b] eqn:Hs.
      destruct (run p1 os) as [p2 bs] eqn:Hr. cbn [fst].
      assert (Hp1 : coherent p1).
      { destruct o; cbn [Protocol.step] in Hs.
        - inversion Hs; subst. apply coherent_set_params.
        - inversion Hs; subst. exact Hp.
        - destruct (jacobian p) as [p' j] eqn:Hj. inversion Hs; subst.
          change p1 with (fst (p1, j)). rewrite <- Hj. apply coherent_jacobian. exact Hp. }
      specialize (IH p1 Hp1). rewrite Hr in IH. exact IH.
    Qed.

    (* the Jacobian, when produced, is made of the derivative matrices at the reported
       parameters and the cached state; it is never partially filled *)
    Lemma jac_cols_spec st w c k n st' cols :
      jac_cols st w c k n = (st', Some cols) ->
      cols = map (fun i => jaccol w c (D i (um_params um st))) (seq k n).
    Proof.
      revert st k st' cols. induction n as [|n IH]; intros st k st' cols; cbn [Protocol.jac_cols seq map].
      - intros H; inversion H; reflexivity.
      - destruct (um_deriv um st k) as [st1 d] eqn:Hd.
        destruct (ff_deriv FF _ _ Hd) as [Hp Hdk].
        destruct d as [dk|]; [|discriminate].
        destruct (jac_cols st1 w c (S k) n) as [st2 rest] eqn:Hr.
        destruct rest as [r|]; [|discriminate].
        intros H; inversion H; subst. rewrite (Hdk dk eq_refl).
        rewrite (IH _ _ _ _ Hr), Hp. reflexivity.
    Qed.

    Lemma coherent_after_set (p : problem) a c :
      p_cached (set_params p a) = Some c ->
      params (set_params p a) = a /\ Some c = solve (p_w p) (p_eps p) (Phi a) (p_Yw p).
    Proof.
      intros Hc. pose proof (set_params_spec um solve p a) as Hs. unfold Protocol.params.
      destruct (um_set um (p_st p) a) as [st1 ok] eqn:Hset. destruct ok.
      - destruct (um_eval um st1) as [st2 phi] eqn:Hev. destruct Hs as [Hst Hca].
        rewrite Hca in Hc. destruct phi as [f|]; [|discriminate].
        destruct (ff_eval FF _ Hev) as [Hp Hf]. rewrite Hst, Hp, (ff_set_ok FF _ _ Hset).
        split; [reflexivity|]. rewrite <- (ff_set_ok FF _ _ Hset), <- (Hf f eq_refl). symmetry; exact Hc.
      - destruct Hs as [_ Hca]. rewrite Hca in Hc. discriminate.
    Qed.

    (* C10: what a problem holds after parameters a have been applied is a function of
       (model, data, weights, threshold, a) alone — whatever happened before *)
    Theorem history_irrelevant (p : problem) os a c :
      p_cached (set_params (fst (run p os)) a) = Some c ->
      Some c = solve (p_w p) (p_eps p) (Phi a) (p_Yw p).
    Proof.
      intros Hc. destruct (coherent_after_set _ _ Hc) as [_ H].
      destruct (run_frame p os) as (A & B & C). rewrite A, B, C in H. exact H.
    Qed.

    Corollary same_as_fresh (p q : problem) os a c c' :
      p_Yw q = p_Yw p -> p_eps q = p_eps p -> p_w q = p_w p ->
      p_cached (set_params (fst (run p os)) a) = Some c ->
      p_cached (set_params q a) = Some c' -> c = c'.
    Proof.
      intros HY HE HW Hc Hc'. pose proof (history_irrelevant _ _ _ Hc) as H1.
      destruct (coherent_after_set _ _ Hc') as [_ H2]. rewrite HY, HE, HW in H2.
      rewrite <- H1 in H2. inversion H2. reflexivity.
    Qed.
  End WithContract.
End Contracts.

(* ---------- C08: the finiteness guard of the repaired set_params ---------- *)
Section Guard.
  Variables V Mx Cache W E St : Type.
  Variable um : umodel V Mx St.
  Variable solve0 : W -> E -> Mx -> Mx -> option Cache.
  Variable finite : W -> Mx -> bool.   (* every entry of the weighted basis matrix is finite *)

  (* the decomposition is attempted only on finite matrices *)
  Definition guarded (w : W) (e : E) (phi yw : Mx) : option Cache :=
    if finite w phi then solve0 w e phi yw else None.

  Theorem nonfinite_is_absent (p : problem Mx Cache W E St) a st1 st2 phi :
    um_set um (p_st p) a = (st1, true) -> um_eval um st1 = (st2, Some phi) ->
    finite (p_w p) phi = false ->
    p_cached (set_params um guarded p a) = None.
  Proof.
    intros Hs He Hf. pose proof (set_params_spec um guarded p a) as H.
    rewrite Hs, He in H. destruct H as [_ ->]. unfold guarded. rewrite Hf. reflexivity.
  Qed.

  Theorem decomposed_only_if_finite (p : problem Mx Cache W E St) a c :
    p_cached (set_params um guarded p a) = Some c ->
    exists st1 st2 phi, um_set um (p_st p) a = (st1, true) /\ um_eval um st1 = (st2, Some phi) /\
                        finite (p_w p) phi = true /\ solve0 (p_w p) (p_eps p) phi (p_Yw p) = Some c.
  Proof.
    intros Hc. pose proof (set_params_spec um guarded p a) as H.
    destruct (um_set um (p_st p) a) as [st1 ok] eqn:Hs. destruct ok.
    - destruct (um_eval um st1) as [st2 phi] eqn:He. destruct H as [_ H]. rewrite H in Hc.
      destruct phi as [f|]; [|discriminate]. unfold guarded in Hc.
      destruct (finite (p_w p) f) eqn:Hf; [|discriminate].
      exists st1, st2, f. auto.
    - destruct H as [_ H]. rewrite H in Hc. discriminate.
  Qed.
End Guard.
