(* basic facts about the protocol state machine (Protocol.v) *)
From Coq Require Import List Bool Arith Lia.
Import ListNotations.
From VP Require Import Model.Protocol.
Set Implicit Arguments.

Section ProtocolP.
  Variables V Mx Cache Col W E St : Type.
  Variable um : umodel V Mx St.
  Variable solve : W -> E -> Mx -> Mx -> option Cache.
  Variable jaccol : W -> Cache -> Mx -> Col.

  Notation problem := (problem Mx Cache W E St).
  Notation set_params := (@set_params V Mx Cache W E St um solve).

  (* a parameter update never touches the data, the threshold or the weights *)
  Lemma set_params_frame (p : problem) a :
    p_Yw (set_params p a) = p_Yw p /\ p_eps (set_params p a) = p_eps p /\
    p_w (set_params p a) = p_w p.
  Proof.
    unfold Protocol.set_params. destruct (um_set um (p_st p) a) as [st1 ok].
    destruct ok; [destruct (um_eval um st1) as [st2 phi]|]; cbn; auto.
  Qed.

  (* what a parameter update leaves behind, case by case *)
  Lemma set_params_spec (p : problem) a :
    let '(st1, ok) := um_set um (p_st p) a in
    if ok then
      let '(st2, phi) := um_eval um st1 in
      p_st (set_params p a) = st2 /\
      p_cached (set_params p a) =
        match phi with Some f => solve (p_w p) (p_eps p) f (p_Yw p) | None => None end
    else p_st (set_params p a) = st1 /\ p_cached (set_params p a) = None.
  Proof.
    unfold Protocol.set_params. destruct (um_set um (p_st p) a) as [st1 ok].
    destruct ok; [destruct (um_eval um st1) as [st2 phi]|]; cbn; auto.
  Qed.
End ProtocolP.
