(* SepModelP.v — proofs about the builder-made separable model (C16 routing / placement, C17 misuse).
   Plain Coq, no axioms. *)
From Coq Require Import List Bool Arith Lia Permutation.
Import ListNotations.
From VP Require Import Model.ModelBuilder Model.SepModel Gen.DispatchTable.

(* ------------------------------------------------------------------------------------------ *)
(* A. the dispatch table read from the source is the specified one                             *)
(* ------------------------------------------------------------------------------------------ *)
Theorem dispatch_table_canon : dispatch_table = canon_table /\ dispatch_shape_recognised = true.
Proof. vm_compute. split; reflexivity. Qed.

Theorem canon_lookup : forall n, 1 <= n <= 10 -> lookup n canon_table = Some (seq 0 n).
Proof.
  intros n Hn.
  do 11 (destruct n as [|n]; [ try lia; try reflexivity |]). lia.
Qed.

Lemma canon_lookup_inv : forall n l, lookup n canon_table = Some l -> 1 <= n <= 10 /\ l = seq 0 n.
Proof.
  intros n l H.
  do 11 (destruct n as [|n]; [ vm_compute in H; first [discriminate | inversion H; split; [lia|reflexivity]] |]).
  vm_compute in H. discriminate.
Qed.

Section SepModelP.
  Variables name Fn Fn0 X Sc : Type.
  Variable name_eqb : name -> name -> bool.
  Variable has_comma : name -> bool.
  Variable arity : Fn -> nat.
  Variable xlen : X -> nat.
  Variable zero : Sc.
  Variable call : Fn -> X -> list Sc -> list Sc.
  Variable call0 : Fn0 -> X -> list Sc.

  Hypothesis name_eqbP : forall a b, name_eqb a b = true <-> a = b.
  Hypothesis arity_ok : forall f : Fn, 1 <= arity f <= 10.

  Notation pos := (position name_eqb).
  Notation cpn := (check_parameter_names name_eqb has_comma).
  Notation cim := (create_index_mapping name_eqb).
  Notation cw := (create_wrapped name_eqb has_comma arity).
  Notation disp := (dispatch arity call canon_table).
  Notation callw := (call_wrapped arity call canon_table).
  Notation eac := (evaluate_and_check xlen).
  Notation evalb := (eval_body arity xlen call call0 canon_table).
  Notation evalc := (eval_cols arity xlen call call0 canon_table).
  Notation derivc := (deriv_cols arity xlen zero call canon_table).
  Notation smeval := (sm_eval arity xlen call call0 canon_table).
  Notation smderiv := (sm_deriv arity xlen zero call canon_table).
  Notation run := (mrun arity xlen zero call call0 canon_table).
  Notation fbpd := (fb_partial_deriv name_eqb has_comma arity).
  Notation fbnew := (fb_new Fn0 name_eqb has_comma arity).
  Notation fbbuild := (fb_build name_eqb has_comma).
  Notation stp := (step name_eqb has_comma arity).
  Notation Wfn := (wfn Fn).
  Notation Mfun := (mfun Fn Fn0).
  Notation Smodel := (smodel name Fn Fn0 X Sc).
  Notation Unf := (unfinished name Fn Fn0 X Sc).
  Notation Sb := (sbuilder name Fn Fn0 X Sc).
  Notation Fb := (fbuilder name Fn Fn0).

  (* ---------------------------------------------------------------------------------------- *)
  (* A (continued): gather / dispatch                                                          *)
  (* ---------------------------------------------------------------------------------------- *)
  Lemma gather_seq_gen : forall (s p : list Sc),
      gather (p ++ s) (seq (length p) (length s)) = Some s.
  Proof.
    induction s as [|a s IH]; intros p; simpl; [reflexivity|].
    rewrite nth_error_app2 by lia. rewrite Nat.sub_diag. simpl.
    specialize (IH (p ++ [a])). rewrite <- app_assoc in IH. simpl in IH.
    rewrite app_length in IH. simpl in IH. rewrite Nat.add_1_r in IH.
    rewrite IH. reflexivity.
  Qed.

  Lemma gather_seq : forall s : list Sc, gather s (seq 0 (length s)) = Some s.
  Proof. intros s. exact (gather_seq_gen s []). Qed.

  Theorem dispatch_canon : forall f x slice,
      length slice = arity f -> disp f x slice = Some (call f x slice).
  Proof.
    intros f x slice H. unfold dispatch. rewrite H, Nat.eqb_refl.
    rewrite (canon_lookup (arity f) (arity_ok f)). rewrite <- H, gather_seq. reflexivity.
  Qed.

  Theorem dispatch_canon_wrong_len : forall f x slice,
      length slice <> arity f -> disp f x slice = None.
  Proof.
    intros f x slice H. unfold dispatch.
    apply Nat.eqb_neq in H. rewrite H. reflexivity.
  Qed.

  (* with the table read from the source *)
  Corollary dispatch_source : forall f x slice,
      length slice = arity f ->
      dispatch arity call dispatch_table f x slice = Some (call f x slice).
  Proof.
    intros. destruct dispatch_table_canon as [E _]. rewrite E. apply dispatch_canon; assumption.
  Qed.

  (* ---------------------------------------------------------------------------------------- *)
  (* generalities on names                                                                     *)
  (* ---------------------------------------------------------------------------------------- *)
  Lemma name_eqb_refl : forall a, name_eqb a a = true.
  Proof. intros a. apply name_eqbP. reflexivity. Qed.

  Lemma name_eqb_false : forall a b, name_eqb a b = false <-> a <> b.
  Proof.
    intros a b. split.
    - intros H E. apply name_eqbP in E. congruence.
    - intros H. destruct (name_eqb a b) eqn:E; [|reflexivity]. apply name_eqbP in E. contradiction.
  Qed.

  Lemma mem_In : forall n l, mem name_eqb n l = true <-> In n l.
  Proof.
    intros n l. unfold mem. rewrite existsb_exists. split.
    - intros [y [Hy E]]. apply name_eqbP in E. subst. assumption.
    - intros H. exists n. split; [assumption|apply name_eqb_refl].
  Qed.

  Lemma uniq_NoDup : forall l, uniq name_eqb l = true <-> NoDup l.
  Proof.
    induction l as [|a l IH]; simpl.
    - split; [constructor|reflexivity].
    - rewrite andb_true_iff, negb_true_iff, IH. split.
      + intros [H1 H2]. constructor; [|assumption].
        intros Hin. apply mem_In in Hin. congruence.
      + intros H. inversion H; subst. split; [|assumption].
        destruct (mem name_eqb a l) eqn:E; [|reflexivity]. apply mem_In in E. contradiction.
  Qed.

  Lemma position_lt : forall n l i, pos n l = Some i -> i < length l.
  Proof.
    intros n. induction l as [|a l IH]; simpl; intros i H; [discriminate|].
    destruct (name_eqb a n).
    - inversion H. lia.
    - destruct (pos n l) as [j|]; simpl in H; [|discriminate].
      inversion H. specialize (IH j eq_refl). lia.
  Qed.

  Lemma position_nth : forall n l i, pos n l = Some i -> nth_error l i = Some n.
  Proof.
    intros n. induction l as [|a l IH]; simpl; intros i H; [discriminate|].
    destruct (name_eqb a n) eqn:E.
    - inversion H. apply name_eqbP in E. subst. reflexivity.
    - destruct (pos n l) as [j|]; simpl in H; [|discriminate].
      inversion H. simpl. apply IH. reflexivity.
  Qed.

  Lemma position_In : forall n l, In n l -> exists i, pos n l = Some i.
  Proof.
    intros n. induction l as [|a l IH]; simpl; intros H; [contradiction|].
    destruct (name_eqb a n) eqn:E; [eexists; reflexivity|].
    destruct H as [H|H]; [subst; rewrite name_eqb_refl in E; discriminate|].
    destruct (IH H) as [i Hi]. rewrite Hi. eexists; reflexivity.
  Qed.

  Lemma position_None : forall n l, pos n l = None -> ~ In n l.
  Proof.
    intros n l H Hin. destruct (position_In n l Hin) as [i Hi]. congruence.
  Qed.

  Lemma cpn_None : forall l, cpn l = None -> l <> [] /\ NoDup l.
  Proof.
    intros l H. unfold check_parameter_names in H. destruct l as [|a l]; [discriminate|].
    destruct (find has_comma (a :: l)); [discriminate|].
    destruct (uniq name_eqb (a :: l)) eqn:E; [|discriminate].
    split; [discriminate|]. apply uniq_NoDup. assumption.
  Qed.

  (* ---------------------------------------------------------------------------------------- *)
  (* B. routing by name                                                                        *)
  (* ---------------------------------------------------------------------------------------- *)
  Definition value_of (names : list name) (params : list Sc) (n : name) : option Sc :=
    match pos n names with Some i => nth_error params i | None => None end.

  Lemma cw_inv : forall names fps f w, cw names fps f = inr w ->
      cpn names = None /\ cpn fps = None /\ length fps = arity f /\
      cim names fps = inr (w_map w) /\ w_fn w = f.
  Proof.
    intros names fps f w H. unfold create_wrapped in H.
    destruct (cpn names); [discriminate|].
    destruct (cpn fps); [discriminate|].
    destruct (length fps =? arity f) eqn:E; [|discriminate].
    destruct (cim names fps) as [e|m]; [discriminate|].
    inversion H; subst; simpl. apply Nat.eqb_eq in E. auto.
  Qed.

  Lemma cim_spec : forall names fps m, cim names fps = inr m ->
      Forall2 (fun n i => pos n names = Some i) fps m.
  Proof.
    intros names. induction fps as [|s r IH]; intros m H; simpl in H.
    - inversion H. constructor.
    - destruct (pos s names) as [i|] eqn:Hp; [|discriminate].
      destruct (cim names r) as [e|l]; [discriminate|]. inversion H; subst.
      constructor; [assumption|]. apply IH. reflexivity.
  Qed.

  Lemma cim_gather : forall names params fps m,
      length params = length names -> cim names fps = inr m ->
      exists args, map (value_of names params) fps = map Some args /\
                   gather params m = Some args /\ length args = length fps.
  Proof.
    intros names params. induction fps as [|s r IH]; intros m Hlen H; simpl in H.
    - inversion H; subst. exists []. simpl. auto.
    - destruct (pos s names) as [i|] eqn:Hp; [|discriminate].
      destruct (cim names r) as [e|l] eqn:Hc; [discriminate|]. inversion H; subst; clear H.
      destruct (IH l Hlen eq_refl) as [args [H1 [H2 H3]]].
      pose proof (position_lt _ _ _ Hp) as Hlt.
      destruct (nth_error params i) as [v|] eqn:Hn.
      2:{ apply nth_error_None in Hn. lia. }
      exists (v :: args). simpl. unfold value_of at 1. rewrite Hp, Hn, H1, H2. auto.
  Qed.

  Theorem route : forall names fps f w x params,
      cw names fps f = inr w -> length params = length names ->
      exists args, map (value_of names params) fps = map Some args /\
                   callw w x params = Some (call f x args).
  Proof.
    intros names fps f w x params Hw Hlen.
    destruct (cw_inv _ _ _ _ Hw) as [_ [_ [Har [Hm Hf]]]].
    destruct (cim_gather names params fps (w_map w) Hlen Hm) as [args [H1 [H2 H3]]].
    exists args. split; [assumption|].
    unfold call_wrapped. rewrite H2, Hf. apply dispatch_canon. lia.
  Qed.

  Lemma map_Some_inj : forall (A : Type) (l l' : list A), map Some l = map Some l' -> l = l'.
  Proof.
    induction l as [|a l IH]; destruct l' as [|b l']; simpl; intros H; try discriminate; [reflexivity|].
    inversion H. f_equal. apply IH. assumption.
  Qed.

  Corollary route_perm : forall names params names' params' fps f w w' x,
      length params = length names -> length params' = length names' ->
      (forall n, In n fps -> value_of names' params' n = value_of names params n) ->
      cw names fps f = inr w -> cw names' fps f = inr w' ->
      callw w' x params' = callw w x params.
  Proof.
    intros names params names' params' fps f w w' x Hl Hl' Hv Hw Hw'.
    destruct (route names fps f w x params Hw Hl) as [args [H1 H2]].
    destruct (route names' fps f w' x params' Hw' Hl') as [args' [H1' H2']].
    rewrite H2, H2'. rewrite (map_ext_in _ _ fps Hv) in H1'. rewrite H1 in H1'.
    apply map_Some_inj in H1'. subst. reflexivity.
  Qed.

  (* value_of is "the value paired with the name"; so any joint permutation of names and values
     leaves it unchanged *)
  Lemma value_of_In : forall names params n v,
      NoDup names -> length params = length names ->
      (value_of names params n = Some v <-> In (n, v) (combine names params)).
  Proof.
    unfold value_of. induction names as [|a names IH]; intros params n v Hnd Hlen.
    - simpl. split; [discriminate|contradiction].
    - destruct params as [|p params]; [discriminate|]. simpl in Hlen. inversion Hnd; subst.
      simpl. destruct (name_eqb a n) eqn:E.
      + apply name_eqbP in E. subst. simpl. split.
        * intros H. inversion H. left. reflexivity.
        * intros [H|H]; [inversion H; reflexivity|]. apply in_combine_l in H. contradiction.
      + apply name_eqb_false in E. specialize (IH params n v H2 (eq_add_S _ _ Hlen)).
        destruct (pos n names) as [i|]; simpl.
        * rewrite IH. split; [auto|]. intros [H|H]; [inversion H; congruence|assumption].
        * split; [discriminate|]. intros [H|H]; [inversion H; congruence|]. apply IH in H. discriminate.
  Qed.

  Lemma value_of_perm : forall names params names' params',
      NoDup names -> NoDup names' ->
      length params = length names -> length params' = length names' ->
      Permutation (combine names params) (combine names' params') ->
      forall n, value_of names' params' n = value_of names params n.
  Proof.
    intros names params names' params' Hnd Hnd' Hl Hl' Hp n.
    destruct (value_of names params n) as [v|] eqn:E.
    - apply value_of_In; [assumption..|]. apply (Permutation_in _ Hp).
      apply value_of_In; assumption.
    - destruct (value_of names' params' n) as [v|] eqn:E'; [|reflexivity].
      apply value_of_In in E'; [|assumption..].
      apply (Permutation_in _ (Permutation_sym Hp)) in E'.
      apply value_of_In in E'; [|assumption..]. congruence.
  Qed.

  Corollary route_permutation : forall names params names' params' fps f w w' x,
      length params = length names -> length params' = length names' ->
      Permutation (combine names params) (combine names' params') ->
      cw names fps f = inr w -> cw names' fps f = inr w' ->
      callw w' x params' = callw w x params.
  Proof.
    intros names params names' params' fps f w w' x Hl Hl' Hp Hw Hw'.
    destruct (cw_inv _ _ _ _ Hw) as [Hc _]. destruct (cw_inv _ _ _ _ Hw') as [Hc' _].
    apply cpn_None in Hc. apply cpn_None in Hc'.
    destruct Hc as [_ Hnd]. destruct Hc' as [_ Hnd'].
    apply (route_perm names params names' params' fps f w w' x Hl Hl'); [|assumption|assumption].
    intros n _. apply value_of_perm; assumption.
  Qed.

  (* ---------------------------------------------------------------------------------------- *)
  (* C. derivative placement                                                                   *)
  (* ---------------------------------------------------------------------------------------- *)
  Definition feed (fb : Fb) (ds : list (name * Fn)) : Fb :=
    fold_left (fun fb nd => fbpd fb (fst nd) (snd nd)) ds fb.

  Lemma deriv_index_spec : forall names fps n i idx,
      deriv_index name_eqb names fps n i = Some idx ->
      In n fps /\ exists p, pos n names = Some p /\ idx = i + p.
  Proof.
    induction names as [|mp r IH]; intros fps n i idx H; simpl in H; [discriminate|].
    destruct (mem name_eqb mp fps && name_eqb mp n) eqn:E.
    - apply andb_true_iff in E. destruct E as [E1 E2]. apply name_eqbP in E2. subst mp.
      inversion H; subst. split; [apply mem_In; assumption|].
      exists 0. simpl. rewrite name_eqb_refl. split; [reflexivity|lia].
    - destruct (IH fps n (S i) idx H) as [Hin [p [Hp Hi]]]. split; [assumption|].
      simpl. destruct (name_eqb mp n) eqn:E2.
      + apply name_eqbP in E2. subst mp. apply mem_In in Hin. rewrite Hin in E. discriminate.
      + rewrite Hp. simpl. exists (S p). split; [reflexivity|lia].
  Qed.

  Lemma deriv_index_complete : forall names fps n i p,
      In n fps -> pos n names = Some p -> deriv_index name_eqb names fps n i = Some (i + p).
  Proof.
    induction names as [|mp r IH]; intros fps n i p Hin H; simpl in H; [discriminate|].
    simpl. destruct (name_eqb mp n) eqn:E.
    - apply name_eqbP in E. subst mp. apply mem_In in Hin. rewrite Hin. simpl.
      inversion H. f_equal. lia.
    - rewrite andb_false_r. destruct (pos n r) as [q|] eqn:Hq; simpl in H; [|discriminate].
      inversion H; subst. rewrite (IH fps n (S i) q Hin Hq). f_equal. lia.
  Qed.

  Lemma fbpd_params : forall (fb : Fb) n d,
      fb_model_params (fbpd fb n d) = fb_model_params fb /\ fb_fparams (fbpd fb n d) = fb_fparams fb.
  Proof.
    intros fb n d. unfold fb_partial_deriv.
    destruct (deriv_index name_eqb (fb_model_params fb) (fb_fparams fb) n 0); [|simpl; auto].
    destruct (fb_result fb); [auto|].
    destruct (cw (fb_model_params fb) (fb_fparams fb) d); simpl; auto.
  Qed.

  Lemma fbpd_inr : forall (fb : Fb) n d mf,
      fb_result (fbpd fb n d) = inr mf ->
      exists mf0 idx w,
        fb_result fb = inr mf0 /\
        deriv_index name_eqb (fb_model_params fb) (fb_fparams fb) n 0 = Some idx /\
        cw (fb_model_params fb) (fb_fparams fb) d = inr w /\
        has_key idx (f_derivs mf0) = false /\
        mf = {| f_body := f_body mf0; f_derivs := f_derivs mf0 ++ [(idx, w)] |}.
  Proof.
    intros fb n d mf H. unfold fb_partial_deriv in H.
    destruct (deriv_index name_eqb (fb_model_params fb) (fb_fparams fb) n 0) as [idx|];
      [|simpl in H; discriminate].
    destruct (fb_result fb) as [e|mf0] eqn:Hr; [congruence|].
    destruct (cw (fb_model_params fb) (fb_fparams fb) d) as [e|w]; simpl in H; [discriminate|].
    destruct (has_key idx (f_derivs mf0)) eqn:Hk; [discriminate|].
    inversion H; subst. exists mf0, idx, w. auto.
  Qed.

  (* the relation between a fed (name, derivative) and the stored (index, wrapped closure) *)
  Definition placed (names fps : list name) (nd : name * Fn) (kw : nat * Wfn) : Prop :=
    deriv_index name_eqb names fps (fst nd) 0 = Some (fst kw) /\
    cw names fps (snd nd) = inr (snd kw).

  Lemma feed_params : forall ds (fb : Fb),
      fb_model_params (feed fb ds) = fb_model_params fb /\ fb_fparams (feed fb ds) = fb_fparams fb.
  Proof.
    induction ds as [|[n d] ds IH]; intros fb; simpl; [auto|].
    destruct (IH (fbpd fb n d)) as [H1 H2]. destruct (fbpd_params fb n d) as [H3 H4].
    unfold feed in *. simpl. rewrite H1, H2. auto.
  Qed.

  Lemma feed_inr : forall ds (fb : Fb) mf,
      fb_result (feed fb ds) = inr mf ->
      exists mf0 l,
        fb_result fb = inr mf0 /\ f_body mf = f_body mf0 /\
        f_derivs mf = f_derivs mf0 ++ l /\
        Forall2 (placed (fb_model_params fb) (fb_fparams fb)) ds l.
  Proof.
    induction ds as [|[n d] ds IH]; intros fb mf H.
    - simpl in H. exists mf, []. rewrite app_nil_r. auto.
    - change (feed fb ((n, d) :: ds)) with (feed (fbpd fb n d) ds) in H.
      destruct (IH _ _ H) as [mf1 [l [H1 [H2 [H3 H4]]]]].
      destruct (fbpd_inr _ _ _ _ H1) as [mf0 [idx [w [G1 [G2 [G3 [G4 G5]]]]]]].
      destruct (fbpd_params fb n d) as [P1 P2]. rewrite P1, P2 in H4.
      exists mf0, ((idx, w) :: l). subst mf1. simpl in *.
      split; [assumption|]. split; [assumption|]. split.
      + rewrite H3, <- app_assoc. reflexivity.
      + constructor; [|assumption]. split; assumption.
  Qed.

  Lemma fb_build_Done : forall (fb : Fb) mf, fbbuild fb = Done mf -> fb_result fb = inr mf.
  Proof.
    intros fb mf H. unfold fb_build in H.
    destruct (check_completion name_eqb has_comma fb); try discriminate.
    destruct (fb_result fb); [discriminate|]. inversion H. reflexivity.
  Qed.

  Lemma fb_new_params : forall names fps f,
      fb_model_params (fbnew names fps f) = names /\ fb_fparams (fbnew names fps f) = fps.
  Proof. intros. unfold fb_new. destruct (cpn fps); simpl; auto. Qed.

  Lemma fb_new_inr : forall names fps f mf,
      fb_result (fbnew names fps f) = inr mf ->
      exists w0, cw names fps f = inr w0 /\ mf = {| f_body := BWrapped w0; f_derivs := [] |}.
  Proof.
    intros names fps f mf H. unfold fb_new in H.
    destruct (cpn fps); simpl in H; [discriminate|].
    destruct (cw names fps f) as [e|w]; [discriminate|]. inversion H. eauto.
  Qed.

  Lemma find_key_In : forall k (d : list (nat * Wfn)) w, find_key k d = Some w -> In (k, w) d.
  Proof.
    intros k. induction d as [|[i w'] d IH]; intros w H; simpl in H; [discriminate|].
    destruct (i =? k) eqn:E.
    - apply Nat.eqb_eq in E. inversion H; subst. left. reflexivity.
    - right. apply IH. assumption.
  Qed.

  Lemma find_key_None : forall k (d : list (nat * Wfn)) w, find_key k d = None -> ~ In (k, w) d.
  Proof.
    intros k. induction d as [|[i w'] d IH]; intros w H Hin; simpl in *; [contradiction|].
    destruct (i =? k) eqn:E; [discriminate|]. destruct Hin as [Hin|Hin].
    - inversion Hin; subst. rewrite Nat.eqb_refl in E. discriminate.
    - exact (IH w H Hin).
  Qed.

  Lemma find_key_None_key : forall k (d : list (nat * Wfn)) kw,
      find_key k d = None -> In kw d -> fst kw <> k.
  Proof.
    intros k d [i w] H Hin E. simpl in E. subst. exact (find_key_None _ _ w H Hin).
  Qed.

  Lemma Forall2_In_r : forall (A B : Type) (R : A -> B -> Prop) l l' b,
      Forall2 R l l' -> In b l' -> exists a, In a l /\ R a b.
  Proof.
    intros A B R l l' b H. induction H as [|a b' l l' Hab H IH]; intros Hin; [contradiction|].
    destruct Hin as [Hin|Hin].
    - subst. exists a. split; [left; reflexivity|assumption].
    - destruct (IH Hin) as [a' [H1 H2]]. exists a'. split; [right; assumption|assumption].
  Qed.

  Lemma Forall2_In_l : forall (A B : Type) (R : A -> B -> Prop) l l' a,
      Forall2 R l l' -> In a l -> exists b, In b l' /\ R a b.
  Proof.
    intros A B R l l' a H. induction H as [|a' b l l' Hab H IH]; intros Hin; [contradiction|].
    destruct Hin as [Hin|Hin].
    - subst. exists b. split; [left; reflexivity|assumption].
    - destruct (IH Hin) as [b' [H1 H2]]. exists b'. split; [right; assumption|assumption].
  Qed.

  (* whatever the order in which the derivatives are given, each is stored under the index of
     its parameter in the MODEL's parameter list *)
  Theorem derivs_by_index : forall names fps f ds mf,
      fbbuild (feed (fbnew names fps f) ds) = Done mf ->
      (exists w0, f_body mf = BWrapped w0 /\ cw names fps f = inr w0) /\
      forall k,
        match find_key k (f_derivs mf) with
        | Some w => exists n d, In (n, d) ds /\ pos n names = Some k /\ In n fps /\
                                cw names fps d = inr w
        | None => forall n d, In (n, d) ds -> pos n names <> Some k
        end.
  Proof.
    intros names fps f ds mf H. apply fb_build_Done in H.
    destruct (feed_inr _ _ _ H) as [mf0 [l [H1 [H2 [H3 H4]]]]].
    destruct (fb_new_params names fps f) as [P1 P2]. rewrite P1, P2 in H4.
    destruct (fb_new_inr _ _ _ _ H1) as [w0 [Hw0 Hmf0]]. subst mf0. simpl in *.
    split; [exists w0; auto|].
    intros k. destruct (find_key k (f_derivs mf)) as [w|] eqn:Hk.
    - apply find_key_In in Hk. rewrite H3 in Hk.
      destruct (Forall2_In_r _ _ _ _ _ _ H4 Hk) as [[n d] [Hin [R1 R2]]]. simpl in *.
      destruct (deriv_index_spec _ _ _ _ _ R1) as [Hfps [p [Hp Hidx]]]. simpl in Hidx. subst p.
      exists n, d. auto.
    - intros n d Hin Hp. rewrite H3 in Hk.
      destruct (Forall2_In_l _ _ _ _ _ _ H4 Hin) as [kw [Hkw [R1 R2]]]. simpl in *.
      destruct (deriv_index_spec _ _ _ _ _ R1) as [Hfps [p [Hp' Hidx]]]. simpl in Hidx.
      apply (find_key_None_key _ _ _ Hk Hkw). congruence.
  Qed.

  (* the keys stored by a function builder are pairwise distinct *)
  Lemma has_key_app : forall k (d d' : list (nat * Wfn)),
      has_key k (d ++ d') = has_key k d || has_key k d'.
  Proof. intros. unfold has_key. apply existsb_app. Qed.

  Lemma has_key_false_notin : forall k (d : list (nat * Wfn)),
      has_key k d = false -> ~ In k (map fst d).
  Proof.
    intros k d H Hin. apply in_map_iff in Hin. destruct Hin as [[i w] [E Hin]]. simpl in E. subst.
    assert (has_key k d = true); [|congruence].
    apply existsb_exists. exists (k, w). split; [assumption|apply Nat.eqb_refl].
  Qed.

  Lemma feed_keys_NoDup : forall ds (fb : Fb) mf mf0,
      fb_result (feed fb ds) = inr mf -> fb_result fb = inr mf0 ->
      NoDup (map fst (f_derivs mf0)) -> NoDup (map fst (f_derivs mf)).
  Proof.
    induction ds as [|[n d] ds IH]; intros fb mf mf0 H H0 Hnd.
    - simpl in H. congruence.
    - change (feed fb ((n, d) :: ds)) with (feed (fbpd fb n d) ds) in H.
      destruct (feed_inr _ _ _ H) as [mf1 [l [H1 _]]].
      destruct (fbpd_inr _ _ _ _ H1) as [mf0' [idx [w [G1 [_ [_ [G4 G5]]]]]]].
      assert (mf0' = mf0) by congruence. subst mf0'.
      apply (IH _ _ _ H H1). subst mf1. simpl. rewrite map_app. simpl.
      apply (Permutation_NoDup (Permutation_cons_append _ _)). constructor; [|assumption].
      apply has_key_false_notin. assumption.
  Qed.

  (* a function without derivative number k contributes a zero column *)
  Theorem deriv_zero_col : forall (f : Mfun) r k x params,
      find_key k (f_derivs f) = None ->
      derivc (f :: r) k x params =
      match derivc r k x params with
      | RPanic => RPanic
      | RErr e => RErr e
      | ROk cs => ROk (repeat zero (xlen x) :: cs)
      end.
  Proof. intros f r k x params H. simpl. rewrite H. reflexivity. Qed.

  Theorem deriv_some_col : forall (f : Mfun) r k x params w,
      find_key k (f_derivs f) = Some w ->
      derivc (f :: r) k x params =
      match eac (callw w x params) x with
      | RPanic => RPanic
      | RErr e => RErr e
      | ROk c => match derivc r k x params with
                 | RPanic => RPanic
                 | RErr e => RErr e
                 | ROk cs => ROk (c :: cs)
                 end
      end.
  Proof. intros f r k x params w H. simpl. rewrite H. reflexivity. Qed.

  Corollary invariant_zero_col : forall (f0 : Fn0) (r : list Mfun) k x params,
      derivc ({| f_body := BInvariant f0; f_derivs := [] |} :: r) k x params =
      match derivc r k x params with
      | RPanic => RPanic
      | RErr e => RErr e
      | ROk cs => ROk (repeat zero (xlen x) :: cs)
      end.
  Proof. intros. apply deriv_zero_col. reflexivity. Qed.

  (* the column of one function in the derivative matrix *)
  Definition deriv_col (f : Mfun) (k : nat) (x : X) (params : list Sc) : res (list Sc) :=
    match find_key k (f_derivs f) with
    | Some w => eac (callw w x params) x
    | None => ROk (repeat zero (xlen x))
    end.

  Theorem eval_order : forall funs x params cols,
      evalc funs x params = ROk cols ->
      length cols = length funs /\
      forall j f, nth_error funs j = Some f ->
                  exists c, nth_error cols j = Some c /\ evalb (f_body f) x params = ROk c.
  Proof.
    induction funs as [|f r IH]; intros x params cols H; simpl in H.
    - inversion H; subst. split; [reflexivity|]. intros [|j] f Hj; discriminate.
    - destruct (evalb (f_body f) x params) as [| |c] eqn:Hb; try discriminate.
      destruct (evalc r x params) as [| |cs] eqn:Hr; try discriminate.
      inversion H; subst. destruct (IH x params cs Hr) as [IH1 IH2].
      split; [simpl; lia|].
      intros [|j] g Hj; simpl in Hj.
      + inversion Hj; subst. exists c. auto.
      + simpl. apply IH2. assumption.
  Qed.

  Theorem deriv_order : forall funs k x params cols,
      derivc funs k x params = ROk cols ->
      length cols = length funs /\
      forall j f, nth_error funs j = Some f ->
                  exists c, nth_error cols j = Some c /\ deriv_col f k x params = ROk c.
  Proof.
    induction funs as [|f r IH]; intros k x params cols H; simpl in H.
    - inversion H; subst. split; [reflexivity|]. intros [|j] f Hj; discriminate.
    - fold (deriv_col f k x params) in H.
      destruct (deriv_col f k x params) as [| |c] eqn:Hb; try discriminate.
      destruct (derivc r k x params) as [| |cs] eqn:Hr; try discriminate.
      inversion H; subst. destruct (IH k x params cs Hr) as [IH1 IH2].
      split; [simpl; lia|].
      intros [|j] g Hj; simpl in Hj.
      + inversion Hj; subst. exists c. auto.
      + simpl. apply IH2. assumption.
  Qed.

  (* builder calls only append functions and never touch the parameter names *)
  Definition st_model (s : Sb) : option Unf :=
    match s with SNormal m | SFunctionBuilding m _ => Some m | _ => None end.

  Lemma step_normal_append : forall (m m' : Unf) o,
      st_model (step_normal name_eqb has_comma arity m o) = Some m' ->
      exists l, u_funs m' = u_funs m ++ l /\ u_names m' = u_names m.
  Proof.
    intros m m' o H. destruct o; simpl in H.
    - inversion H; subst. exists []. rewrite app_nil_r. auto.
    - discriminate.
    - inversion H; subst. simpl. eauto.
    - inversion H; subst. simpl. exists []. rewrite app_nil_r. auto.
    - destruct (length (u_names m) =? length l); simpl in H; [|discriminate].
      inversion H; subst. simpl. exists []. rewrite app_nil_r. auto.
  Qed.

  Lemma finalize_SNormal : forall (m m' : Unf) (fb : Fb),
      finalize name_eqb has_comma m fb = SNormal m' ->
      exists f, fbbuild fb = Done f /\ m' = push_fun m f.
  Proof.
    intros m m' fb H. unfold finalize in H.
    destruct (fbbuild fb) as [|e|f]; try discriminate. inversion H. eauto.
  Qed.

  Lemma step_append : forall (s : Sb) o m',
      st_model (stp s o) = Some m' ->
      exists m l, st_model s = Some m /\ u_funs m' = u_funs m ++ l /\ u_names m' = u_names m.
  Proof.
    intros s o m' H. destruct s as [|e|m|m fb]; simpl in H; try discriminate.
    - destruct (step_normal_append _ _ _ H) as [l Hl]. exists m, l. simpl. auto.
    - assert (Hfin : forall s', s' = (match finalize name_eqb has_comma m fb with
                                      | SNormal m1 => step_normal name_eqb has_comma arity m1 o
                                      | s1 => s1 end) ->
                                st_model s' = Some m' ->
                                exists l, u_funs m' = u_funs m ++ l /\ u_names m' = u_names m).
      { intros s' Hs' Hm'. destruct (finalize name_eqb has_comma m fb) as [|e|m1|m1 fb1] eqn:Hf;
          subst s'; simpl in Hm'; try discriminate.
        - destruct (finalize_SNormal _ _ _ Hf) as [f [_ Hm1]].
          destruct (step_normal_append _ _ _ Hm') as [l [Hl1 Hl2]]. subst m1. simpl in *.
          exists (f :: l). rewrite Hl1, <- app_assoc. auto.
        - unfold finalize in Hf. destruct (fbbuild fb); discriminate. }
      exists m. simpl.
      destruct o; simpl in H;
        try (destruct (Hfin _ eq_refl H) as [l' Hl]; exists l'; auto).
      inversion H; subst. exists []. rewrite app_nil_r. auto.
  Qed.

  Lemma fold_step_append : forall ops (s : Sb) m',
      st_model (fold_left stp ops s) = Some m' ->
      exists m l, st_model s = Some m /\ u_funs m' = u_funs m ++ l /\ u_names m' = u_names m.
  Proof.
    induction ops as [|o ops IH]; intros s m' H; simpl in H.
    - exists m', []. rewrite app_nil_r. auto.
    - destruct (IH _ _ H) as [m1 [l1 [H1 [H2 H3]]]].
      destruct (step_append _ _ _ H1) as [m [l [G1 [G2 G3]]]].
      exists m, (l ++ l1). rewrite H2, G2, <- app_assoc, H3, G3. auto.
  Qed.

  Theorem funs_append : forall ops (m m' : Unf),
      (fold_left stp ops (SNormal m) = SNormal m' \/
       exists fb, fold_left stp ops (SNormal m) = SFunctionBuilding m' fb) ->
      exists l, u_funs m' = u_funs m ++ l /\ u_names m' = u_names m.
  Proof.
    intros ops m m' H.
    assert (Hs : st_model (fold_left stp ops (SNormal m)) = Some m').
    { destruct H as [H|[fb H]]; rewrite H; reflexivity. }
    destruct (fold_step_append _ _ _ Hs) as [m0 [l [H1 H2]]]. simpl in H1. inversion H1; subst.
    exists l. assumption.
  Qed.

  Theorem set_get : forall (m : Smodel) p,
      length p = length (sm_names m) ->
      sm_get (fst (sm_set m p)) = p /\ snd (sm_set m p) = None /\
      sm_names (fst (sm_set m p)) = sm_names m /\ sm_funs (fst (sm_set m p)) = sm_funs m /\
      sm_x (fst (sm_set m p)) = sm_x m.
  Proof.
    intros m p H. unfold sm_set. apply Nat.eqb_eq in H. rewrite H. simpl. auto.
  Qed.

  (* ---------------------------------------------------------------------------------------- *)
  (* D. misuse (C17)                                                                           *)
  (* ---------------------------------------------------------------------------------------- *)
  Lemma eac_ok : forall v x (c : list Sc), eac v x = ROk c -> v = Some c /\ length c = xlen x.
  Proof.
    intros v x c H. unfold evaluate_and_check in H. destruct v as [l|]; [|discriminate].
    destruct (length l =? xlen x) eqn:E; [|discriminate].
    inversion H; subst. apply Nat.eqb_eq in E. auto.
  Qed.

  Lemma eac_some : forall (l : list Sc) x,
      eac (Some l) x = if length l =? xlen x then ROk l
                       else RErr (UnexpectedFunctionOutput (xlen x) (length l)).
  Proof. reflexivity. Qed.

  Lemma eac_no_panic : forall (l : list Sc) x, eac (Some l) x <> RPanic.
  Proof. intros l x. rewrite eac_some. destruct (length l =? xlen x); discriminate. Qed.

  (* the raw output of the closures, before evaluate_and_check *)
  Definition raw_out (f : Mfun) (x : X) (params : list Sc) : option (list Sc) :=
    match f_body f with
    | BWrapped w => callw w x params
    | BInvariant f0 => Some (call0 f0 x)
    end.

  Definition raw_deriv (f : Mfun) (k : nat) (x : X) (params : list Sc) : option (list Sc) :=
    match find_key k (f_derivs f) with
    | Some w => callw w x params
    | None => Some (repeat zero (xlen x))
    end.

  Lemma evalb_raw : forall (f : Mfun) x params,
      evalb (f_body f) x params = eac (raw_out f x params) x.
  Proof. intros f x params. unfold raw_out, eval_body. destruct (f_body f); reflexivity. Qed.

  Lemma deriv_col_raw : forall (f : Mfun) k x params,
      deriv_col f k x params = eac (raw_deriv f k x params) x.
  Proof.
    intros f k x params. unfold deriv_col, raw_deriv.
    destruct (find_key k (f_derivs f)); [reflexivity|].
    rewrite eac_some, repeat_length, Nat.eqb_refl. reflexivity.
  Qed.

  (* both matrices are "all columns in order, stop at the first failure" *)
  Fixpoint seq_res (l : list (res (list Sc))) : res (list (list Sc)) :=
    match l with
    | [] => ROk []
    | r :: t =>
        match r with
        | RPanic => RPanic
        | RErr e => RErr e
        | ROk c => match seq_res t with
                   | RPanic => RPanic
                   | RErr e => RErr e
                   | ROk cs => ROk (c :: cs)
                   end
        end
    end.

  Lemma evalc_seq : forall funs x params,
      evalc funs x params = seq_res (map (fun f => eac (raw_out f x params) x) funs).
  Proof.
    induction funs as [|f r IH]; intros x params; simpl; [reflexivity|].
    rewrite evalb_raw, IH. reflexivity.
  Qed.

  Lemma derivc_seq : forall funs k x params,
      derivc funs k x params = seq_res (map (fun f => eac (raw_deriv f k x params) x) funs).
  Proof.
    induction funs as [|f r IH]; intros k x params; simpl; [reflexivity|].
    fold (deriv_col f k x params). rewrite deriv_col_raw, IH. reflexivity.
  Qed.

  Lemma seq_res_ok : forall l cols, seq_res l = ROk cols <-> l = map (@ROk _) cols.
  Proof.
    induction l as [|r t IH]; intros cols; simpl.
    - split; intros H.
      + inversion H. reflexivity.
      + destruct cols; [reflexivity|discriminate].
    - destruct r as [|e|c].
      + split; [discriminate|]. destruct cols; discriminate.
      + split; [discriminate|]. destruct cols; discriminate.
      + destruct (seq_res t) as [|e|cs] eqn:Ht.
        * split; [discriminate|]. destruct cols as [|c' cols]; [discriminate|]. simpl. intros H.
          inversion H; subst. assert (E : @RPanic (list (list Sc)) = ROk cols) by (apply IH; reflexivity).
          discriminate.
        * split; [discriminate|]. destruct cols as [|c' cols]; [discriminate|]. simpl. intros H.
          inversion H; subst. assert (E : @RErr (list (list Sc)) e = ROk cols) by (apply IH; reflexivity).
          discriminate.
        * split; intros H.
          -- inversion H; subst. simpl. f_equal. apply IH. reflexivity.
          -- destruct cols as [|c' cols]; [discriminate|]. simpl in H. inversion H; subst.
             assert (E : ROk cs = ROk cols) by (apply IH; reflexivity). inversion E. reflexivity.
  Qed.

  Lemma seq_res_prefix : forall pre r post,
      Forall (fun r' => exists c, r' = ROk c) pre ->
      seq_res (pre ++ r :: post) =
      match r with
      | RPanic => RPanic
      | RErr e => RErr e
      | ROk _ => seq_res (pre ++ r :: post)
      end.
  Proof.
    induction pre as [|p pre IH]; intros r post H; simpl.
    - destruct r; reflexivity.
    - inversion H as [|p' pre' [c Hc] Hpre]; subst. rewrite (IH r post Hpre).
      destruct r; try reflexivity. 
  Qed.

  Lemma seq_res_no_panic : forall l, Forall (fun r => r <> RPanic) l -> seq_res l <> RPanic.
  Proof.
    induction l as [|r t IH]; intros H; simpl; [discriminate|].
    inversion H; subst. destruct r as [|e|c]; [congruence|discriminate|].
    specialize (IH H3). destruct (seq_res t); [congruence|discriminate|discriminate].
  Qed.

  Lemma eval_cols_shape : forall (funs : list Mfun) x params cols,
      evalc funs x params = ROk cols ->
      length cols = length funs /\ Forall (fun c => length c = xlen x) cols.
  Proof.
    intros funs x params cols H. rewrite evalc_seq in H. apply seq_res_ok in H.
    split.
    - apply (f_equal (@length _)) in H. rewrite !map_length in H. lia.
    - revert funs H. induction cols as [|c cols IH]; intros funs H; [constructor|].
      destruct funs as [|f funs]; [discriminate|]. simpl in H. inversion H.
      constructor; [|eapply IH; eassumption]. apply eac_ok in H1. tauto.
  Qed.

  Lemma deriv_cols_shape : forall (funs : list Mfun) k x params cols,
      derivc funs k x params = ROk cols ->
      length cols = length funs /\ Forall (fun c => length c = xlen x) cols.
  Proof.
    intros funs k x params cols H. rewrite derivc_seq in H. apply seq_res_ok in H.
    split.
    - apply (f_equal (@length _)) in H. rewrite !map_length in H. lia.
    - revert funs H. induction cols as [|c cols IH]; intros funs H; [constructor|].
      destruct funs as [|f funs]; [discriminate|]. simpl in H. inversion H.
      constructor; [|eapply IH; eassumption]. apply eac_ok in H1. tauto.
  Qed.

  Theorem shape_ok : forall (m : Smodel) cols,
      smeval m = ROk cols ->
      length cols = length (sm_funs m) /\ Forall (fun c => length c = xlen (sm_x m)) cols.
  Proof.
    intros m cols H. unfold sm_eval in H.
    destruct (length (sm_params m) =? length (sm_names m)); [|discriminate].
    eapply eval_cols_shape. eassumption.
  Qed.

  Theorem shape_ok_deriv : forall (m : Smodel) k cols,
      smderiv m k = ROk cols ->
      length cols = length (sm_funs m) /\ Forall (fun c => length c = xlen (sm_x m)) cols.
  Proof.
    intros m k cols H. unfold sm_deriv in H.
    destruct (length (sm_params m) =? length (sm_names m)); [|discriminate].
    destruct (length (sm_names m) <=? k); [discriminate|].
    eapply deriv_cols_shape. eassumption.
  Qed.

  (* a successful evaluation means every closure returned a vector of the right length, and the
     matrix consists of exactly these vectors, in order *)
  Theorem eval_ok_all_sized : forall funs x params cols,
      evalc funs x params = ROk cols ->
      Forall2 (fun f c => raw_out f x params = Some c /\ length c = xlen x) funs cols.
  Proof.
    intros funs x params cols H. rewrite evalc_seq in H. apply seq_res_ok in H.
    revert cols H. induction funs as [|f funs IH]; intros [|c cols] H; try discriminate; [constructor|].
    simpl in H. inversion H. constructor; [apply eac_ok; assumption|apply IH; assumption].
  Qed.

  Theorem deriv_ok_all_sized : forall funs k x params cols,
      derivc funs k x params = ROk cols ->
      Forall2 (fun f c => raw_deriv f k x params = Some c /\ length c = xlen x) funs cols.
  Proof.
    intros funs k x params cols H. rewrite derivc_seq in H. apply seq_res_ok in H.
    revert cols H. induction funs as [|f funs IH]; intros [|c cols] H; try discriminate; [constructor|].
    simpl in H. inversion H. constructor; [apply eac_ok; assumption|apply IH; assumption].
  Qed.

  Definition well_sized (x : X) (o : option (list Sc)) : Prop :=
    exists l, o = Some l /\ length l = xlen x.

  Lemma well_sized_ok : forall x o, well_sized x o -> exists c, eac o x = ROk c.
  Proof.
    intros x o [l [Ho Hl]]. subst o. exists l. rewrite eac_some.
    apply Nat.eqb_eq in Hl. rewrite Hl. reflexivity.
  Qed.

  (* the first wrongly sized output (all earlier ones being fine) is what is reported; whatever
     the later functions would do is irrelevant *)
  Theorem wrong_len_is_error : forall (pre : list Mfun) (f : Mfun) (post : list Mfun) x params l,
      Forall (fun g => well_sized x (raw_out g x params)) pre ->
      raw_out f x params = Some l -> length l <> xlen x ->
      evalc (pre ++ f :: post) x params = RErr (UnexpectedFunctionOutput (xlen x) (length l)).
  Proof.
    intros pre f post x params l Hpre Hf Hl. rewrite evalc_seq, map_app. simpl.
    rewrite seq_res_prefix.
    - rewrite Hf, eac_some. apply Nat.eqb_neq in Hl. rewrite Hl. reflexivity.
    - apply Forall_map. eapply Forall_impl; [|exact Hpre]. intros g Hg.
      apply well_sized_ok. assumption.
  Qed.

  Theorem wrong_len_is_error_deriv : forall (pre : list Mfun) (f : Mfun) (post : list Mfun) k x params l,
      Forall (fun g => well_sized x (raw_deriv g k x params)) pre ->
      raw_deriv f k x params = Some l -> length l <> xlen x ->
      derivc (pre ++ f :: post) k x params = RErr (UnexpectedFunctionOutput (xlen x) (length l)).
  Proof.
    intros pre f post k x params l Hpre Hf Hl. rewrite derivc_seq, map_app. simpl.
    rewrite seq_res_prefix.
    - rewrite Hf, eac_some. apply Nat.eqb_neq in Hl. rewrite Hl. reflexivity.
    - apply Forall_map. eapply Forall_impl; [|exact Hpre]. intros g Hg.
      apply well_sized_ok. assumption.
  Qed.

  (* and a slice-index / arity panic in the first failing function is a panic of the call *)
  Theorem first_panic_is_panic : forall (pre : list Mfun) (f : Mfun) (post : list Mfun) x params,
      Forall (fun g => well_sized x (raw_out g x params)) pre ->
      raw_out f x params = None ->
      evalc (pre ++ f :: post) x params = RPanic.
  Proof.
    intros pre f post x params Hpre Hf. rewrite evalc_seq, map_app. simpl.
    rewrite seq_res_prefix.
    - rewrite Hf. reflexivity.
    - apply Forall_map. eapply Forall_impl; [|exact Hpre]. intros g Hg.
      apply well_sized_ok. assumption.
  Qed.

  Theorem eval_ok_iff : forall funs x params,
      (exists cols, evalc funs x params = ROk cols) <->
      Forall (fun g => well_sized x (raw_out g x params)) funs.
  Proof.
    intros funs x params. split.
    - intros [cols H]. apply eval_ok_all_sized in H.
      induction H as [|f c funs cols [H1 H2] H IH]; constructor; [|assumption].
      exists c. auto.
    - intros H. induction H as [|f funs Hf H IH].
      + exists []. reflexivity.
      + destruct IH as [cols Hc]. destruct (well_sized_ok _ _ Hf) as [c Hc'].
        exists (c :: cols). simpl. rewrite evalb_raw, Hc', Hc. reflexivity.
  Qed.

  Theorem index_oob : forall (m : Smodel) k,
      length (sm_params m) = length (sm_names m) -> length (sm_names m) <= k ->
      smderiv m k = RErr (DerivativeIndexOutOfBounds k).
  Proof.
    intros m k H1 H2. unfold sm_deriv. apply Nat.eqb_eq in H1. apply Nat.leb_le in H2.
    rewrite H1, H2. reflexivity.
  Qed.

  Theorem wrong_count_rejected : forall (m : Smodel) p,
      length p <> length (sm_names m) ->
      sm_set m p = (m, Some (IncorrectParameterCountM (length (sm_names m)) (length p))).
  Proof.
    intros m p H. unfold sm_set. apply Nat.eqb_neq in H. rewrite H. reflexivity.
  Qed.

  Corollary wrong_count_run : forall (m : Smodel) p cs,
      length p <> length (sm_names m) ->
      run m (MSet p :: cs) =
      TSet (Some (IncorrectParameterCountM (length (sm_names m)) (length p))) :: run m cs.
  Proof.
    intros m p cs H. simpl. rewrite (wrong_count_rejected m p H). reflexivity.
  Qed.

  (* a model whose parameter vector has the wrong length (cannot be built, cannot be reached by
     set_params) would answer with an error, not with a matrix *)
  Theorem eval_wrong_count : forall (m : Smodel),
      length (sm_params m) <> length (sm_names m) ->
      smeval m = RErr (IncorrectParameterCountM (length (sm_names m)) (length (sm_params m))) /\
      forall k, smderiv m k =
                RErr (IncorrectParameterCountM (length (sm_names m)) (length (sm_params m))).
  Proof.
    intros m H. unfold sm_eval, sm_deriv. apply Nat.eqb_neq in H. rewrite H. auto.
  Qed.

  (* ---------------- built models never panic ---------------- *)
  Definition wf_wfn (names : list name) (w : Wfn) : Prop :=
    length (w_map w) = arity (w_fn w) /\ Forall (fun i => i < length names) (w_map w).

  Definition wf_mfun (names : list name) (f : Mfun) : Prop :=
    (match f_body f with BWrapped w => wf_wfn names w | BInvariant _ => True end) /\
    Forall (fun kw => wf_wfn names (snd kw)) (f_derivs f).

  Definition wf_model (m : Smodel) : Prop :=
    Forall (fun f => (match f_body f with
                      | BWrapped w => wf_wfn (sm_names m) w
                      | BInvariant _ => True
                      end) /\
                     Forall (fun kw => wf_wfn (sm_names m) (snd kw)) (f_derivs f)) (sm_funs m).

  Lemma wf_model_mfun : forall m, wf_model m <-> Forall (wf_mfun (sm_names m)) (sm_funs m).
  Proof. intros m. reflexivity. Qed.

  Lemma cim_wf : forall names fps m, cim names fps = inr m ->
      length m = length fps /\ Forall (fun i => i < length names) m.
  Proof.
    intros names fps m H. apply cim_spec in H.
    induction H as [|n i fps m Hp H [IH1 IH2]]; [split; [reflexivity|constructor]|].
    split; [simpl; lia|]. constructor; [|assumption]. eapply position_lt. eassumption.
  Qed.

  Theorem cw_wf : forall names fps f w, cw names fps f = inr w -> wf_wfn names w.
  Proof.
    intros names fps f w H. destruct (cw_inv _ _ _ _ H) as [_ [_ [Har [Hm Hf]]]].
    destruct (cim_wf _ _ _ Hm) as [H1 H2]. split; [|assumption]. rewrite Hf. lia.
  Qed.

  Definition unf_inv (names : list name) (m : Unf) : Prop :=
    u_names m = names /\ Forall (wf_mfun names) (u_funs m) /\
    (forall l, u_init m = Some l -> length l = length names).

  Definition fb_inv (names : list name) (fb : Fb) : Prop :=
    fb_model_params fb = names /\ forall mf, fb_result fb = inr mf -> wf_mfun names mf.

  Definition sb_inv (names : list name) (s : Sb) : Prop :=
    match s with
    | SNormal m => unf_inv names m
    | SFunctionBuilding m fb => unf_inv names m /\ fb_inv names fb
    | _ => True
    end.

  Lemma fb_new_inv : forall names fps f, fb_inv names (fbnew names fps f).
  Proof.
    intros names fps f. split; [apply fb_new_params|].
    intros mf H. destruct (fb_new_inr _ _ _ _ H) as [w0 [Hw Hmf]]. subst mf.
    split; simpl; [|constructor]. eapply cw_wf. eassumption.
  Qed.

  Lemma fbpd_inv : forall names (fb : Fb) n d, fb_inv names fb -> fb_inv names (fbpd fb n d).
  Proof.
    intros names fb n d [H1 H2]. destruct (fbpd_params fb n d) as [P1 P2].
    split; [congruence|].
    intros mf H. destruct (fbpd_inr _ _ _ _ H) as [mf0 [idx [w [G1 [G2 [G3 [G4 G5]]]]]]].
    destruct (H2 _ G1) as [B D]. subst mf. split; simpl; [assumption|].
    apply Forall_app. split; [assumption|]. constructor; [|constructor]. simpl.
    rewrite H1 in G3. eapply cw_wf. eassumption.
  Qed.

  Lemma push_inv : forall names (m : Unf) f,
      unf_inv names m -> wf_mfun names f -> unf_inv names (push_fun m f).
  Proof.
    intros names m f [H1 [H2 H3]] Hf. split; [assumption|]. split; [|assumption].
    simpl. apply Forall_app. split; [assumption|]. constructor; [assumption|constructor].
  Qed.

  Lemma step_normal_inv : forall names (m : Unf) o,
      unf_inv names m -> sb_inv names (step_normal name_eqb has_comma arity m o).
  Proof.
    intros names m o Hm. pose proof Hm as [H1 [H2 H3]]. destruct o; simpl.
    - split; [assumption|]. rewrite H1. apply fb_new_inv.
    - exact I.
    - apply push_inv; [assumption|]. split; simpl; [exact I|constructor].
    - split; [assumption|]. split; assumption.
    - destruct (length (u_names m) =? length l) eqn:E; simpl; [|exact I].
      split; [assumption|]. split; [assumption|]. simpl. intros l' Hl'. injection Hl' as <-.
      apply Nat.eqb_eq in E. rewrite <- E, H1. reflexivity.
  Qed.

  Lemma finalize_inv : forall names (m : Unf) (fb : Fb),
      unf_inv names m -> fb_inv names fb -> sb_inv names (finalize name_eqb has_comma m fb).
  Proof.
    intros names m fb Hm [F1 F2]. unfold finalize.
    destruct (fbbuild fb) as [|e|f] eqn:Hb; simpl; try exact I.
    apply push_inv; [assumption|]. apply F2. apply fb_build_Done. assumption.
  Qed.

  Lemma step_inv : forall names (s : Sb) o, sb_inv names s -> sb_inv names (stp s o).
  Proof.
    intros names s o H. destruct s as [|e|m|m fb]; simpl; try exact I.
    - apply step_normal_inv. assumption.
    - destruct H as [Hm Hfb].
      assert (Hfin : sb_inv names (match finalize name_eqb has_comma m fb with
                                   | SNormal m1 => step_normal name_eqb has_comma arity m1 o
                                   | s1 => s1 end)).
      { pose proof (finalize_inv names m fb Hm Hfb) as Hf.
        destruct (finalize name_eqb has_comma m fb) as [|e|m1|m1 fb1]; try exact I.
        - apply step_normal_inv. assumption.
        - assumption. }
      destruct o; try exact Hfin.
      split; [assumption|]. apply fbpd_inv. assumption.
  Qed.

  Lemma fold_step_inv : forall names ops (s : Sb),
      sb_inv names s -> sb_inv names (fold_left stp ops s).
  Proof.
    intros names. induction ops as [|o ops IH]; intros s H; simpl; [assumption|].
    apply IH. apply step_inv. assumption.
  Qed.

  Lemma sb_new_inv : forall names, sb_inv names (sb_new Fn Fn0 X Sc name_eqb has_comma names).
  Proof.
    intros names. unfold sb_new. destruct (cpn names); simpl; [exact I|].
    split; [reflexivity|]. split; [constructor|]. simpl. intros l H. discriminate.
  Qed.

  Lemma try_into_inv : forall names (m : Unf) (sm : Smodel),
      unf_inv names m -> try_into m = Done sm ->
      wf_model sm /\ sm_names sm = names /\ length (sm_params sm) = length names.
  Proof.
    intros names m sm [H1 [H2 H3]] H. unfold try_into in H.
    destruct (u_funs m) as [|f0 fs] eqn:Hfs; [discriminate|].
    destruct (u_names m) as [|n0 ns] eqn:Hns; [discriminate|].
    destruct (first_unused (n0 :: ns) 0 (f0 :: fs)); [discriminate|].
    destruct (u_x m) as [x|]; [|discriminate].
    destruct (u_init m) as [l|] eqn:Hi; [|discriminate].
    inversion H; subst sm. unfold wf_model. simpl. rewrite H1. auto.
  Qed.

  Theorem built_wf : forall names ops (m : Smodel),
      run_builder name_eqb has_comma arity names ops = Done m ->
      wf_model m /\ sm_names m = names /\ length (sm_params m) = length names.
  Proof.
    intros names ops m H. unfold run_builder in H.
    pose proof (fold_step_inv names ops _ (sb_new_inv names)) as Hinv.
    destruct (fold_left stp ops (sb_new Fn Fn0 X Sc name_eqb has_comma names)) as [|e|u|u fb];
      simpl in H; try discriminate.
    - eapply try_into_inv; eassumption.
    - destruct Hinv as [Hu Hfb]. pose proof (finalize_inv names u fb Hu Hfb) as Hf.
      destruct (finalize name_eqb has_comma u fb) as [|e|u1|u1 fb1]; try discriminate.
      eapply try_into_inv; eassumption.
  Qed.

  Lemma gather_total : forall (s : list Sc) idx,
      Forall (fun i => i < length s) idx ->
      exists l, gather s idx = Some l /\ length l = length idx.
  Proof.
    intros s idx H. induction H as [|i idx Hi H [l [IH1 IH2]]].
    - exists []. auto.
    - destruct (nth_error s i) as [v|] eqn:Hn.
      2:{ apply nth_error_None in Hn. lia. }
      exists (v :: l). simpl. rewrite Hn, IH1. simpl. auto.
  Qed.

  Lemma callw_some : forall names (w : Wfn) x params,
      wf_wfn names w -> length params = length names ->
      exists args, callw w x params = Some (call (w_fn w) x args).
  Proof.
    intros names w x params [H1 H2] Hl. rewrite <- Hl in H2.
    destruct (gather_total params (w_map w) H2) as [args [G1 G2]].
    exists args. unfold call_wrapped. rewrite G1. apply dispatch_canon. lia.
  Qed.

  Lemma eval_no_panic : forall names (funs : list Mfun) x params,
      Forall (wf_mfun names) funs -> length params = length names ->
      evalc funs x params <> RPanic.
  Proof.
    intros names funs x params H Hl. rewrite evalc_seq. apply seq_res_no_panic.
    apply Forall_map. eapply Forall_impl; [|exact H]. intros f [Hb _].
    unfold raw_out. destruct (f_body f) as [w|f0]; [|apply eac_no_panic].
    destruct (callw_some names w x params Hb Hl) as [args Ha]. rewrite Ha. apply eac_no_panic.
  Qed.

  Lemma find_key_wf : forall names k (d : list (nat * Wfn)) w,
      Forall (fun kw => wf_wfn names (snd kw)) d -> find_key k d = Some w -> wf_wfn names w.
  Proof.
    intros names k d w H Hk. apply find_key_In in Hk.
    rewrite Forall_forall in H. exact (H _ Hk).
  Qed.

  Lemma deriv_no_panic : forall names (funs : list Mfun) k x params,
      Forall (wf_mfun names) funs -> length params = length names ->
      derivc funs k x params <> RPanic.
  Proof.
    intros names funs k x params H Hl. rewrite derivc_seq. apply seq_res_no_panic.
    apply Forall_map. eapply Forall_impl; [|exact H]. intros f [_ Hd].
    unfold raw_deriv. destruct (find_key k (f_derivs f)) as [w|] eqn:Hk; [|apply eac_no_panic].
    pose proof (find_key_wf _ _ _ _ Hd Hk) as Hw.
    destruct (callw_some names w x params Hw Hl) as [args Ha]. rewrite Ha. apply eac_no_panic.
  Qed.

  Theorem wf_no_panic : forall (m : Smodel),
      wf_model m -> length (sm_params m) = length (sm_names m) ->
      smeval m <> RPanic /\ forall k, smderiv m k <> RPanic.
  Proof.
    intros m Hwf Hl. unfold sm_eval, sm_deriv. pose proof Hl as Hl'. apply Nat.eqb_eq in Hl'.
    rewrite Hl'. split.
    - eapply eval_no_panic; eassumption.
    - intros k. destruct (length (sm_names m) <=? k); [discriminate|].
      eapply deriv_no_panic; eassumption.
  Qed.

  Definition good (m : Smodel) : Prop :=
    wf_model m /\ length (sm_params m) = length (sm_names m).

  Lemma sm_set_good : forall (m : Smodel) p, good m -> good (fst (sm_set m p)).
  Proof.
    intros m p [H1 H2]. unfold sm_set.
    destruct (length p =? length (sm_names m)) eqn:E; simpl; [|split; assumption].
    apply Nat.eqb_eq in E. split; [exact H1|exact E].
  Qed.

  Theorem mrun_no_panic : forall cs (m : Smodel), good m -> ~ In (TMat RPanic) (run m cs).
  Proof.
    induction cs as [|c cs IH]; intros m Hm; simpl; [tauto|].
    destruct Hm as [H1 H2]. destruct (wf_no_panic m H1 H2) as [N1 N2].
    destruct c as [p| | |k]; simpl.
    - pose proof (sm_set_good m p (conj H1 H2)) as Hg.
      destruct (sm_set m p) as [m' e]. simpl in Hg. simpl.
      intros [H|H]; [discriminate|]. exact (IH m' Hg H).
    - intros [H|H]; [discriminate|]. exact (IH m (conj H1 H2) H).
    - intros [H|H]; [inversion H; congruence|]. exact (IH m (conj H1 H2) H).
    - intros [H|H]; [inversion H as [E]; exact (N2 k E)|]. exact (IH m (conj H1 H2) H).
  Qed.

  Theorem built_no_panic : forall names ops (m : Smodel) cs,
      run_builder name_eqb has_comma arity names ops = Done m ->
      ~ In (TMat RPanic) (run m cs).
  Proof.
    intros names ops m cs H. destruct (built_wf _ _ _ H) as [H1 [H2 H3]].
    apply mrun_no_panic. split; [assumption|]. congruence.
  Qed.

  (* the same with the table read from the source *)
  Corollary built_no_panic_source : forall names ops (m : Smodel) cs,
      run_builder name_eqb has_comma arity names ops = Done m ->
      ~ In (TMat RPanic) (mrun arity xlen zero call call0 dispatch_table m cs).
  Proof.
    intros. destruct dispatch_table_canon as [E _]. rewrite E. eapply built_no_panic. eassumption.
  Qed.

  (* ---------------- complements to C ---------------- *)
  Theorem derivs_keys_distinct : forall names fps f ds mf,
      fbbuild (feed (fbnew names fps f) ds) = Done mf -> NoDup (map fst (f_derivs mf)).
  Proof.
    intros names fps f ds mf H. apply fb_build_Done in H.
    destruct (feed_inr _ _ _ H) as [mf0 [l [H1 _]]].
    apply (feed_keys_NoDup _ _ _ _ H H1).
    destruct (fb_new_inr _ _ _ _ H1) as [w0 [_ Hmf0]]. subst mf0. constructor.
  Qed.

  Lemma has_key_find : forall k (d : list (nat * Wfn)),
      has_key k d = true -> exists w, find_key k d = Some w.
  Proof.
    intros k. induction d as [|[i w] d IH]; simpl; intros H; [discriminate|].
    destruct (i =? k); [eauto|]. apply IH. exact H.
  Qed.

  Lemma first_missing_None : forall (mapping : list nat) (fps : list name) (d : list (nat * Wfn)),
      length mapping = length fps -> first_missing mapping fps d = None ->
      Forall (fun i => has_key i d = true) mapping.
  Proof.
    induction mapping as [|i mr IH]; intros [|p pr] d Hl H; simpl in *; try discriminate; constructor.
    - destruct (has_key i d); [reflexivity|discriminate].
    - destruct (has_key i d); [|discriminate]. eapply IH; [|eassumption]. lia.
  Qed.

  (* a finished function has a derivative for each parameter it depends on *)
  Theorem derivs_complete : forall names fps f ds mf,
      fbbuild (feed (fbnew names fps f) ds) = Done mf ->
      forall n, In n fps ->
                exists k w, pos n names = Some k /\ find_key k (f_derivs mf) = Some w.
  Proof.
    intros names fps f ds mf H n Hn. pose proof (fb_build_Done _ _ H) as Hr.
    unfold fb_build in H.
    destruct (check_completion name_eqb has_comma (feed (fbnew names fps f) ds)) as [|e|[]] eqn:Hc;
      try discriminate.
    unfold check_completion in Hc. rewrite Hr in Hc.
    destruct (feed_params ds (fbnew names fps f)) as [P1 P2].
    destruct (fb_new_params names fps f) as [Q1 Q2]. rewrite P1, P2, Q1, Q2 in Hc.
    destruct (cpn names); [discriminate|]. destruct (cpn fps); [discriminate|].
    destruct (cim names fps) as [e|mapping] eqn:Hm; [discriminate|].
    destruct (first_missing mapping fps (f_derivs mf)) eqn:Hfm; [discriminate|].
    destruct (cim_wf _ _ _ Hm) as [Hlen _].
    pose proof (first_missing_None _ _ _ Hlen Hfm) as Hall.
    destruct (Forall2_In_l _ _ _ _ _ _ (cim_spec _ _ _ Hm) Hn) as [k [Hk Hp]].
    rewrite Forall_forall in Hall. destruct (has_key_find _ _ (Hall _ Hk)) as [w Hw].
    exists k, w. auto.
  Qed.

  (* column of a wrapped function: the closure applied to the values of its declared parameters *)
  Corollary route_column : forall names fps f w x params,
      cw names fps f = inr w -> length params = length names ->
      exists args, map (value_of names params) fps = map Some args /\
                   evalb (BWrapped w) x params = eac (Some (call f x args)) x.
  Proof.
    intros names fps f w x params Hw Hl.
    destruct (route names fps f w x params Hw Hl) as [args [H1 H2]].
    exists args. split; [assumption|]. simpl. rewrite H2. reflexivity.
  Qed.

End SepModelP.
