(* ModelBuilderP.v — the builder model (Model/ModelBuilder.v) meets its declarative
   specification (Model/ModelBuilderSpec.v):
     no_panic, run_ok_iff, run_err_sound, sticky, and concrete non-vacuity examples. *)
From Coq Require Import List Bool Arith Lia.
Import ListNotations.
From VP Require Import Model.ModelBuilder Model.ModelBuilderSpec.

Section Proofs.
  Variables name Fn Fn0 X Sc : Type.
  Variable name_eqb : name -> name -> bool.
  Variable has_comma : name -> bool.
  Variable arity : Fn -> nat.
  Hypothesis name_eqbP : forall a b, name_eqb a b = true <-> a = b.

  (* ---------- local names with all parameters fixed ---------- *)
  Notation mberr := (mberr name).
  Notation wfn := (wfn Fn).
  Notation mfun := (mfun Fn Fn0).
  Notation fbuilder := (fbuilder name Fn Fn0).
  Notation unfinished := (unfinished name Fn Fn0 X Sc).
  Notation sbuilder := (sbuilder name Fn Fn0 X Sc).
  Notation mop := (mop name Fn Fn0 X Sc).
  Notation item := (item name Fn Fn0 X Sc).
  Notation group := (list name * Fn * list (name * Fn))%type.

  Notation mem := (@mem name name_eqb).
  Notation uniq := (@uniq name name_eqb).
  Notation position := (@position name name_eqb).
  Notation cpn := (@check_parameter_names name name_eqb has_comma).
  Notation cim := (@create_index_mapping name name_eqb).
  Notation create_wrapped := (@create_wrapped name Fn name_eqb has_comma arity).
  Notation fb_new := (@fb_new name Fn Fn0 name_eqb has_comma arity).
  Notation deriv_index := (@deriv_index name name_eqb).
  Notation fb_partial_deriv := (@fb_partial_deriv name Fn Fn0 name_eqb has_comma arity).
  Notation check_completion := (@check_completion name Fn Fn0 name_eqb has_comma).
  Notation fb_build := (@fb_build name Fn Fn0 name_eqb has_comma).
  Notation sb_new := (@sb_new name Fn Fn0 X Sc name_eqb has_comma).
  Notation finalize := (@finalize name Fn Fn0 X Sc name_eqb has_comma).
  Notation step_normal := (@step_normal name Fn Fn0 X Sc name_eqb has_comma arity).
  Notation step := (@step name Fn Fn0 X Sc name_eqb has_comma arity).
  Notation sb_build := (@sb_build name Fn Fn0 X Sc name_eqb has_comma).
  Notation run_builder := (@run_builder name Fn Fn0 X Sc name_eqb has_comma arity).
  Notation try_into := (@try_into name Fn Fn0 X Sc).
  Notation push_fun := (@push_fun name Fn Fn0 X Sc).
  Notation first_unused := (@first_unused name Fn Fn0).
  Notation first_missing := (@first_missing name Fn).
  Notation has_key := (@has_key Fn).

  Notation IFun := (@IFun name Fn Fn0 X Sc).
  Notation IInv := (@IInv name Fn Fn0 X Sc).
  Notation IX := (@IX name Fn Fn0 X Sc).
  Notation IInit := (@IInit name Fn Fn0 X Sc).
  Notation IStray := (@IStray name Fn Fn0 X Sc).
  Notation flush := (@flush name Fn Fn0 X Sc).
  Notation parse := (@parse name Fn Fn0 X Sc).
  Notation items := (@items name Fn Fn0 X Sc).
  Notation is_function := (@is_function name Fn Fn0 X Sc).
  Notation names_ok := (@names_ok name has_comma).
  Notation group_ok := (@group_ok name Fn has_comma arity).
  Notation valid := (@valid name Fn Fn0 X Sc has_comma arity).
  Notation defect := (@defect name Fn Fn0 X Sc has_comma arity).

  (* ================= 4. errors are sticky ================= *)
  Lemma fold_step_error : forall ops e, fold_left step ops (SError e) = SError e.
  Proof. induction ops as [|o ops IH]; intros e; simpl; auto. Qed.

  Theorem sticky : forall ops1 ops2 s e,
      fold_left step ops1 s = SError e ->
      sb_build (fold_left step (ops1 ++ ops2) s) = Fail e.
  Proof.
    intros ops1 ops2 s e H. rewrite fold_left_app, H, fold_step_error. reflexivity.
  Qed.

  (* ================= list helpers ================= *)
  Lemma name_eqb_refl : forall a, name_eqb a a = true.
  Proof. intros a. apply name_eqbP. reflexivity. Qed.

  Lemma memP : forall n l, mem n l = true <-> In n l.
  Proof.
    intros n l. unfold ModelBuilder.mem. rewrite existsb_exists. split.
    - intros [x [Hin Heq]]. apply name_eqbP in Heq. subst. exact Hin.
    - intros Hin. exists n. split; [exact Hin|apply name_eqb_refl].
  Qed.

  Lemma mem_false : forall n l, mem n l = false <-> ~ In n l.
  Proof.
    intros n l. rewrite <- memP. destruct (mem n l); split; intros; congruence.
  Qed.

  Lemma uniqP : forall l, uniq l = true <-> NoDup l.
  Proof.
    induction l as [|x r IH]; simpl.
    - split; intros; [constructor|reflexivity].
    - rewrite andb_true_iff, negb_true_iff, mem_false, IH. split.
      + intros [H1 H2]. constructor; assumption.
      + intros H. inversion H; subst. split; assumption.
  Qed.

  Lemma position_nth : forall n l k, position n l = Some k -> nth_error l k = Some n.
  Proof.
    intros n. induction l as [|x r IH]; simpl; intros k H; [discriminate|].
    destruct (name_eqb x n) eqn:E.
    - apply name_eqbP in E. inversion H; subst. reflexivity.
    - destruct (position n r) as [j|] eqn:Ep; simpl in H; [|discriminate].
      inversion H; subst. simpl. apply IH. reflexivity.
  Qed.

  Lemma position_In : forall n l k, position n l = Some k -> In n l.
  Proof. intros n l k H. apply position_nth in H. eapply nth_error_In; eauto. Qed.

  Lemma position_None : forall n l, position n l = None -> ~ In n l.
  Proof.
    intros n. induction l as [|x r IH]; simpl; intros H; [tauto|].
    destruct (name_eqb x n) eqn:E; [discriminate|].
    destruct (position n r) eqn:Ep; simpl in H; [discriminate|].
    intros [Hx|Hr].
    - subst. rewrite name_eqb_refl in E. discriminate.
    - exact (IH eq_refl Hr).
  Qed.

  Lemma position_some : forall n l, In n l -> exists k, position n l = Some k.
  Proof.
    intros n l Hin. destruct (position n l) as [k|] eqn:E; [eauto|].
    exfalso. exact (position_None _ _ E Hin).
  Qed.

  Lemma position_inj : forall n n' l k,
      position n l = Some k -> position n' l = Some k -> n = n'.
  Proof.
    intros n n' l k H1 H2. apply position_nth in H1. apply position_nth in H2. congruence.
  Qed.

  Lemma nth_position_NoDup : forall l k n,
      NoDup l -> nth_error l k = Some n -> position n l = Some k.
  Proof.
    induction l as [|x r IH]; intros k n Hnd Hn.
    - destruct k; discriminate.
    - inversion Hnd as [|? ? Hx Hr]; subst. destruct k as [|k]; simpl in *.
      + inversion Hn; subst. rewrite name_eqb_refl. reflexivity.
      + destruct (name_eqb x n) eqn:E.
        * apply name_eqbP in E. subst. exfalso. apply Hx. eapply nth_error_In; eauto.
        * rewrite (IH k n Hr Hn). reflexivity.
  Qed.

  Lemma has_keyP : forall k (d : list (nat * wfn)), has_key k d = true <-> In k (map fst d).
  Proof.
    intros k d. unfold ModelBuilder.has_key. rewrite existsb_exists, in_map_iff. split.
    - intros [p [Hin He]]. apply Nat.eqb_eq in He. eauto.
    - intros [p [He Hin]]. exists p. split; [exact Hin|apply Nat.eqb_eq; exact He].
  Qed.

  (* ================= check_parameter_names ================= *)
  Lemma find_none_all : forall (l : list name), find has_comma l = None ->
      forall n, In n l -> has_comma n = false.
  Proof. intros l H n Hin. exact (find_none _ _ H n Hin). Qed.

  Lemma cpn_none : forall l, cpn l = None <-> names_ok l.
  Proof.
    intros l. unfold check_parameter_names, ModelBuilderSpec.names_ok. destruct l as [|a l'].
    - split; [discriminate|]. intros [H _]. congruence.
    - remember (a :: l') as l eqn:El. destruct (find has_comma l) as [c|] eqn:Ef.
      + split; [discriminate|]. intros [_ [_ H]]. apply find_some in Ef. destruct Ef as [Hin Hc].
        rewrite (H c Hin) in Hc. discriminate.
      + destruct (uniq l) eqn:Eu.
        * split; [|reflexivity]. intros _. split; [subst; discriminate|]. split.
          -- apply uniqP. exact Eu.
          -- apply find_none_all. exact Ef.
        * split; [discriminate|]. intros [_ [Hnd _]]. apply uniqP in Hnd. congruence.
  Qed.

  Lemma cpn_some : forall l e, cpn l = Some e ->
      (e = EmptyParameters /\ l = []) \/
      (exists n, e = CommaInParameterNameNotAllowed n /\ In n l /\ has_comma n = true) \/
      (e = DuplicateParameterNames l /\ ~ NoDup l).
  Proof.
    intros l e. unfold check_parameter_names. destruct l as [|a l'].
    - intros H. inversion H. left. split; reflexivity.
    - remember (a :: l') as l eqn:El. destruct (find has_comma l) as [c|] eqn:Ef.
      + intros H. inversion H; subst e. right. left. apply find_some in Ef. exists c. tauto.
      + destruct (uniq l) eqn:Eu; [discriminate|]. intros H. inversion H; subst e.
        right. right. split; [reflexivity|]. intros Hnd. apply uniqP in Hnd. congruence.
  Qed.

  (* ================= create_index_mapping ================= *)
  Definition P (names : list name) (k : nat) (n : name) : Prop := position n names = Some k.

  Lemma cim_spec : forall full sub,
      match cim full sub with
      | inl e => exists s, e = FunctionParameterNotInModel s /\ In s sub /\ ~ In s full
      | inr m => Forall2 (P full) m sub /\ incl sub full
      end.
  Proof.
    intros full. induction sub as [|s r IH]; simpl.
    - split; [constructor|]. intros x [].
    - destruct (position s full) as [i|] eqn:Ep.
      + destruct (cim full r) as [e|m].
        * destruct IH as [s' [He [Hin Hn]]]. exists s'. tauto.
        * destruct IH as [HF Hi]. split.
          -- constructor; assumption.
          -- intros x [Hx|Hx]; [subst; eapply position_In; eauto|auto].
      + exists s. split; [reflexivity|]. split; [left; reflexivity|].
        apply position_None. exact Ep.
  Qed.

  Lemma cim_ok : forall full sub, incl sub full ->
      exists m, cim full sub = inr m /\ Forall2 (P full) m sub.
  Proof.
    intros full sub Hi. pose proof (cim_spec full sub) as H.
    destruct (cim full sub) as [e|m].
    - destruct H as [s [_ [Hin Hn]]]. exfalso. apply Hn. apply Hi. exact Hin.
    - exists m. tauto.
  Qed.

  (* ================= deriv_index ================= *)
  Lemma deriv_index_eq : forall fps n l i,
      deriv_index l fps n i =
      if mem n fps then option_map (plus i) (position n l) else None.
  Proof.
    intros fps n. induction l as [|mp r IH]; intros i; simpl.
    - destruct (mem n fps); reflexivity.
    - destruct (name_eqb mp n) eqn:E.
      + apply name_eqbP in E. subst mp. destruct (mem n fps) eqn:Em; simpl.
        * f_equal. lia.
        * apply IH.
      + rewrite andb_false_r, IH. destruct (mem n fps); [|reflexivity].
        destruct (position n r); simpl; [f_equal; lia|reflexivity].
  Qed.

  Lemma deriv_index_some : forall names fps n idx,
      deriv_index names fps n 0 = Some idx -> In n fps /\ position n names = Some idx.
  Proof.
    intros names fps n idx. rewrite deriv_index_eq. destruct (mem n fps) eqn:Em; [|discriminate].
    apply memP in Em. destruct (position n names); simpl; intros H; inversion H. tauto.
  Qed.

  Lemma deriv_index_none : forall names fps n,
      deriv_index names fps n 0 = None -> ~ (In n fps /\ In n names).
  Proof.
    intros names fps n. rewrite deriv_index_eq. destruct (mem n fps) eqn:Em.
    - destruct (position n names) eqn:Ep; simpl; [discriminate|]. intros _ [_ H].
      exact (position_None _ _ Ep H).
    - intros _ [H _]. apply mem_false in Em. tauto.
  Qed.

  (* ================= the specification over an explicit item list ================= *)
  Definition validL (names : list name) (its : list item) : Prop :=
    names_ok names /\
    (forall n d, ~ In (IStray n d) its) /\
    (forall fps f ds, In (IFun fps f ds) its -> group_ok names fps f ds) /\
    (exists i, In i its /\ is_function i) /\
    (forall n, In n names -> exists fps f ds, In (IFun fps f ds) its /\ In n fps) /\
    (exists x, In (IX x) its) /\
    (exists l, In (IInit l) its) /\
    (forall l, In (IInit l) its -> length l = length names).

  Definition defectL (names : list name) (its : list item) (e : mberr) : Prop :=
    match e with
    | EmptyParameters =>
        names = [] \/ exists f ds, In (IFun [] f ds) its
    | CommaInParameterNameNotAllowed n =>
        has_comma n = true /\
        (In n names \/ exists fps f ds, In (IFun fps f ds) its /\ In n fps)
    | DuplicateParameterNames l =>
        ~ NoDup l /\ (l = names \/ exists f ds, In (IFun l f ds) its)
    | FunctionParameterNotInModel n =>
        exists fps f ds, In (IFun fps f ds) its /\ In n fps /\ ~ In n names
    | InvalidDerivative n fps =>
        exists f ds, In (IFun fps f ds) its /\ In n (map fst ds) /\
                     ~ (In n fps /\ In n names)
    | DuplicateDerivative n =>
        exists fps f ds, In (IFun fps f ds) its /\
          exists ds1 d1 ds2 d2 ds3, ds = ds1 ++ (n, d1) :: ds2 ++ (n, d2) :: ds3
    | MissingDerivative n fps =>
        exists f ds, In (IFun fps f ds) its /\ In n fps /\ ~ In n (map fst ds)
    | EmptyModel => forall i, In i its -> ~ is_function i
    | UnusedParameter n =>
        In n names /\ forall fps f ds, In (IFun fps f ds) its -> ~ In n fps
    | IncorrectParameterCount actual expected =>
        actual <> expected /\
        ((exists fps f ds, In (IFun fps f ds) its /\ actual = length fps /\
                           (expected = arity f \/ exists n d, In (n, d) ds /\ expected = arity d)) \/
         (exists l, In (IInit l) its /\ actual = length l /\ expected = length names))
    | MissingX => forall x, ~ In (IX x) its
    | MissingInitialParameters => forall l, ~ In (IInit l) its
    | IllegalCallToPartialDeriv => exists n d, In (IStray n d) its
    end.

  Lemma valid_validL : forall names ops, valid names ops = validL names (items ops).
  Proof. reflexivity. Qed.

  Lemma defect_defectL : forall names ops e, defect names ops e = defectL names (items ops) e.
  Proof. intros names ops e. destruct e; reflexivity. Qed.

  (* a defect excludes validity *)
  Lemma defect_not_valid : forall names its e, defectL names its e -> ~ validL names its.
  Proof.
    intros names its e Hd (Hn & Hs & Hg & Hf & Hu & Hx & Hi & Hl).
    destruct Hn as (Hne & Hnd & Hc).
    destruct e; simpl in Hd.
    - (* DuplicateParameterNames *)
      destruct Hd as [Hd [->|(f & ds & Hin)]]; [tauto|].
      apply Hg in Hin. destruct Hin as ((_ & Hnd' & _) & _). tauto.
    - (* EmptyParameters *)
      destruct Hd as [->|(f & ds & Hin)]; [tauto|].
      apply Hg in Hin. destruct Hin as ((Hne' & _) & _). tauto.
    - (* FunctionParameterNotInModel *)
      destruct Hd as (fps & f & ds & Hin & Hn & Hnn).
      apply Hg in Hin. destruct Hin as (_ & Hincl & _). apply Hnn, Hincl, Hn.
    - (* InvalidDerivative *)
      destruct Hd as (f & ds & Hin & Hn & Hnn).
      apply Hg in Hin. destruct Hin as (_ & Hincl & _ & _ & Hiff & _).
      apply Hnn. apply Hiff in Hn. split; [exact Hn|apply Hincl, Hn].
    - (* DuplicateDerivative *)
      destruct Hd as (fps & f & ds & Hin & ds1 & d1 & ds2 & d2 & ds3 & ->).
      apply Hg in Hin. destruct Hin as (_ & _ & _ & Hndd & _).
      rewrite map_app in Hndd. simpl in Hndd. apply NoDup_remove_2 in Hndd.
      apply Hndd. rewrite in_app_iff. right. rewrite map_app. rewrite in_app_iff. right.
      simpl. left. reflexivity.
    - (* MissingDerivative *)
      destruct Hd as (f & ds & Hin & Hn & Hnn).
      apply Hg in Hin. destruct Hin as (_ & _ & _ & _ & Hiff & _). apply Hnn, Hiff, Hn.
    - (* EmptyModel *)
      destruct Hf as (i & Hin & Hfi). exact (Hd i Hin Hfi).
    - (* UnusedParameter *)
      destruct Hd as (Hn & Hnone). destruct (Hu _ Hn) as (fps & f & ds & Hin & Hnf).
      exact (Hnone _ _ _ Hin Hnf).
    - (* IncorrectParameterCount *)
      destruct Hd as (Hne' & [(fps & f & ds & Hin & Ha & He)|(l & Hin & Ha & He)]).
      + apply Hg in Hin. destruct Hin as (_ & _ & Har & _ & _ & Hard).
        destruct He as [He|(n & d & Hind & He)].
        * congruence.
        * apply Hard in Hind. congruence.
      + apply Hl in Hin. congruence.
    - (* Comma *)
      destruct Hd as (Hcn & [Hn|(fps & f & ds & Hin & Hn)]).
      + rewrite (Hc _ Hn) in Hcn. discriminate.
      + apply Hg in Hin. destruct Hin as ((_ & _ & Hc') & _).
        rewrite (Hc' _ Hn) in Hcn. discriminate.
    - (* MissingX *) destruct Hx as (x & Hin). exact (Hd _ Hin).
    - (* MissingInit *) destruct Hi as (l & Hin). exact (Hd _ Hin).
    - (* Illegal *) destruct Hd as (n & d & Hin). exact (Hs _ _ Hin).
  Qed.

  (* ================= parse in accumulator form ================= *)
  Definition pnormal (done : list item) (o : mop) : list item * option group :=
    match o with
    | OFunction fps f => (done, Some (fps, f, []))
    | OPartialDeriv n d => (done ++ [IStray n d], None)
    | OInvariant f => (done ++ [IInv f], None)
    | OIndepVar x => (done ++ [IX x], None)
    | OInitParams l => (done ++ [IInit l], None)
    end.

  Definition pstep (done : list item) (cur : option group) (o : mop) : list item * option group :=
    match cur, o with
    | Some (fps, f, ds), OPartialDeriv n d => (done, Some (fps, f, ds ++ [(n, d)]))
    | _, _ => pnormal (done ++ flush cur) o
    end.

  Lemma parse_cons : forall o ops done cur,
      done ++ parse (o :: ops) cur =
      fst (pstep done cur o) ++ parse ops (snd (pstep done cur o)).
  Proof.
    intros o ops done cur. destruct cur as [[[fps f] ds]|]; destruct o; simpl;
      repeat rewrite <- app_assoc; simpl; try rewrite app_nil_r; reflexivity.
  Qed.

  Lemma pnormal_incl : forall done o, incl done (fst (pnormal done o)).
  Proof. intros done o. destruct o; simpl; try apply incl_refl; apply incl_appl, incl_refl. Qed.

  Lemma pstep_nonderiv : forall done cur o,
      (forall n d, o <> OPartialDeriv n d) ->
      pstep done cur o = pnormal (done ++ flush cur) o.
  Proof.
    intros done cur o Ho. destruct cur as [[[fps f] ds]|]; destruct o; try reflexivity.
    exfalso. eapply Ho. reflexivity.
  Qed.

  (* ================= invariants ================= *)
  Set Implicit Arguments.
  (* an error state: the defect is witnessed by the completed items and stays when items are added *)
  Definition SErr (names : list name) (done : list item) (e : mberr) : Prop :=
    forall its, incl done its -> defectL names its e.

  (* an error inside the pending group: stays however the group is continued *)
  Definition FErr (names fps : list name) (f : Fn) (ds : list (name * Fn)) (e : mberr) : Prop :=
    forall ds' its, In (IFun fps f (ds ++ ds')) its -> defectL names its e.

  Definition FOk (names fps : list name) (f : Fn) (ds : list (name * Fn)) (mf : mfun) : Prop :=
    names_ok fps /\ incl fps names /\ arity f = length fps /\ NoDup (map fst ds) /\
    (forall n, In n (map fst ds) -> In n fps) /\
    (forall n d, In (n, d) ds -> arity d = length fps) /\
    Forall2 (P names) (map fst (f_derivs mf)) (map fst ds).

  Record FInv (names fps : list name) (f : Fn) (ds : list (name * Fn)) (fb : fbuilder) : Prop := {
    fi_mp : fb_model_params fb = names;
    fi_fp : fb_fparams fb = fps;
    fi_res : match fb_result fb with
             | inl e => FErr names fps f ds e
             | inr mf => FOk names fps f ds mf
             end }.

  Record NInv (names : list name) (done : list item) (m : unfinished) : Prop := {
    ni_names_ok : names_ok names;
    ni_names : u_names m = names;
    ni_nostray : forall n d, ~ In (IStray n d) done;
    ni_groups : forall fps f ds, In (IFun fps f ds) done -> group_ok names fps f ds;
    ni_inits : forall l, In (IInit l) done -> length l = length names;
    ni_nonempty : u_funs m = [] <-> (forall i, In i done -> ~ is_function i);
    ni_keys : forall k,
        existsb (fun mf : mfun => has_key k (f_derivs mf)) (u_funs m) = true <->
        exists fps f ds n, In (IFun fps f ds) done /\ In n fps /\ position n names = Some k;
    ni_x : match u_x m with
           | None => forall x, ~ In (IX x) done
           | Some _ => exists x, In (IX x) done
           end;
    ni_init : match u_init m with
              | None => forall l, ~ In (IInit l) done
              | Some _ => exists l, In (IInit l) done
              end }.

  Definition Inv (names : list name) (done : list item) (cur : option group) (s : sbuilder) : Prop :=
    match s with
    | SPanic => False
    | SError e => SErr names done e
    | SNormal m => cur = None /\ NInv names done m
    | SFunctionBuilding m fb =>
        exists fps f ds, cur = Some (fps, f, ds) /\ NInv names done m /\ FInv names fps f ds fb
    end.

  Lemma SErr_incl : forall names done done' e,
      incl done done' -> SErr names done e -> SErr names done' e.
  Proof. intros names done done' e Hi H its Hi'. apply H. eapply incl_tran; eauto. Qed.

  Lemma in_snoc : forall (A : Type) (l : list A) (a x : A), In x (l ++ [a]) <-> In x l \/ x = a.
  Proof. intros A l a x. rewrite in_app_iff. simpl. intuition. Qed.

  (* ---------- extending the completed items ---------- *)
  Lemma NInv_push : forall names done m it mf,
      NInv names done m ->
      is_function it ->
      (forall fps f ds, it = IFun fps f ds -> group_ok names fps f ds) ->
      (forall k, has_key k (f_derivs mf) = true <->
                 exists fps f ds n, it = IFun fps f ds /\ In n fps /\ position n names = Some k) ->
      NInv names (done ++ [it]) (push_fun m mf).
  Proof.
    intros names done m it mf [Hno Hn Hs Hg Hi Hne Hk Hx Hin] Hf Hgo Hkeys.
    constructor; simpl; try assumption.
    - intros n d H. apply in_snoc in H. destruct H as [H|H]; [exact (Hs _ _ H)|].
      subst it. exact Hf.
    - intros fps f ds H. apply in_snoc in H. destruct H as [H|H]; [exact (Hg _ _ _ H)|].
      apply Hgo. symmetry. exact H.
    - intros l H. apply in_snoc in H. destruct H as [H|H]; [exact (Hi _ H)|].
      subst it. destruct Hf.
    - split.
      + intros H. apply app_eq_nil in H. destruct H as [_ H]. discriminate.
      + intros H. exfalso. apply (H it); [apply in_snoc; right; reflexivity|exact Hf].
    - intros k. rewrite existsb_app, orb_true_iff. simpl. rewrite orb_false_r. split.
      + intros [H|H].
        * apply Hk in H. destruct H as (fps & f & ds & n & H1 & H2 & H3).
          exists fps, f, ds, n. split; [apply in_snoc; left; exact H1|tauto].
        * apply Hkeys in H. destruct H as (fps & f & ds & n & H1 & H2 & H3).
          exists fps, f, ds, n. split; [apply in_snoc; right; symmetry; exact H1|tauto].
      + intros (fps & f & ds & n & H1 & H2 & H3). apply in_snoc in H1. destruct H1 as [H1|H1].
        * left. apply Hk. exists fps, f, ds, n. tauto.
        * right. apply Hkeys. exists fps, f, ds, n. split; [symmetry; exact H1|tauto].
    - destruct (u_x m) as [x0|].
      + destruct Hx as [x1 Hx]. exists x1. apply in_snoc. left. exact Hx.
      + intros x1 H. apply in_snoc in H. destruct H as [H|H]; [exact (Hx _ H)|].
        subst it. destruct Hf.
    - destruct (u_init m) as [l0|].
      + destruct Hin as [l1 Hl]. exists l1. apply in_snoc. left. exact Hl.
      + intros l1 H. apply in_snoc in H. destruct H as [H|H]; [exact (Hin _ H)|].
        subst it. destruct Hf.
  Qed.

  Lemma NInv_x : forall names done m x,
      NInv names done m ->
      NInv names (done ++ [IX x])
           {| u_names := u_names m; u_funs := u_funs m; u_x := Some x; u_init := u_init m |}.
  Proof.
    intros names done m x [Hno Hn Hs Hg Hi Hne Hk Hx Hin].
    constructor; simpl; try assumption.
    - intros n d H. apply in_snoc in H. destruct H as [H|H]; [exact (Hs _ _ H)|discriminate].
    - intros fps f ds H. apply in_snoc in H. destruct H as [H|H]; [exact (Hg _ _ _ H)|discriminate].
    - intros l H. apply in_snoc in H. destruct H as [H|H]; [exact (Hi _ H)|discriminate].
    - rewrite Hne. split.
      + intros H i Hi'. apply in_snoc in Hi'. destruct Hi' as [Hi'|Hi']; [exact (H _ Hi')|].
        subst i. simpl. tauto.
      + intros H i Hi'. apply H. apply in_snoc. left. exact Hi'.
    - intros k. rewrite Hk. split.
      + intros (fps & f & ds & n & H1 & H2). exists fps, f, ds, n.
        split; [apply in_snoc; left; exact H1|exact H2].
      + intros (fps & f & ds & n & H1 & H2). apply in_snoc in H1.
        destruct H1 as [H1|H1]; [|discriminate]. exists fps, f, ds, n. tauto.
    - exists x. apply in_snoc. right. reflexivity.
    - destruct (u_init m) as [l0|].
      + destruct Hin as [l1 Hl]. exists l1. apply in_snoc. left. exact Hl.
      + intros l1 H. apply in_snoc in H. destruct H as [H|H]; [exact (Hin _ H)|discriminate].
  Qed.

  Lemma NInv_init : forall names done m l,
      NInv names done m -> length l = length names ->
      NInv names (done ++ [IInit l])
           {| u_names := u_names m; u_funs := u_funs m; u_x := u_x m; u_init := Some l |}.
  Proof.
    intros names done m l [Hno Hn Hs Hg Hi Hne Hk Hx Hin] Hlen.
    constructor; simpl; try assumption.
    - intros n d H. apply in_snoc in H. destruct H as [H|H]; [exact (Hs _ _ H)|discriminate].
    - intros fps f ds H. apply in_snoc in H. destruct H as [H|H]; [exact (Hg _ _ _ H)|discriminate].
    - intros l' H. apply in_snoc in H. destruct H as [H|H]; [exact (Hi _ H)|].
      inversion H; subst. exact Hlen.
    - rewrite Hne. split.
      + intros H i Hi'. apply in_snoc in Hi'. destruct Hi' as [Hi'|Hi']; [exact (H _ Hi')|].
        subst i. simpl. tauto.
      + intros H i Hi'. apply H. apply in_snoc. left. exact Hi'.
    - intros k. rewrite Hk. split.
      + intros (fps & f & ds & n & H1 & H2). exists fps, f, ds, n.
        split; [apply in_snoc; left; exact H1|exact H2].
      + intros (fps & f & ds & n & H1 & H2). apply in_snoc in H1.
        destruct H1 as [H1|H1]; [|discriminate]. exists fps, f, ds, n. tauto.
    - destruct (u_x m) as [x0|].
      + destruct Hx as [x1 Hx]. exists x1. apply in_snoc. left. exact Hx.
      + intros x1 H. apply in_snoc in H. destruct H as [H|H]; [exact (Hx _ H)|discriminate].
    - exists l. apply in_snoc. right. reflexivity.
  Qed.

  (* ================= more list helpers ================= *)
  Lemma Forall2_In_l : forall (A B : Type) (R : A -> B -> Prop) l1 l2 a,
      Forall2 R l1 l2 -> In a l1 -> exists b, In b l2 /\ R a b.
  Proof.
    intros A B R l1 l2 a HF. induction HF as [|x y l l' Hxy HF IH]; intros Hin; [destruct Hin|].
    destruct Hin as [->|Hin].
    - exists y. split; [left; reflexivity|exact Hxy].
    - destruct (IH Hin) as (b & Hb & HR). exists b. split; [right; exact Hb|exact HR].
  Qed.

  Lemma Forall2_In_r : forall (A B : Type) (R : A -> B -> Prop) l1 l2 b,
      Forall2 R l1 l2 -> In b l2 -> exists a, In a l1 /\ R a b.
  Proof.
    intros A B R l1 l2 b HF. induction HF as [|x y l l' Hxy HF IH]; intros Hin; [destruct Hin|].
    destruct Hin as [->|Hin].
    - exists x. split; [left; reflexivity|exact Hxy].
    - destruct (IH Hin) as (a & Ha & HR). exists a. split; [right; exact Ha|exact HR].
  Qed.

  Lemma Forall2_len : forall (A B : Type) (R : A -> B -> Prop) l1 l2,
      Forall2 R l1 l2 -> length l1 = length l2.
  Proof. intros A B R l1 l2 HF. induction HF; simpl; congruence. Qed.

  Arguments Forall2_In_l [A B R l1 l2 a] _ _.
  Arguments Forall2_In_r [A B R l1 l2 b] _ _.

  Lemma NoDup_snoc : forall (A : Type) (l : list A) (a : A),
      NoDup l -> ~ In a l -> NoDup (l ++ [a]).
  Proof.
    intros A l a. induction l as [|x r IH]; intros Hnd Hn; simpl.
    - constructor; [intros []|constructor].
    - inversion Hnd as [|? ? Hx Hr]; subst. constructor.
      + intros H. apply in_snoc in H. destruct H as [H|H]; [tauto|]. subst. apply Hn. left. reflexivity.
      + apply IH; [exact Hr|]. intros H. apply Hn. right. exact H.
  Qed.

  Lemma first_unused_some : forall (funs : list mfun) l i n,
      first_unused l i funs = Some n ->
      exists k, nth_error l k = Some n /\
                existsb (fun mf : mfun => has_key (i + k) (f_derivs mf)) funs = false.
  Proof.
    intros funs. induction l as [|x r IH]; simpl; intros i n H; [discriminate|].
    destruct (existsb (fun f : mfun => has_key i (f_derivs f)) funs) eqn:E.
    - apply IH in H. destruct H as (k & H1 & H2). exists (S k). split; [exact H1|].
      replace (i + S k) with (S i + k) by lia. exact H2.
    - inversion H; subst. exists 0. rewrite Nat.add_0_r. split; [reflexivity|exact E].
  Qed.

  Lemma first_unused_none : forall (funs : list mfun) l i,
      first_unused l i funs = None ->
      forall k n, nth_error l k = Some n ->
                  existsb (fun mf : mfun => has_key (i + k) (f_derivs mf)) funs = true.
  Proof.
    intros funs. induction l as [|x r IH]; simpl; intros i H k n Hn.
    - destruct k; discriminate.
    - destruct (existsb (fun f : mfun => has_key i (f_derivs f)) funs) eqn:E; [|discriminate].
      destruct k as [|k]; simpl in Hn.
      + rewrite Nat.add_0_r. exact E.
      + replace (i + S k) with (S i + k) by lia. eapply IH; eauto.
  Qed.

  Lemma first_missing_some : forall names (d : list (nat * wfn)) mapping fps p,
      Forall2 (P names) mapping fps ->
      first_missing mapping fps d = Some p ->
      exists k, In p fps /\ P names k p /\ has_key k d = false.
  Proof.
    intros names d mapping fps p HF. induction HF as [|x y l l' Hxy HF IH]; simpl; intros H.
    - discriminate.
    - destruct (has_key x d) eqn:E.
      + destruct (IH H) as (k & H1 & H2 & H3). exists k. tauto.
      + inversion H; subst. exists x. tauto.
  Qed.

  Lemma first_missing_none : forall names (d : list (nat * wfn)) mapping fps,
      Forall2 (P names) mapping fps ->
      first_missing mapping fps d = None ->
      forall p, In p fps -> exists k, P names k p /\ has_key k d = true.
  Proof.
    intros names d mapping fps HF. induction HF as [|x y l l' Hxy HF IH]; simpl; intros H p Hin.
    - destruct Hin.
    - destruct (has_key x d) eqn:E; [|discriminate].
      destruct Hin as [->|Hin]; [exists x; tauto|auto].
  Qed.

  (* ================= the function builder ================= *)
  Lemma create_wrapped_spec : forall names fps g,
      names_ok names ->
      match create_wrapped names fps g with
      | inl e =>
          cpn fps = Some e \/
          (names_ok fps /\ e = IncorrectParameterCount (length fps) (arity g) /\
           length fps <> arity g) \/
          (names_ok fps /\ length fps = arity g /\
           exists s, e = FunctionParameterNotInModel s /\ In s fps /\ ~ In s names)
      | inr w => names_ok fps /\ length fps = arity g /\ incl fps names
      end.
  Proof.
    intros names fps g Hno. unfold ModelBuilder.create_wrapped.
    rewrite (proj2 (cpn_none names) Hno).
    destruct (cpn fps) as [e|] eqn:E; [left; reflexivity|].
    apply cpn_none in E.
    destruct (length fps =? arity g) eqn:Ea.
    - apply Nat.eqb_eq in Ea. pose proof (cim_spec names fps) as Hc.
      destruct (cim names fps) as [e|mp].
      + right. right. tauto.
      + tauto.
    - apply Nat.eqb_neq in Ea. right. left. tauto.
  Qed.

  Lemma cpn_FErr : forall names fps f ds e, cpn fps = Some e -> FErr names fps f ds e.
  Proof.
    intros names fps f ds e H ds' its Hin.
    destruct (cpn_some _ _ H) as [[-> ->]|[(n & -> & Hn & Hc)|[-> Hnd]]]; simpl.
    - right. eauto.
    - split; [exact Hc|]. right. eauto.
    - split; [exact Hnd|]. right. eauto.
  Qed.

  Lemma fb_new_inv : forall names fps f,
      names_ok names -> FInv names fps f [] (fb_new names fps f).
  Proof.
    intros names fps f Hno. unfold ModelBuilder.fb_new.
    destruct (cpn fps) as [e|] eqn:E.
    - constructor; simpl; try reflexivity. apply cpn_FErr. exact E.
    - constructor; simpl; try reflexivity.
      pose proof (create_wrapped_spec fps f Hno) as Hcw.
      destruct (create_wrapped names fps f) as [e|w].
      + destruct Hcw as [Hcw|[(Hfo & -> & Hne)|(Hfo & Hlen & s & -> & Hs & Hns)]].
        * congruence.
        * intros ds' its Hin. simpl. split; [exact Hne|]. left.
          exists fps, f, ([] ++ ds'). split; [exact Hin|]. split; [reflexivity|]. left. reflexivity.
        * intros ds' its Hin. simpl. exists fps, f, ([] ++ ds'). tauto.
      + destruct Hcw as (Hfo & Hlen & Hincl). unfold FOk. simpl.
        split; [exact Hfo|]. split; [exact Hincl|]. split; [symmetry; exact Hlen|].
        split; [constructor|]. split; [intros n []|]. split; [intros n d []|constructor].
  Qed.

  Lemma FErr_grow : forall names fps f ds ds1 e,
      FErr names fps f ds e -> FErr names fps f (ds ++ ds1) e.
  Proof.
    intros names fps f ds ds1 e H ds' its Hin. rewrite <- app_assoc in Hin. exact (H _ _ Hin).
  Qed.

  Lemma fb_pd_inv : forall names fps f ds fb n d,
      names_ok names ->
      FInv names fps f ds fb ->
      FInv names fps f (ds ++ [(n, d)]) (fb_partial_deriv fb n d).
  Proof.
    intros names fps f ds fb n d Hno [Hmp Hfp Hres]. unfold ModelBuilder.fb_partial_deriv.
    rewrite Hmp, Hfp.
    destruct (deriv_index names fps n 0) as [idx|] eqn:Edi.
    - apply deriv_index_some in Edi. destruct Edi as [Hnf Hpos].
      destruct (fb_result fb) as [e|mf] eqn:Er.
      + constructor; try assumption. rewrite Er. apply FErr_grow. exact Hres.
      + destruct Hres as (Hfo & Hincl & Har & Hnd & Hsub & Hard & HF2).
        pose proof (create_wrapped_spec fps d Hno) as Hcw.
        destruct (create_wrapped names fps d) as [e|w].
        * constructor; simpl; try reflexivity.
          destruct Hcw as [Hcw|[(_ & -> & Hne)|(_ & _ & s & -> & Hs & Hns)]].
          -- apply cpn_none in Hfo. congruence.
          -- intros ds' its Hin. simpl. split; [exact Hne|]. left.
             exists fps, f, ((ds ++ [(n, d)]) ++ ds'). split; [exact Hin|].
             split; [reflexivity|]. right. exists n, d. split; [|reflexivity].
             rewrite !in_app_iff. left. right. left. reflexivity.
          -- exfalso. apply Hns, Hincl, Hs.
        * destruct Hcw as (_ & Hlen & _).
          constructor; simpl; try reflexivity.
          destruct (has_key idx (f_derivs mf)) eqn:Ehk.
          -- apply has_keyP in Ehk.
             destruct (Forall2_In_l HF2 Ehk) as (n' & Hn' & HP). unfold P in HP.
             assert (n' = n) by (eapply position_inj; eauto). subst n'.
             apply in_map_iff in Hn'. destruct Hn' as ([n1 d1] & Hfst & Hin1). simpl in Hfst. subst n1.
             apply in_split in Hin1. destruct Hin1 as (ds1 & ds2 & ->).
             intros ds' its Hin. simpl. exists fps, f, (((ds1 ++ (n, d1) :: ds2) ++ [(n, d)]) ++ ds').
             split; [exact Hin|]. exists ds1, d1, ds2, d, ds'.
             rewrite <- !app_assoc. simpl. reflexivity.
          -- assert (Hnin : ~ In n (map fst ds)).
             { intros Hin. destruct (Forall2_In_r HF2 Hin) as (k & Hk & HP). unfold P in HP.
               assert (k = idx) by congruence. subst k.
               apply has_keyP in Hk. congruence. }
             unfold FOk. simpl. split; [exact Hfo|]. split; [exact Hincl|]. split; [exact Har|].
             split; [|split; [|split]].
             ++ rewrite map_app. simpl. apply NoDup_snoc; assumption.
             ++ intros n0. rewrite map_app. simpl. intros H. apply in_snoc in H.
                destruct H as [H|H]; [auto|subst; exact Hnf].
             ++ intros n0 d0 H. apply in_snoc in H. destruct H as [H|H]; [eauto|].
                inversion H; subst. symmetry. exact Hlen.
             ++ rewrite !map_app. apply Forall2_app; [exact HF2|]. simpl.
                constructor; [exact Hpos|constructor].
    - constructor; simpl; try reflexivity.
      intros ds' its Hin. simpl. exists f, ((ds ++ [(n, d)]) ++ ds'). split; [exact Hin|]. split.
      + rewrite !map_app, !in_app_iff. left. right. left. reflexivity.
      + apply deriv_index_none. exact Edi.
  Qed.

  Lemma finalize_spec : forall names done m fps f ds fb,
      NInv names done m ->
      FInv names fps f ds fb ->
      match finalize m fb with
      | SError e => SErr names (done ++ [IFun fps f ds]) e
      | SNormal m' => NInv names (done ++ [IFun fps f ds]) m'
      | _ => False
      end.
  Proof.
    intros names done m fps f ds fb HN [Hmp Hfp Hres].
    pose proof (ni_names_ok HN) as Hno.
    unfold ModelBuilder.finalize, ModelBuilder.fb_build, ModelBuilder.check_completion.
    rewrite Hmp, Hfp.
    destruct (fb_result fb) as [e|mf].
    - simpl. intros its Hi. apply (Hres [] its). rewrite app_nil_r. apply Hi.
      apply in_snoc. right. reflexivity.
    - destruct Hres as (Hfo & Hincl & Har & Hnd & Hsub & Hard & HF2).
      rewrite (proj2 (cpn_none names) Hno), (proj2 (cpn_none fps) Hfo).
      destruct (cim_ok _ _ Hincl) as [mapping [Ec HFm]]. rewrite Ec.
      destruct (first_missing mapping fps (f_derivs mf)) as [p|] eqn:Efm.
      + destruct (first_missing_some _ HFm Efm) as (k & Hp & HPk & Hk).
        intros its Hi. simpl. exists f, ds. split; [apply Hi, in_snoc; right; reflexivity|].
        split; [exact Hp|]. intros Hin.
        destruct (Forall2_In_r HF2 Hin) as (k' & Hk' & HP'). unfold P in *.
        assert (k' = k) by congruence. subst k'. apply has_keyP in Hk'. congruence.
      + pose proof (first_missing_none _ HFm Efm) as Hall0.
        assert (Hall : forall p, In p fps -> In p (map fst ds)).
        { intros p Hp. destruct (Hall0 p Hp) as (k & HPk & Hk). apply has_keyP in Hk.
          destruct (Forall2_In_l HF2 Hk) as (n & Hn & HPn). unfold P in *.
          assert (n = p) by (eapply position_inj; eauto). subst n. exact Hn. }
        assert (Hlen : length mapping = length (f_derivs mf)).
        { rewrite (Forall2_len HFm). rewrite <- (map_length fst (f_derivs mf)).
          rewrite (Forall2_len HF2). destruct Hfo as (_ & Hndf & _).
          apply Nat.le_antisymm; apply NoDup_incl_length; assumption. }
        rewrite Hlen, Nat.eqb_refl. simpl.
        apply NInv_push; try assumption.
        * exact I.
        * intros fps' f' ds' Heq. inversion Heq; subst. unfold ModelBuilderSpec.group_ok.
          split; [exact Hfo|]. split; [exact Hincl|]. split; [exact Har|]. split; [exact Hnd|].
          split; [intros n; split; auto|exact Hard].
        * intros k. split.
          -- intros Hk. apply has_keyP in Hk.
             destruct (Forall2_In_l HF2 Hk) as (n & Hn & HPn).
             exists fps, f, ds, n. split; [reflexivity|]. split; [auto|exact HPn].
          -- intros (fps' & f' & ds' & n & Heq & Hn & Hpos). inversion Heq; subst.
             apply Hall in Hn. destruct (Forall2_In_r HF2 Hn) as (k' & Hk' & HP'). unfold P in HP'.
             assert (k' = k) by congruence. subst k'. apply has_keyP. exact Hk'.
  Qed.

  (* ================= one step ================= *)
  Lemma step_normal_inv : forall names done m o,
      NInv names done m ->
      Inv names (fst (pnormal done o)) (snd (pnormal done o)) (step_normal m o).
  Proof.
    intros names done m o HN. pose proof (ni_names_ok HN) as Hno. pose proof (ni_names HN) as Hn.
    destruct o as [fps f|n d|f0|x|l]; simpl.
    - exists fps, f, []. split; [reflexivity|]. split; [exact HN|]. rewrite Hn.
      apply fb_new_inv. exact Hno.
    - intros its Hi. simpl. exists n, d. apply Hi, in_snoc. right. reflexivity.
    - split; [reflexivity|]. apply NInv_push; try assumption.
      + exact I.
      + intros fps f ds H. discriminate.
      + intros k. simpl. split; [discriminate|]. intros (fps & f & ds & n & H & _). discriminate.
    - split; [reflexivity|]. apply NInv_x. exact HN.
    - destruct (length (u_names m) =? length l) eqn:E.
      + apply Nat.eqb_eq in E. rewrite Hn in E. split; [reflexivity|].
        apply NInv_init; [exact HN|]. symmetry. exact E.
      + apply Nat.eqb_neq in E. rewrite Hn in *. intros its Hi. simpl. split; [congruence|]. right.
        exists l. split; [apply Hi, in_snoc; right; reflexivity|]. split; reflexivity.
  Qed.

  Lemma pstep_none : forall done o, pstep done None o = pnormal done o.
  Proof. intros done o. unfold pstep. simpl. rewrite app_nil_r. reflexivity. Qed.

  Lemma pstep_incl : forall done cur o, incl done (fst (pstep done cur o)).
  Proof.
    intros done cur o. destruct cur as [[[fps f] ds]|].
    - destruct o; simpl; try apply incl_refl;
        try (apply incl_appl, incl_appl, incl_refl); apply incl_appl, incl_refl.
    - rewrite pstep_none. apply pnormal_incl.
  Qed.

  Lemma step_fb_nonderiv : forall m fb o,
      (forall n d, o <> OPartialDeriv n d) ->
      step (SFunctionBuilding m fb) o =
      match finalize m fb with SNormal m' => step_normal m' o | s' => s' end.
  Proof. intros m fb o Ho. destruct o; try reflexivity. exfalso. eapply Ho. reflexivity. Qed.

  Lemma step_inv : forall names done cur s o,
      Inv names done cur s ->
      Inv names (fst (pstep done cur o)) (snd (pstep done cur o)) (step s o).
  Proof.
    intros names done cur s o H. destruct s as [|e|m|m fb]; simpl in H.
    - destruct H.
    - simpl. eapply SErr_incl; [apply pstep_incl|exact H].
    - destruct H as [-> HN]. rewrite pstep_none. simpl. apply step_normal_inv. exact HN.
    - destruct H as (fps & f & ds & -> & HN & HF).
      assert (Hnd : (forall n d, o <> OPartialDeriv n d) ->
                    Inv names (fst (pstep done (Some (fps, f, ds)) o))
                        (snd (pstep done (Some (fps, f, ds)) o)) (step (SFunctionBuilding m fb) o)).
      { intros Ho. rewrite pstep_nonderiv, step_fb_nonderiv by exact Ho. simpl flush.
        pose proof (finalize_spec HN HF) as Hfin.
        destruct (finalize m fb) as [|e|m'|m' fb'].
        - destruct Hfin.
        - simpl. eapply SErr_incl; [apply pnormal_incl|exact Hfin].
        - apply step_normal_inv. exact Hfin.
        - destruct Hfin. }
      destruct o as [fps' f'|n d|f0|x|l]; try (apply Hnd; intros; discriminate).
      simpl. exists fps, f, (ds ++ [(n, d)]). split; [reflexivity|]. split; [exact HN|].
      apply fb_pd_inv; [exact (ni_names_ok HN)|exact HF].
  Qed.

  (* ================= finishing ================= *)
  Lemma fun_dec : forall done : list item,
      (exists i, In i done /\ is_function i) \/ (forall i, In i done -> ~ is_function i).
  Proof.
    induction done as [|it r IH].
    - right. intros i [].
    - destruct IH as [(i & Hi & Hf)|IH].
      + left. exists i. split; [right; exact Hi|exact Hf].
      + destruct it as [fps f ds|f0|x|l|n d];
          try (left; eexists; split; [left; reflexivity|exact I]);
          right; intros i [<-|Hi]; simpl; auto.
  Qed.

  Definition Post (names : list name) (its : list item) (r : outcome name (smodel name Fn Fn0 X Sc)) : Prop :=
    match r with
    | Panic => False
    | Fail e => defectL names its e
    | Done _ => validL names its
    end.

  Lemma try_into_spec : forall names done m, NInv names done m -> Post names done (try_into m).
  Proof.
    intros names done m HN. pose proof HN as [Hno Hn Hs Hg Hi Hne Hk Hx Hin].
    unfold ModelBuilder.try_into.
    destruct (u_funs m) as [|mf0 funs] eqn:Ef.
    - simpl. apply Hne. reflexivity.
    - destruct (u_names m) as [|a r] eqn:En.
      + simpl. left. congruence.
      + rewrite Hn. rewrite <- Ef. rewrite <- Ef in Hk, Hne.
        destruct (first_unused names 0 (u_funs m)) as [n|] eqn:Efu.
        * apply first_unused_some in Efu. destruct Efu as (k & Hnth & Hex). simpl in Hex.
          simpl. split; [eapply nth_error_In; eauto|].
          intros fps f ds Hin' Hnf.
          assert (Ht : existsb (fun mf : mfun => has_key k (f_derivs mf)) (u_funs m) = true).
          { apply Hk. exists fps, f, ds, n. split; [exact Hin'|]. split; [exact Hnf|].
            apply nth_position_NoDup; [apply Hno|exact Hnth]. }
          congruence.
        * pose proof (first_unused_none _ _ _ Efu) as Hall. simpl in Hall.
          destruct (u_x m) as [x|].
          -- destruct (u_init m) as [l|].
             ++ simpl. unfold validL. split; [exact Hno|]. split; [exact Hs|]. split; [exact Hg|].
                split; [|split; [|split; [exact Hx|split; [exact Hin|exact Hi]]]].
                ** destruct (fun_dec done) as [Hc|Hc]; [exact Hc|].
                   apply Hne in Hc. congruence.
                ** intros n Hn'. apply In_nth_error in Hn'. destruct Hn' as [k Hnth].
                   pose proof (Hall _ _ Hnth) as Ht. apply Hk in Ht.
                   destruct Ht as (fps & f & ds & n' & H1 & H2 & H3).
                   apply position_nth in H3. assert (n' = n) by congruence. subst n'.
                   exists fps, f, ds. tauto.
             ++ simpl. exact Hin.
          -- simpl. exact Hx.
  Qed.

  Lemma build_spec : forall names done cur s,
      Inv names done cur s -> Post names (done ++ flush cur) (sb_build s).
  Proof.
    intros names done cur s H. destruct s as [|e|m|m fb]; simpl in H.
    - destruct H.
    - simpl. apply H. apply incl_appl, incl_refl.
    - destruct H as [-> HN]. simpl. rewrite app_nil_r. apply try_into_spec. exact HN.
    - destruct H as (fps & f & ds & -> & HN & HF). simpl.
      pose proof (finalize_spec HN HF) as Hfin.
      destruct (finalize m fb) as [|e|m'|m' fb'].
      + destruct Hfin.
      + simpl. apply Hfin. apply incl_refl.
      + apply try_into_spec. exact Hfin.
      + destruct Hfin.
  Qed.

  Lemma run_spec : forall names ops done cur s,
      Inv names done cur s ->
      Post names (done ++ parse ops cur) (sb_build (fold_left step ops s)).
  Proof.
    intros names. induction ops as [|o ops IH]; intros done cur s H.
    - simpl fold_left. simpl parse. apply build_spec. exact H.
    - simpl fold_left. rewrite parse_cons. apply IH. apply step_inv. exact H.
  Qed.

  Lemma sb_new_inv : forall names, Inv names [] None (sb_new names).
  Proof.
    intros names. unfold ModelBuilder.sb_new. destruct (cpn names) as [e|] eqn:E.
    - simpl. intros its _.
      destruct (cpn_some _ _ E) as [[-> ->]|[(n & -> & Hn & Hc)|[-> Hnd]]]; simpl.
      + left. reflexivity.
      + split; [exact Hc|]. left. exact Hn.
      + split; [exact Hnd|]. left. reflexivity.
    - apply cpn_none in E. simpl. split; [reflexivity|].
      constructor; simpl; try reflexivity; try (intros; tauto); try tauto.
      intros k. split; [discriminate|]. intros (fps & f & ds & n & [] & _).
  Qed.

  Lemma run_post : forall names ops, Post names (items ops) (run_builder names ops).
  Proof.
    intros names ops. unfold ModelBuilder.run_builder.
    change (items ops) with ([] ++ parse ops None). apply run_spec. apply sb_new_inv.
  Qed.

  (* ================= 1. the builder never panics ================= *)
  Theorem no_panic : forall names ops,
      @ModelBuilder.run_builder name Fn Fn0 X Sc name_eqb has_comma arity names ops <> Panic.
  Proof.
    intros names ops H. pose proof (run_post names ops) as HP. rewrite H in HP. exact HP.
  Qed.

  (* ================= 3. a returned error names a defect that is present ================= *)
  Theorem run_err_sound : forall names ops e,
      @ModelBuilder.run_builder name Fn Fn0 X Sc name_eqb has_comma arity names ops = Fail e ->
      @ModelBuilderSpec.defect name Fn Fn0 X Sc has_comma arity names ops e.
  Proof.
    intros names ops e H. pose proof (run_post names ops) as HP. rewrite H in HP.
    rewrite defect_defectL. exact HP.
  Qed.

  (* ================= 2. a model is returned exactly for the valid call sequences ============ *)
  Theorem run_ok_iff : forall names ops,
      (exists m, @ModelBuilder.run_builder name Fn Fn0 X Sc name_eqb has_comma arity names ops = Done m)
      <-> @ModelBuilderSpec.valid name Fn Fn0 X Sc has_comma arity names ops.
  Proof.
    intros names ops. pose proof (run_post names ops) as HP. rewrite valid_validL. split.
    - intros [m H]. rewrite H in HP. exact HP.
    - intros Hv. destruct (run_builder names ops) as [|e|m]; simpl in HP.
      + destruct HP.
      + exfalso. exact (defect_not_valid _ _ _ HP Hv).
      + exists m. reflexivity.
  Qed.
End Proofs.

(* ================= 5. non-vacuity: concrete programs ================= *)
Module Examples.
  (* names are numbers, "contains a comma" = at least 1000; a closure is its arity *)
  Definition hc (n : nat) : bool := 1000 <=? n.
  Definition ar (f : nat) : nat := f.
  Notation op := (mop nat nat unit unit nat).
  Definition run (names : list nat) (ops : list op) :=
    @run_builder nat nat unit unit nat Nat.eqb hc ar names ops.
  Definition Fun (fps : list nat) (f : nat) : op := OFunction fps f.
  Definition PD (n : nat) (d : nat) : op := OPartialDeriv n d.
  Definition Inv0 : op := OInvariant tt.
  Definition Xv : op := OIndepVar tt.
  Definition Init (l : list nat) : op := OInitParams l.

  (* two parameters; f(1,2) with derivatives given in reverse order, an invariant function,
     g(2) with its derivative, x and initial parameters *)
  Definition good : list op :=
    [Fun [1; 2] 2; PD 2 2; PD 1 2; Inv0; Fun [2] 1; PD 2 1; Xv; Init [5; 6]].

  Example good_done : exists m, run [1; 2] good = Done m.
  Proof. eexists. vm_compute. reflexivity. Qed.

  Example good_valid : @valid nat nat unit unit nat hc ar [1; 2] good.
  Proof. apply (run_ok_iff Nat.eqb hc ar Nat.eqb_eq). exact good_done. Qed.

  (* the derivative keys of f are model indices 1 then 0 (insertion order), the mapping is [0;1] *)
  Example good_model :
    match run [1; 2] good with
    | Done m => map (fun mf => map fst (f_derivs mf)) (sm_funs m) = [[1; 0]; []; [1]]
                /\ sm_names m = [1; 2] /\ sm_params m = [5; 6]
    | _ => False
    end.
  Proof. vm_compute. repeat split. Qed.

  (* one invalid program per error kind *)
  Example bad_duplicate_names : run [1; 1] good = Fail (DuplicateParameterNames [1; 1]).
  Proof. vm_compute. reflexivity. Qed.
  Example bad_empty_names : run [] good = Fail EmptyParameters.
  Proof. vm_compute. reflexivity. Qed.
  Example bad_comma : run [1; 1000] good = Fail (CommaInParameterNameNotAllowed 1000).
  Proof. vm_compute. reflexivity. Qed.
  Example bad_empty_fparams : run [1] [Fun [] 0; Xv; Init [0]] = Fail EmptyParameters.
  Proof. vm_compute. reflexivity. Qed.
  Example bad_not_in_model :
    run [1; 2] [Fun [3] 1; Xv; Init [5; 6]] = Fail (FunctionParameterNotInModel 3).
  Proof. vm_compute. reflexivity. Qed.
  Example bad_invalid_derivative :
    run [1; 2] [Fun [1] 1; PD 2 1; Xv; Init [5; 6]] = Fail (InvalidDerivative 2 [1]).
  Proof. vm_compute. reflexivity. Qed.
  Example bad_duplicate_derivative :
    run [1; 2] [Fun [1; 2] 2; PD 1 2; PD 1 2; PD 2 2; Xv; Init [5; 6]] = Fail (DuplicateDerivative 1).
  Proof. vm_compute. reflexivity. Qed.
  Example bad_missing_derivative :
    run [1; 2] [Fun [1; 2] 2; PD 1 2; Xv; Init [5; 6]] = Fail (MissingDerivative 2 [1; 2]).
  Proof. vm_compute. reflexivity. Qed.
  Example bad_empty_model : run [1] [Xv; Init [0]] = Fail EmptyModel.
  Proof. vm_compute. reflexivity. Qed.
  Example bad_unused :
    run [1; 2] [Fun [1] 1; PD 1 1; Inv0; Xv; Init [5; 6]] = Fail (UnusedParameter 2).
  Proof. vm_compute. reflexivity. Qed.
  Example bad_count_function :
    run [1; 2] [Fun [1; 2] 1; Xv; Init [5; 6]] = Fail (IncorrectParameterCount 2 1).
  Proof. vm_compute. reflexivity. Qed.
  Example bad_count_derivative :
    run [1; 2] [Fun [1; 2] 2; PD 1 3; Xv; Init [5; 6]] = Fail (IncorrectParameterCount 2 3).
  Proof. vm_compute. reflexivity. Qed.
  Example bad_count_init :
    run [1; 2] [Fun [1; 2] 2; PD 1 2; PD 2 2; Xv; Init [5]] = Fail (IncorrectParameterCount 1 2).
  Proof. vm_compute. reflexivity. Qed.
  Example bad_missing_x :
    run [1] [Fun [1] 1; PD 1 1; Init [0]] = Fail MissingX.
  Proof. vm_compute. reflexivity. Qed.
  Example bad_missing_init :
    run [1] [Fun [1] 1; PD 1 1; Xv] = Fail MissingInitialParameters.
  Proof. vm_compute. reflexivity. Qed.
  Example bad_stray : run [1] [Inv0; PD 1 1; Xv; Init [0]] = Fail IllegalCallToPartialDeriv.
  Proof. vm_compute. reflexivity. Qed.

  (* ... each of which is, by the theorems, not valid and has the named defect *)
  Example bad_missing_derivative_invalid :
    ~ @valid nat nat unit unit nat hc ar [1; 2] [Fun [1; 2] 2; PD 1 2; Xv; Init [5; 6]].
  Proof.
    intros H. apply (run_ok_iff Nat.eqb hc ar Nat.eqb_eq) in H. destruct H as [m H].
    pose proof bad_missing_derivative as Hb. unfold run in Hb. rewrite Hb in H. discriminate.
  Qed.
  Example bad_missing_derivative_defect :
    @defect nat nat unit unit nat hc ar [1; 2] [Fun [1; 2] 2; PD 1 2; Xv; Init [5; 6]]
            (MissingDerivative 2 [1; 2]).
  Proof. apply (run_err_sound Nat.eqb hc ar Nat.eqb_eq). exact bad_missing_derivative. Qed.
End Examples.

Check no_panic.
Check run_ok_iff.
Check run_err_sound.
Check sticky.
Print Assumptions no_panic.
Print Assumptions run_ok_iff.
Print Assumptions run_err_sound.
Print Assumptions sticky.
