(* proofs about ModelBuilder.v (property C15) *)
From Coq Require Import List Bool Arith Lia.
Import ListNotations.
From VP Require Import Model.ModelBuilder.
Set Implicit Arguments.

Section ModelBuilderP.
  Variables name Fn Fn0 X Sc : Type.
  Variable name_eqb : name -> name -> bool.
  Variable has_comma : name -> bool.
  Variable arity : Fn -> nat.

  Notation step := (@step name Fn Fn0 X Sc name_eqb has_comma arity).
  Notation sb_build := (@sb_build name Fn Fn0 X Sc name_eqb has_comma).

  (* once a defect has been recorded, no later call can clear it *)
  Lemma fold_error e ops : fold_left step ops (SError e) = SError e.
  Proof. induction ops as [|o ops IH]; [reflexivity|exact IH]. Qed.

  Lemma fold_panic ops : fold_left step ops (SPanic) = SPanic.
  Proof. induction ops as [|o ops IH]; [reflexivity|exact IH]. Qed.

  Theorem sticky ops1 ops2 s e :
    fold_left step ops1 s = SError e ->
    sb_build (fold_left step (ops1 ++ ops2) s) = Fail e.
  Proof. intros H. rewrite fold_left_app, H, fold_error. reflexivity. Qed.
End ModelBuilderP.
