(* MathComp 1.15 algebraic / order structures on the stdlib canonical
   rationals [Qc] (Coq.QArith.Qcanon).  All boolean tests are executable
   (Z arithmetic on numerators / denominators), no axioms. *)
From Coq Require Import ZArith QArith Qcanon Qcabs.
From mathcomp Require Import all_ssreflect all_algebra ssrZ.
Set Implicit Arguments. Unset Strict Implicit. Unset Printing Implicit Defensive.
Import Order.Theory GRing.Theory Num.Theory.

(* ------------------------------------------------------------------ *)
(* eqType / choiceType / countType                                     *)
(* ------------------------------------------------------------------ *)

Definition Qc_eqb (a b : Qc) : bool := Qeq_bool (this a) (this b).
Lemma Qc_eqP : Equality.axiom Qc_eqb.
Proof.
move=> a b; rewrite /Qc_eqb; apply: (iffP idP).
  by move/Qeq_bool_iff; apply: Qc_is_canon.
by move=> ->; apply/Qeq_bool_iff; apply: Qeq_refl.
Qed.
Canonical Qc_eqType := EqType Qc (EqMixin Qc_eqP).

Definition Qc_enc (q : Qc) : Z * Z := (Qnum (this q), Zpos (Qden (this q))).
Definition Qc_dec (p : Z * Z) : Qc := Q2Qc (Qmake p.1 (Z.to_pos p.2)).
Lemma Qc_encK : cancel Qc_enc Qc_dec.
Proof.
move=> q; rewrite /Qc_dec /Qc_enc /=. apply: Qc_is_canon.
have -> : (Qnum q # Qden q) = this q by case: (this q).
by rewrite /= (canon q).
Qed.
Canonical Qc_choiceType := ChoiceType Qc (CanChoiceMixin Qc_encK).
Canonical Qc_countType := CountType Qc (CanCountMixin Qc_encK).

(* ------------------------------------------------------------------ *)
(* zmodType ... fieldType                                              *)
(* ------------------------------------------------------------------ *)

Definition Qc_zmodMixin :=
  ZmodMixin Qcplus_assoc Qcplus_comm Qcplus_0_l
            (fun x => etrans (Qcplus_comm _ _) (Qcplus_opp_r x)).
Canonical Qc_zmodType := ZmodType Qc Qc_zmodMixin.
Lemma Qc_1_neq_0 : (1%Qc != 0%Qc). Proof. by []. Qed.
Definition Qc_ringMixin :=
  RingMixin Qcmult_assoc Qcmult_1_l Qcmult_1_r
            Qcmult_plus_distr_l Qcmult_plus_distr_r Qc_1_neq_0.
Canonical Qc_ringType := RingType Qc Qc_ringMixin.
Canonical Qc_comRingType := ComRingType Qc Qcmult_comm.
Lemma Qc_mulVr : forall x : Qc, x != 0%Qc -> (Qcinv x * x)%Qc = 1%Qc.
Proof. move=> x /eqP h; rewrite Qcmult_comm; exact: Qcmult_inv_r. Qed.
Lemma Qc_inv0 : Qcinv 0%Qc = 0%Qc. Proof. by apply: Qc_is_canon. Qed.
Definition Qc_fieldUnitMixin := FieldUnitMixin Qc_mulVr Qc_inv0.
Canonical Qc_unitRingType := UnitRingType Qc Qc_fieldUnitMixin.
Canonical Qc_comUnitRingType := [comUnitRingType of Qc].
Lemma Qc_field_axiom : GRing.Field.mixin_of Qc_unitRingType. Proof. by []. Qed.
Definition Qc_fieldIdomainMixin := FieldIdomainMixin Qc_field_axiom.
Canonical Qc_idomainType := IdomainType Qc Qc_fieldIdomainMixin.
Canonical Qc_fieldType := FieldType Qc Qc_field_axiom.

Canonical Qc_countZmodType := [countZmodType of Qc].
Canonical Qc_countRingType := [countRingType of Qc].
Canonical Qc_countComRingType := [countComRingType of Qc].
Canonical Qc_countUnitRingType := [countUnitRingType of Qc].
Canonical Qc_countComUnitRingType := [countComUnitRingType of Qc].
Canonical Qc_countIdomainType := [countIdomainType of Qc].
Canonical Qc_countFieldType := [countFieldType of Qc].

(* ------------------------------------------------------------------ *)
(* executable order                                                    *)
(* ------------------------------------------------------------------ *)

Definition Qc_leb (a b : Qc) : bool := Qle_bool (this a) (this b).
Definition Qc_ltb (a b : Qc) : bool :=
  Z.ltb (Qnum (this a) * QDen (this b)) (Qnum (this b) * QDen (this a)).

Lemma Qc_lebP (a b : Qc) : reflect (Qcle a b) (Qc_leb a b).
Proof. by apply: (iffP idP) => /Qle_bool_iff. Qed.

Lemma Qc_ltbP (a b : Qc) : reflect (Qclt a b) (Qc_ltb a b).
Proof. by apply: (iffP idP) => /Z.ltb_lt. Qed.

Fact Qc_le0_add (x y : Qc) : Qc_leb 0 x -> Qc_leb 0 y -> Qc_leb 0 (x + y).
Proof.
move=> /Qc_lebP hx /Qc_lebP hy; apply/Qc_lebP.
by have := Qcplus_le_compat _ _ _ _ hx hy; rewrite Qcplus_0_l.
Qed.

Fact Qc_le0_mul (x y : Qc) : Qc_leb 0 x -> Qc_leb 0 y -> Qc_leb 0 (x * y).
Proof.
move=> /Qc_lebP hx /Qc_lebP hy; apply/Qc_lebP.
by have := Qcmult_le_compat_r _ _ _ hx hy; rewrite Qcmult_0_l.
Qed.

Fact Qc_le0_anti (x : Qc) : Qc_leb 0 x -> Qc_leb x 0 -> x = 0.
Proof. by move=> /Qc_lebP h0x /Qc_lebP hx0; apply: Qcle_antisym. Qed.

Fact Qc_sub_ge0 (x y : Qc) : Qc_leb 0 (y - x) = Qc_leb x y.
Proof.
by apply/Qc_lebP/Qc_lebP => h; apply/(Qcle_minus_iff x y); exact: h.
Qed.

Fact Qc_le_total (x y : Qc) : Qc_leb x y || Qc_leb y x.
Proof.
case: (Qclt_le_dec x y) => [/Qclt_le_weak|] /Qc_lebP -> //.
by rewrite orbT.
Qed.

Fact Qc_normN (x : Qc) : Qcabs (- x) = Qcabs x.
Proof. exact: Qcabs_opp. Qed.

Fact Qc_ge0_norm (x : Qc) : Qc_leb 0 x -> Qcabs x = x.
Proof. by move/Qc_lebP; apply: Qcabs_pos. Qed.

Fact Qc_lt_def (x y : Qc) : Qc_ltb x y = (y != x) && Qc_leb x y.
Proof.
apply/Qc_ltbP/andP => [h|[/eqP ne /Qc_lebP h]].
  split; last by apply/Qc_lebP; apply: Qclt_le_weak.
  by apply/eqP => e; exact: (Qclt_not_eq _ _ h (esym e)).
by case: (Qcle_lt_or_eq _ _ h) => // e; case: ne; rewrite e.
Qed.

Definition Qc_realLeMixin : realLeMixin [idomainType of Qc] :=
  RealLeMixin Qc_le0_add Qc_le0_mul Qc_le0_anti Qc_sub_ge0
              (Qc_le_total 0) Qc_normN Qc_ge0_norm Qc_lt_def.

Canonical Qc_porderType := POrderType ring_display Qc Qc_realLeMixin.
Canonical Qc_latticeType := LatticeType Qc Qc_realLeMixin.
Canonical Qc_distrLatticeType := DistrLatticeType Qc Qc_realLeMixin.
Canonical Qc_orderType := OrderType Qc Qc_le_total.
Canonical Qc_numDomainType := NumDomainType Qc Qc_realLeMixin.
Canonical Qc_normedZmodType := NormedZmodType Qc Qc Qc_realLeMixin.
Canonical Qc_numFieldType := [numFieldType of Qc].
Canonical Qc_realDomainType := [realDomainType of Qc].
Canonical Qc_realFieldType := [realFieldType of Qc].

(* ------------------------------------------------------------------ *)
(* unfolding lemmas: MathComp operations vs stdlib                      *)
(* ------------------------------------------------------------------ *)

Lemma Qc_addE (a b : Qc) : (a + b)%R = Qcplus a b. Proof. by []. Qed.
Lemma Qc_oppE (a : Qc) : (- a)%R = Qcopp a. Proof. by []. Qed.
Lemma Qc_subE (a b : Qc) : (a - b)%R = Qcminus a b. Proof. by []. Qed.
Lemma Qc_mulE (a b : Qc) : (a * b)%R = Qcmult a b. Proof. by []. Qed.
Lemma Qc_invE (a : Qc) : (a^-1)%R = Qcinv a. Proof. by []. Qed.
Lemma Qc_divE (a b : Qc) : (a / b)%R = Qcdiv a b. Proof. by []. Qed.
Lemma Qc_0E : (0%R : Qc) = 0%Qc. Proof. by []. Qed.
Lemma Qc_1E : (1%R : Qc) = 1%Qc. Proof. by []. Qed.
Lemma Qc_normE (a : Qc) : `|a|%R = Qcabs a. Proof. by []. Qed.
Lemma Qc_eqE (a b : Qc) : (a == b) = Qeq_bool (this a) (this b).
Proof. by []. Qed.

(* the boolean tests agree with the MathComp order / equality on Qc *)
Lemma Qc_leE (a b : Qc) : (a <= b)%R = Qle_bool (this a) (this b).
Proof. by []. Qed.

Lemma Qc_ltE (a b : Qc) :
  (a < b)%R = (Qle_bool (this a) (this b) && negb (Qeq_bool (this a) (this b))).
Proof. by rewrite lt_neqAle andbC -Qc_leE -Qc_eqE. Qed.

(* directly executable form of < (one Z comparison) *)
Lemma Qc_ltE' (a b : Qc) :
  (a < b)%R = Z.ltb (Qnum (this a) * QDen (this b)) (Qnum (this b) * QDen (this a)).
Proof. by []. Qed.

(* <=%R is stdlib Qcle, <%R is stdlib Qclt *)
Lemma Qc_leP (a b : Qc) : reflect (Qcle a b) (a <= b)%R.
Proof. exact: Qc_lebP. Qed.
Lemma Qc_ltP (a b : Qc) : reflect (Qclt a b) (a < b)%R.
Proof. exact: Qc_ltbP. Qed.

(* ------------------------------------------------------------------ *)
(* executable constructor used by generated case files                  *)
(* ------------------------------------------------------------------ *)

Definition qmk (n : Z) (d : positive) : Qc := Q2Qc (Qmake n d).

Lemma this_Q2Qc (q : Q) : Qeq (this (Q2Qc q)) q.
Proof. exact: Qred_correct. Qed.

Lemma qmkE n d :
  qmk n d = (Q2Qc (inject_Z n) / Q2Qc (inject_Z (Zpos d)))%Qc.
Proof.
apply: Qc_is_canon; rewrite /qmk /Qcdiv /Qcmult /Qcinv.
by rewrite !this_Q2Qc Qmake_Qdiv.
Qed.

(* same statement with the MathComp field operations *)
Lemma qmkE_ring n d :
  qmk n d = (Q2Qc (inject_Z n) / Q2Qc (inject_Z (Zpos d)))%R.
Proof. exact: qmkE. Qed.

Lemma qmk_mul_den n d : (qmk n d * Q2Qc (inject_Z (Zpos d)))%R = Q2Qc (inject_Z n).
Proof.
rewrite qmkE_ring divfK //; apply/eqP => /Q2Qc_eq_iff.
by rewrite /Qeq /=.
Qed.

(* ------------------------------------------------------------------ *)
(* sanity checks                                                        *)
(* ------------------------------------------------------------------ *)

Eval vm_compute in ((1 + 1)^-1 * 3 : Qc)%R.
Eval vm_compute in ((qmk 3 2 <= qmk 7 4)%R, (qmk 3 2 == qmk 6 4), (qmk (-3) 2 < 0)%R, `|qmk (-3) 2|%R).
Print Assumptions Qc_realFieldType.

Section T.
Variable F : realFieldType.
Definition sq (x : F) : F := (x * x)%R.
Definition gen_test (x y : F) : bool * bool * bool :=
  ((sq x <= y + 1)%R, (x / y < `|x - y|)%R, (x * y^-1 * y == x)%R).
End T.

Eval vm_compute in (sq (qmk 3 2 : Qc_realFieldType)).
Eval vm_compute in (sq (qmk 3 2 : [realFieldType of Qc])).

Definition bigA : Qc := qmk (Z.pow 3 150 + 1) (Z.to_pos (Z.pow 2 200 + 1)).
Definition bigB : Qc := qmk (Z.pow 7 80 - 5) (Z.to_pos (Z.pow 5 90 + 2)).
Time Eval vm_compute in (@gen_test [realFieldType of Qc] bigA bigB).
Time Eval vm_compute in ((bigA <= bigB)%R, (bigB <= bigA)%R, (bigA < bigB)%R,
                         (bigA == bigB), (bigA * bigB == bigB * bigA)%R).
Time Eval vm_compute in (Z.log2 (Qnum (this bigA)), Z.log2 (Zpos (Qden (this bigA))),
                         Z.log2 (Qnum (this bigB)), Z.log2 (Zpos (Qden (this bigB)))).
Print Assumptions qmkE.
Print Assumptions Qc_ltE.
Print Assumptions Qc_leE.

(* proofs by computation on the generic order go through *)
Goal (bigB <= bigA)%R /\ (bigB < bigA)%R /\ (bigA != bigB). Proof. by vm_compute. Qed.
