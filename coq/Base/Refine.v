(* Refine.v : the list matrices of SeqMx.v refine MathComp matrices. *)
From mathcomp Require Import all_ssreflect all_algebra.
From VP Require Import Base.SeqMx.
Set Implicit Arguments. Unset Strict Implicit. Unset Printing Implicit Defensive.
Import GRing.Theory.
Local Open Scope ring_scope.

Section Refine.
Variable F : fieldType.
Implicit Types (A B C G X : smx F) (v w c : seq F) (a : F) (n m k s i j : nat).

(* ------------------------------------------------------------ wf, basics *)

Lemma wfP n m A :
  reflect (size A = m /\ forall j, (j < m)%N -> size (nth [::] A j) = n)
          (wf n m A).
Proof.
apply: (iffP andP) => [[/eqP sA /all_nthP hA]|[sA hA]].
  by split=> // j lt_jm; apply/eqP/hA; rewrite sA.
split; first exact/eqP.
by apply/(all_nthP [::]) => j; rewrite sA => /hA ->.
Qed.

Lemma wf_size n m A : wf n m A -> size A = m.
Proof. by case/wfP. Qed.

Lemma wf_size_col n m A j : wf n m A -> (j < m)%N -> size (nth [::] A j) = n.
Proof. by case/wfP => _; apply. Qed.

Lemma wf_all n m A : wf n m A -> all (fun c => size c == n) A.
Proof. by case/andP. Qed.

Lemma wf_cons n m c A : wf n m.+1 (c :: A) = (size c == n) && wf n m A.
Proof. by rewrite /wf /= eqSS andbCA. Qed.

Lemma wf_nil n m : wf n m ([::] : smx F) = (m == 0%N).
Proof. by rewrite /wf /= andbT eq_sym. Qed.

Lemma mx_ofE n m A (i : 'I_n) (j : 'I_m) : mx_of n m A i j = ent A i j.
Proof. by rewrite mxE. Qed.

(* ---------------------------------------------------------------- vectors *)

Lemma size_svadd v w : size (svadd v w) = minn (size v) (size w).
Proof. by rewrite size_map size_zip. Qed.
Lemma size_svsub v w : size (svsub v w) = minn (size v) (size w).
Proof. by rewrite size_map size_zip. Qed.
Lemma size_svmulp v w : size (svmulp v w) = minn (size v) (size w).
Proof. by rewrite size_map size_zip. Qed.
Lemma size_svopp v : size (svopp v) = size v.
Proof. by rewrite size_map. Qed.
Lemma size_svscale a v : size (svscale a v) = size v.
Proof. by rewrite size_map. Qed.

Lemma nth_zipmap (f : F -> F -> F) v w i :
  size v = size w -> f 0 0 = 0 ->
  nth 0 [seq f p.1 p.2 | p <- zip v w] i = f (nth 0 v i) (nth 0 w i).
Proof.
move=> svw f0; case: (ltnP i (size v)) => lt_i.
  by rewrite (nth_map (0, 0)) ?size_zip -?svw ?minnn // nth_zip.
by rewrite !nth_default ?size_map ?size_zip -?svw ?minnn.
Qed.

Lemma nth_svadd v w i :
  size v = size w -> nth 0 (svadd v w) i = nth 0 v i + nth 0 w i.
Proof. by move=> svw; rewrite (@nth_zipmap +%R) // addr0. Qed.

Lemma nth_svsub v w i :
  size v = size w -> nth 0 (svsub v w) i = nth 0 v i - nth 0 w i.
Proof. by move=> svw; rewrite (@nth_zipmap (fun x y => x - y)) // subr0. Qed.

Lemma nth_svmulp v w i :
  size v = size w -> nth 0 (svmulp v w) i = nth 0 v i * nth 0 w i.
Proof. by move=> svw; rewrite (@nth_zipmap *%R) // mulr0. Qed.

Lemma nth_svopp v i : nth 0 (svopp v) i = - nth 0 v i.
Proof.
case: (ltnP i (size v)) => lt_i; first by rewrite (nth_map 0).
by rewrite !nth_default ?size_map // oppr0.
Qed.

Lemma nth_svscale a v i : nth 0 (svscale a v) i = a * nth 0 v i.
Proof.
case: (ltnP i (size v)) => lt_i; first by rewrite (nth_map 0).
by rewrite !nth_default ?size_map // mulr0.
Qed.

Lemma svdot_sum n v w : size v = n -> size w = n ->
  svdot v w = \sum_(i < n) nth 0 v i * nth 0 w i.
Proof.
elim: n v w => [|n IH] [|x v] [|y w] //= => [_ _|[sv] [sw]].
  by rewrite big_ord0.
by rewrite big_ord_recl /= -IH.
Qed.

Lemma svdotE n v w : size v = n -> size w = n ->
  svdot v w = ((cv_of n v)^T *m cv_of n w) 0 0.
Proof.
move=> sv sw; rewrite (svdot_sum sv sw) mxE.
by apply: eq_bigr => i _; rewrite !mxE.
Qed.

Lemma svnrm2_sum n v : size v = n -> svnrm2 v = \sum_(i < n) (nth 0 v i) ^+ 2.
Proof.
by move=> sv; rewrite /svnrm2 (svdot_sum sv sv); apply: eq_bigr => i _.
Qed.

Lemma cv_of_svadd n v w : size v = size w ->
  cv_of n (svadd v w) = cv_of n v + cv_of n w.
Proof. by move=> svw; apply/matrixP => i j; rewrite !mxE nth_svadd. Qed.

Lemma cv_of_svsub n v w : size v = size w ->
  cv_of n (svsub v w) = cv_of n v - cv_of n w.
Proof. by move=> svw; apply/matrixP => i j; rewrite !mxE nth_svsub. Qed.

Lemma cv_of_svopp n v : cv_of n (svopp v) = - cv_of n v.
Proof. by apply/matrixP => i j; rewrite !mxE nth_svopp. Qed.

Lemma cv_of_svscale n a v : cv_of n (svscale a v) = a *: cv_of n v.
Proof. by apply/matrixP => i j; rewrite !mxE nth_svscale. Qed.

Lemma rv_of_tr n v : rv_of n v = (cv_of n v)^T.
Proof. by apply/matrixP => i j; rewrite !mxE. Qed.

Lemma cv_of_inj n v w : size v = n -> size w = n ->
  cv_of n v = cv_of n w -> v = w.
Proof.
move=> sv sw e; apply: (@eq_from_nth _ 0); rewrite sv ?sw // => i lt_in.
by move/matrixP/(_ (Ordinal lt_in) 0): e; rewrite !mxE.
Qed.

(* ------------------------------------------------------ entrywise matrix *)

Section Zip2.
Variables (g : seq F -> seq F -> seq F) (f : F -> F -> F).
Hypothesis size_g : forall v w, size (g v w) = minn (size v) (size w).
Hypothesis nth_g : forall v w i,
  size v = size w -> nth 0 (g v w) i = f (nth 0 v i) (nth 0 w i).

Lemma wf_zip2 n m A B :
  wf n m A -> wf n m B -> wf n m [seq g p.1 p.2 | p <- zip A B].
Proof.
move=> /wfP [sA hA] /wfP [sB hB]; apply/wfP.
rewrite size_map size_zip sA sB minnn; split=> // j lt_jm.
rewrite (nth_map ([::], [::])) ?size_zip ?sA ?sB ?minnn // nth_zip ?sB //=.
by rewrite size_g hA ?hB ?minnn.
Qed.

Lemma ent_zip2 n m A B i j :
  wf n m A -> wf n m B -> (j < m)%N ->
  ent [seq g p.1 p.2 | p <- zip A B] i j = f (ent A i j) (ent B i j).
Proof.
move=> /wfP [sA hA] /wfP [sB hB] lt_jm; rewrite /ent.
rewrite (nth_map ([::], [::])) ?size_zip ?sA ?sB ?minnn // nth_zip ?sB //=.
by rewrite nth_g // hA ?hB.
Qed.
End Zip2.

Lemma wf_sadd n m A B : wf n m A -> wf n m B -> wf n m (sadd A B).
Proof. exact: wf_zip2 size_svadd _ _ _ _. Qed.

Lemma wf_ssub n m A B : wf n m A -> wf n m B -> wf n m (ssub A B).
Proof. exact: wf_zip2 size_svsub _ _ _ _. Qed.

Lemma wf_map1 (g : seq F -> seq F) n m A :
  (forall v, size (g v) = size v) -> wf n m A -> wf n m [seq g c | c <- A].
Proof.
move=> size_g /wfP [sA hA]; apply/wfP; rewrite size_map; split=> // j lt_jm.
by rewrite (nth_map [::]) ?sA // size_g hA.
Qed.

Lemma wf_sopp n m A : wf n m A -> wf n m (sopp A).
Proof. exact: wf_map1 size_svopp. Qed.

Lemma wf_sscale n m a A : wf n m A -> wf n m (sscale a A).
Proof. exact: wf_map1 (size_svscale a). Qed.

Lemma mx_of_sadd n m A B : wf n m A -> wf n m B ->
  mx_of n m (sadd A B) = mx_of n m A + mx_of n m B.
Proof.
move=> hA hB; apply/matrixP => i j; rewrite !mxE.
by rewrite (ent_zip2 (f := +%R) nth_svadd i hA hB).
Qed.

Lemma mx_of_ssub n m A B : wf n m A -> wf n m B ->
  mx_of n m (ssub A B) = mx_of n m A - mx_of n m B.
Proof.
move=> hA hB; apply/matrixP => i j; rewrite !mxE.
by rewrite (ent_zip2 (f := fun x y => x - y) nth_svsub i hA hB).
Qed.

Lemma ent_map1 (g : seq F -> seq F) (f : F -> F) A i j :
  f 0 = 0 -> (forall v i, nth 0 (g v) i = f (nth 0 v i)) ->
  ent [seq g c | c <- A] i j = f (ent A i j).
Proof.
move=> f0 nth_g; rewrite /ent; case: (ltnP j (size A)) => lt_j.
  by rewrite (nth_map [::]).
by rewrite !(nth_default [::]) ?size_map // nth_nil f0.
Qed.

Lemma mx_of_sopp n m A : mx_of n m (sopp A) = - mx_of n m A.
Proof.
apply/matrixP => i j; rewrite !mxE.
by rewrite (ent_map1 (f := -%R)) ?oppr0 //; apply: nth_svopp.
Qed.

Lemma mx_of_sscale n m a A : mx_of n m (sscale a A) = a *: mx_of n m A.
Proof.
apply/matrixP => i j; rewrite !mxE.
by rewrite (ent_map1 (f := *%R a)) ?mulr0 //; apply: nth_svscale.
Qed.

(* ---------------------------------------------------------------- product *)

Lemma size_lincomb n A v :
  all (fun c => size c == n) A -> size (lincomb n A v) = n.
Proof.
elim: A v => [|c A IH] [|x v] //=; rewrite ?size_nseq //.
by case/andP => /eqP sc hA; rewrite size_map size_zip sc IH // minnn.
Qed.

Lemma nth_lincomb n A v i : all (fun c => size c == n) A -> (i < n)%N ->
  nth 0 (lincomb n A v) i = \sum_(k < size A) nth 0 (nth [::] A k) i * nth 0 v k.
Proof.
elim: A v => [|c A IH] v hA lt_in.
  by rewrite big_ord0; case: v => [|? ?] /=; rewrite nth_nseq lt_in.
case: v => [|x v] /=.
  by rewrite nth_nseq lt_in big1 // => k _; rewrite nth_nil mulr0.
case/andP: hA => /eqP sc hA.
rewrite big_ord_recl /= (nth_map (0,0)); last first.
  by rewrite size_zip sc size_lincomb // minnn.
by rewrite nth_zip ?sc ?size_lincomb //= IH // mulrC.
Qed.

Lemma wf_smul n k m A B : wf n k A -> wf k m B -> wf n m (smul n A B).
Proof.
move=> /wf_all hA /wf_size sB; apply/wfP; rewrite size_map; split=> // j lt_jm.
by rewrite (nth_map [::]) ?sB // size_lincomb.
Qed.

Lemma mx_of_smul n k m A B : wf n k A -> wf k m B ->
  mx_of n m (smul n A B) = mx_of n k A *m mx_of k m B.
Proof.
case/andP => /eqP sA hA /andP [/eqP sB hB]; apply/matrixP => i j.
rewrite !mxE /ent /smul (nth_map [::]) ?sB // nth_lincomb // sA.
by apply: eq_bigr => l _; rewrite !mxE.
Qed.

Lemma cv_of_lincomb n m A v : wf n m A ->
  cv_of n (lincomb n A v) = mx_of n m A *m cv_of m v.
Proof.
case/andP => /eqP sA hA; apply/matrixP => i j; rewrite !mxE nth_lincomb // sA.
by apply: eq_bigr => l _; rewrite !mxE.
Qed.

(* -------------------------------------------------------------- transpose *)

Lemma size_strans n A : size (strans n A) = n.
Proof. by elim: n A => //= n IH A; rewrite IH. Qed.

Lemma nth_strans n A i : (i < n)%N ->
  nth [::] (strans n A) i = [seq nth 0 c i | c <- A].
Proof.
elim: n A i => // n IH A [_|i] /=.
  by apply: eq_map => c; rewrite nth0.
rewrite ltnS => /IH ->; rewrite -map_comp; apply: eq_map => c /=.
by rewrite nth_behead.
Qed.

Lemma ent_strans n A i j : (i < n)%N -> (j < size A)%N ->
  ent (strans n A) j i = ent A i j.
Proof. by move=> lt_in lt_j; rewrite /ent nth_strans // (nth_map [::]). Qed.

Lemma wf_strans n m A : wf n m A -> wf m n (strans n A).
Proof.
move=> /wf_size sA; apply/wfP; rewrite size_strans; split=> // i lt_in.
by rewrite nth_strans // size_map.
Qed.

Lemma mx_of_strans n m A : wf n m A ->
  mx_of m n (strans n A) = (mx_of n m A)^T.
Proof.
by move=> /wf_size sA; apply/matrixP => j i; rewrite !mxE ent_strans ?sA.
Qed.

(* --------------------------------------------------------------- rowscale *)

Lemma wf_srowscale n m w A : size w = n -> wf n m A -> wf n m (srowscale w A).
Proof.
move=> sw /wfP [sA hA]; apply/wfP; rewrite size_map; split=> // j lt_jm.
by rewrite (nth_map [::]) ?sA // size_svmulp sw hA // minnn.
Qed.

Lemma mx_of_srowscale n m w A : size w = n -> wf n m A ->
  mx_of n m (srowscale w A) = diag_mx (rv_of n w) *m mx_of n m A.
Proof.
move=> sw /wfP [sA hA]; rewrite mul_diag_mx; apply/matrixP => i j.
by rewrite !mxE /ent (nth_map [::]) ?sA // nth_svmulp // sw hA.
Qed.

(* ------------------------------------------------------------ col, ident *)

Lemma mx_of_scol n m A : wf n m A ->
  forall j : 'I_m, cv_of n (scol A j) = col j (mx_of n m A).
Proof. by move=> _ j; apply/matrixP => i l; rewrite !mxE. Qed.

Lemma ent_sident n i j : (i < n)%N -> (j < n)%N ->
  ent (sident F n) i j = (i == j)%:R.
Proof.
move=> lt_in lt_jn; rewrite /ent /sident.
rewrite (nth_map 0%N) ?size_iota // (nth_map 0%N) ?size_iota //.
by rewrite !nth_iota // !add0n; case: eqP.
Qed.

Lemma wf_sident n : wf n n (sident F n).
Proof.
apply/wfP; rewrite size_map size_iota; split=> // j lt_jn.
by rewrite (nth_map 0%N) ?size_iota // size_map size_iota.
Qed.

Lemma mx_of_sident n : mx_of n n (sident F n) = 1%:M.
Proof. by apply/matrixP => i j; rewrite !mxE ent_sident // mulr1n. Qed.

Lemma wf_szero n m : wf n m (szero F n m).
Proof.
apply/wfP; rewrite size_nseq; split=> // j lt_jm.
by rewrite nth_nseq lt_jm size_nseq.
Qed.

Lemma mx_of_szero n m : mx_of n m (szero F n m) = 0.
Proof.
apply/matrixP => i j; rewrite !mxE /ent /szero nth_nseq ltn_ord.
by rewrite nth_nseq ltn_ord.
Qed.

(* ---------------------------------------------------------- concatenation *)

Lemma wf_cat n m k A B : wf n m A -> wf n k B -> wf n (m + k) (A ++ B).
Proof.
case/andP => /eqP sA hA /andP [/eqP sB hB].
by rewrite /wf size_cat sA sB eqxx all_cat hA.
Qed.

Lemma mx_of_cat n m k A B : wf n m A -> wf n k B ->
  mx_of n (m + k) (A ++ B) = row_mx (mx_of n m A) (mx_of n k B).
Proof.
move=> /wf_size sA _; apply/matrixP => i j; rewrite !mxE /ent nth_cat sA.
by case: splitP => l ->; rewrite mxE /ent ?addKn.
Qed.

(* ------------------------------------------------------------ injectivity *)

Lemma mx_of_inj n m A B : wf n m A -> wf n m B ->
  mx_of n m A = mx_of n m B -> A = B.
Proof.
move=> /wfP [sA hA] /wfP [sB hB] e.
apply: (@eq_from_nth _ [::]); rewrite sA ?sB // => j lt_jm.
apply: (@eq_from_nth _ 0); rewrite hA ?hB // => i lt_in.
by move/matrixP/(_ (Ordinal lt_in) (Ordinal lt_jm)): e; rewrite !mxE.
Qed.

(* ------------------------------------------------------------------- gram *)

Lemma wf_sgram n m A : wf n m A -> wf m m (sgram n A).
Proof.
move=> hA; rewrite /sgram (wf_size hA).
exact: wf_smul (wf_strans hA) hA.
Qed.

Lemma mx_of_sgram n m A : wf n m A ->
  mx_of m m (sgram n A) = (mx_of n m A)^T *m mx_of n m A.
Proof.
move=> hA; rewrite /sgram (wf_size hA).
by rewrite (mx_of_smul (wf_strans hA) hA) mx_of_strans.
Qed.

(* -------------------------------------------------------------- Frobenius *)

Lemma sfro2_sum A : sfro2 A = \sum_(j < size A) svnrm2 (nth [::] A j).
Proof.
elim: A => [|c A IH] /=; first by rewrite big_ord0.
by rewrite big_ord_recl /= -IH.
Qed.

Lemma sfro2E n m A : wf n m A ->
  sfro2 A = \sum_i \sum_j (mx_of n m A i j) ^+ 2.
Proof.
move=> /wfP [sA hA]; rewrite exchange_big /= sfro2_sum sA.
apply: eq_bigr => j _; rewrite (@svnrm2_sum n) ?hA //.
by apply: eq_bigr => i _; rewrite mxE.
Qed.

(* -------------------------------------------------------------- diagonal *)

Lemma size_sdiagv A : size (sdiagv A) = size A.
Proof.
by rewrite /sdiagv; elim: A 0%N => //= c A IH i; rewrite IH.
Qed.

Lemma nth_sdiagv_rec k A i : (i < size A)%N ->
  nth 0 (sdiagv_rec k A) i = ent A (k + i) i.
Proof.
elim: A k i => //= c A IH k [_|i]; first by rewrite /ent addn0.
by rewrite ltnS => /(IH k.+1) /= ->; rewrite /ent /= addSnnS.
Qed.

Lemma nth_sdiagv A i : (i < size A)%N -> nth 0 (sdiagv A) i = ent A i i.
Proof. exact: nth_sdiagv_rec. Qed.

Lemma rv_of_sdiagv n A : wf n n A ->
  rv_of n (sdiagv A) = \row_i mx_of n n A i i.
Proof.
move=> /wf_size sA; apply/matrixP => i j.
by rewrite !mxE nth_sdiagv ?sA.
Qed.

(* ---------------------------------------------------------------- flatten *)

Lemma size_flatten_wf n m A : wf n m A -> size (flatten A) = (m * n)%N.
Proof.
elim: A m => [|c A IH] [|m] //; rewrite ?wf_nil ?wf_cons //=.
by case/andP => /eqP sc /IH e; rewrite size_cat sc e mulSn.
Qed.

Lemma nth_flatten_cm n m A : wf n m A ->
  forall i j, (i < n)%N -> (j < m)%N ->
  nth 0 (flatten A) (j * n + i) = ent A i j.
Proof.
elim: A m => [|c A IH] [|m] //; rewrite ?wf_cons //.
case/andP => /eqP sc hA i [|j] lt_in /=.
  by rewrite mul0n add0n nth_cat sc lt_in.
rewrite ltnS => lt_jm; rewrite nth_cat sc mulSn -addnA.
by rewrite ltnNge leq_addr /= addKn (IH m).
Qed.

Lemma sflattenE A : sflatten A = flatten A.
Proof. by []. Qed.

Lemma smx_eqbP A B : reflect (A = B) (smx_eqb A B).
Proof. exact: eqP. Qed.

(* ------------------------------------------------- certificate soundness *)

Lemma inv_cert_sound n G X : wf n n G -> inv_cert n G = Some X ->
  [/\ wf n n X, mx_of n n G \in unitmx & mx_of n n X = invmx (mx_of n n G)].
Proof.
move=> hG; rewrite /inv_cert; case: (sinv n G) => // Y.
case: ifP => // /andP [hY /eqP e] [<-].
have GY : mx_of n n G *m mx_of n n Y = 1%:M.
  by rewrite -(mx_of_smul hG hY) e mx_of_sident.
have [uG _] := mulmx1_unit GY.
split=> //.
by rewrite -[LHS](mulKmx uG) GY mulmx1.
Qed.

Lemma inv_cert_mulV n G X : wf n n G -> inv_cert n G = Some X ->
  mx_of n n G *m mx_of n n X = 1%:M /\ mx_of n n X *m mx_of n n G = 1%:M.
Proof.
move=> hG /(inv_cert_sound hG) [_ uG ->].
by rewrite mulmxV // mulVmx.
Qed.

Lemma slsq_sound n m s A B C : wf n m A -> wf n s B ->
  slsq n m A B = Some C ->
  [/\ wf m s C, (mx_of n m A)^T *m mx_of n m A \in unitmx
    & (mx_of n m A)^T *m (mx_of n s B - mx_of n m A *m mx_of m s C) = 0].
Proof.
move=> hA hB; rewrite /slsq.
case e: (inv_cert m (sgram n A)) => [X|] // [<-].
have [hX] := inv_cert_sound (wf_sgram hA) e.
rewrite (mx_of_sgram hA) => uG eX.
have hAt := wf_strans hA.
have hAtB : wf m s (smul m (strans n A) B) := wf_smul hAt hB.
split=> //; first exact: wf_smul hX hAtB.
rewrite (mx_of_smul hX hAtB) (mx_of_smul hAt hB) mx_of_strans // eX.
by rewrite mulmxBr (mulmxA _ (mx_of n m A)) mulKVmx // subrr.
Qed.

(* The least-squares solution as a closed formula. *)
Lemma slsq_eq n m s A B C : wf n m A -> wf n s B ->
  slsq n m A B = Some C ->
  mx_of m s C =
    invmx ((mx_of n m A)^T *m mx_of n m A) *m ((mx_of n m A)^T *m mx_of n s B).
Proof.
move=> hA hB; rewrite /slsq.
case e: (inv_cert m (sgram n A)) => [X|] // [<-].
have [hX] := inv_cert_sound (wf_sgram hA) e.
rewrite (mx_of_sgram hA) => uG eX.
have hAt := wf_strans hA.
rewrite (mx_of_smul hX (wf_smul hAt hB)) (mx_of_smul hAt hB).
by rewrite mx_of_strans // eX.
Qed.

End Refine.

Print Assumptions inv_cert_sound.
Print Assumptions slsq_sound.
