From mathcomp Require Import all_ssreflect all_algebra.
Set Implicit Arguments. Unset Strict Implicit. Unset Printing Implicit Defensive.
Import Order.TTheory GRing.Theory Num.Theory.
Local Open Scope ring_scope.

(* ------------------------------------------------------------------ *)
(* Part 0 : dot product, squared norm                                  *)
(* ------------------------------------------------------------------ *)
Section Dot.
Variable F : realFieldType.

Definition dotp n (x y : 'cV[F]_n) : F := (x^T *m y) 0 0.
Definition nrm2 n (x : 'cV[F]_n) : F := dotp x x.
Definition fro2 n m (A : 'M[F]_(n,m)) : F := \sum_i \sum_j (A i j)^+2.

Lemma dotpE n (x y : 'cV[F]_n) : dotp x y = \sum_i x i 0 * y i 0.
Proof. by rewrite /dotp mxE; apply: eq_bigr => i _; rewrite mxE. Qed.

Lemma dotpDr n (x y z : 'cV[F]_n) : dotp x (y + z) = dotp x y + dotp x z.
Proof. by rewrite /dotp mulmxDr mxE. Qed.
Lemma dotpDl n (x y z : 'cV[F]_n) : dotp (x + y) z = dotp x z + dotp y z.
Proof. by rewrite /dotp linearD /= mulmxDl mxE. Qed.
Lemma dotpC n (x y : 'cV[F]_n) : dotp x y = dotp y x.
Proof. by rewrite /dotp -[y^T *m x]trmxK trmx_mul trmxK [RHS]mxE. Qed.
Lemma dotpZr n a (x y : 'cV[F]_n) : dotp x (a *: y) = a * dotp x y.
Proof. by rewrite /dotp -scalemxAr mxE. Qed.
Lemma dotpZl n a (x y : 'cV[F]_n) : dotp (a *: x) y = a * dotp x y.
Proof. by rewrite dotpC dotpZr dotpC. Qed.
Lemma dotpNr n (x y : 'cV[F]_n) : dotp x (- y) = - dotp x y.
Proof. by rewrite /dotp mulmxN mxE. Qed.
Lemma dotpNl n (x y : 'cV[F]_n) : dotp (- x) y = - dotp x y.
Proof. by rewrite dotpC dotpNr dotpC. Qed.
Lemma dotp0r n (x : 'cV[F]_n) : dotp x 0 = 0.
Proof. by rewrite /dotp mulmx0 mxE. Qed.
Lemma dotp0l n (x : 'cV[F]_n) : dotp 0 x = 0.
Proof. by rewrite dotpC dotp0r. Qed.
Lemma dotpBr n (x y z : 'cV[F]_n) : dotp x (y - z) = dotp x y - dotp x z.
Proof. by rewrite dotpDr dotpNr. Qed.
Lemma dotpBl n (x y z : 'cV[F]_n) : dotp (x - y) z = dotp x z - dotp y z.
Proof. by rewrite dotpDl dotpNl. Qed.

(* adjoint *)
Lemma dotp_mulmxr n m (A : 'M[F]_(n,m)) (x : 'cV[F]_n) (y : 'cV[F]_m) :
  dotp x (A *m y) = dotp (A^T *m x) y.
Proof. by rewrite /dotp trmx_mul trmxK mulmxA. Qed.
Lemma dotp_mulmxl n m (A : 'M[F]_(n,m)) (x : 'cV[F]_m) (y : 'cV[F]_n) :
  dotp (A *m x) y = dotp x (A^T *m y).
Proof. by rewrite dotp_mulmxr trmxK. Qed.

Lemma dotp_ge0 n (x : 'cV[F]_n) : 0 <= dotp x x.
Proof. rewrite /dotp mxE; apply: sumr_ge0 => i _; rewrite mxE -expr2; exact: sqr_ge0. Qed.

Lemma nrm2_ge0 n (x : 'cV[F]_n) : 0 <= nrm2 x.
Proof. exact: dotp_ge0. Qed.

Lemma nrm2E n (x : 'cV[F]_n) : nrm2 x = \sum_i (x i 0)^+2.
Proof. by rewrite /nrm2 dotpE; apply: eq_bigr => i _; rewrite expr2. Qed.

Lemma nrm2_fro2 n (x : 'cV[F]_n) : nrm2 x = fro2 x.
Proof.
rewrite nrm2E /fro2; apply: eq_bigr => i _.
by rewrite big_ord_recl big_ord0 addr0.
Qed.

Lemma nrm2_eq0 n (x : 'cV[F]_n) : nrm2 x = 0 -> x = 0.
Proof.
rewrite nrm2E => /eqP; rewrite psumr_eq0; last by move=> i _; exact: sqr_ge0.
move=> /allP h; apply/colP => i; rewrite mxE.
have := h i; rewrite mem_index_enum /= => /(_ isT).
by rewrite sqrf_eq0 => /eqP.
Qed.

Lemma nrm20 n : nrm2 (0 : 'cV[F]_n) = 0.
Proof. by rewrite /nrm2 dotp0r. Qed.

Lemma nrm2N n (x : 'cV[F]_n) : nrm2 (- x) = nrm2 x.
Proof. by rewrite /nrm2 dotpNl dotpNr opprK. Qed.

Lemma pyth n (x y : 'cV[F]_n) : dotp y x = 0 -> nrm2 (x + y) = nrm2 x + nrm2 y.
Proof. by move=> o; rewrite /nrm2 dotpDl !dotpDr (dotpC x y) o addr0 add0r. Qed.

(* general expansion *)
Lemma nrm2D n (x y : 'cV[F]_n) : nrm2 (x + y) = nrm2 x + dotp x y *+ 2 + nrm2 y.
Proof. by rewrite /nrm2 dotpDl !dotpDr (dotpC y x) mulr2n !addrA. Qed.

Lemma col_mul n m p (A : 'M[F]_(n,m)) (C : 'M[F]_(m,p)) s :
  col s (A *m C) = A *m col s C.
Proof. by rewrite !colE mulmxA. Qed.

Lemma colB n m (A B : 'M[F]_(n,m)) s : col s (A - B) = col s A - col s B.
Proof. by rewrite !colE mulmxBl. Qed.

Lemma colD n m (A B : 'M[F]_(n,m)) s : col s (A + B) = col s A + col s B.
Proof. by rewrite !colE mulmxDl. Qed.

Lemma col0 n m s : col s (0 : 'M[F]_(n,m)) = 0.
Proof. by rewrite colE mul0mx. Qed.

(* (M^T M) i j as a dot product of columns *)
Lemma gram_entry n m (A : 'M[F]_(n,m)) i j :
  (A^T *m A) i j = dotp (col i A) (col j A).
Proof. by rewrite dotpE mxE; apply: eq_bigr => k _; rewrite !mxE. Qed.

(* Cauchy-Schwarz *)
Lemma dotp_cs n (x y : 'cV[F]_n) : (dotp x y)^+2 <= nrm2 x * nrm2 y.
Proof.
set d := dotp x y; set X := nrm2 x; set Y := nrm2 y.
have Y0 : 0 <= Y := nrm2_ge0 y.
move: Y0; rewrite le0r => /orP [/eqP Yz | Ypos].
  have y0 : y = 0 by apply: nrm2_eq0.
  by rewrite /d y0 dotp0r expr0n /= Yz mulr0.
have h : 0 <= nrm2 (Y *: x - d *: y) := nrm2_ge0 _.
have e : nrm2 (Y *: x - d *: y) = Y * (X * Y - d ^+ 2).
  rewrite /nrm2 dotpBl !dotpBr !dotpZl !dotpZr -/d (dotpC y x) -/d.
  rewrite -/(nrm2 x) -/(nrm2 y) -/X -/Y.
  rewrite mulrBr opprB addrA.
  have -> : Y * (d * d) = d * (Y * d) by rewrite mulrCA.
  by rewrite [d * Y]mulrC subrK [Y * X]mulrC.
by move: h; rewrite e pmulr_rge0 // subr_ge0.
Qed.

End Dot.

(* ------------------------------------------------------------------ *)
(* Part 1 : least squares                                              *)
(* ------------------------------------------------------------------ *)
Lemma sub_sub_cancel (V : zmodType) (b x y : V) : (b - y) - (b - x) = x - y.
Proof. by rewrite opprB addrC addrA subrK. Qed.

Section LS.
Variable F : realFieldType.
Variables (N M : nat) (A : 'M[F]_(N,M)).

Theorem ls_opt (b : 'cV[F]_N) (c : 'cV[F]_M) :
  A^T *m (b - A *m c) = 0 ->
  forall c', nrm2 (b - A *m c) <= nrm2 (b - A *m c').
Proof.
move=> normal c'.
have -> : b - A *m c' = (b - A *m c) + A *m (c - c') by rewrite mulmxBr addrA subrK.
have o : dotp (A *m (c - c')) (b - A *m c) = 0.
  by rewrite dotp_mulmxl normal dotp0r.
by rewrite (pyth o) ler_addl; exact: nrm2_ge0.
Qed.

(* scalar lemma: a nonnegative quadratic without constant term *)
Lemma quad_lin0 (G H : F) : 0 <= G -> 0 <= H ->
  (forall t, 0 <= - (t * G) *+ 2 + t * t * H) -> G = 0.
Proof.
move=> G0 H0 q.
move: H0; rewrite le0r => /orP [/eqP Hz | Hpos].
  have := q 1; rewrite Hz mulr0 addr0 mul1r mulNrn oppr_ge0 => G0'.
  apply/eqP; rewrite eq_le G0 andbT.
  by move: G0'; rewrite -mulr_natr pmulr_lle0 // ltr0n.
have Hne : H != 0 by rewrite Order.POrderTheory.gt_eqF.
have := q (G / H).
have -> : G / H * (G / H) * H = G / H * G by rewrite -mulrA mulfVK.
rewrite mulr2n -addrA addNr addr0 oppr_ge0 => h.
have : G * G <= 0.
  have -> : G * G = (G / H * G) * H by rewrite mulrAC mulfVK // mulrC.
  by rewrite mulr_le0_ge0 // ltW.
rewrite -expr2 => h2; apply/eqP; rewrite -sqrf_eq0 eq_le h2 /=; exact: sqr_ge0.
Qed.

Lemma nrm2_line n (r d : 'cV[F]_n) t :
  nrm2 (r - t *: d) = nrm2 r + (- (t * dotp r d) *+ 2 + t * t * nrm2 d).
Proof.
rewrite nrm2D nrm2N dotpNr dotpZr -addrA; congr (_ + (_ + _)).
by rewrite /nrm2 dotpZl dotpZr mulrA.
Qed.

Theorem ls_opt_conv (b : 'cV[F]_N) (c : 'cV[F]_M) :
  (forall c', nrm2 (b - A *m c) <= nrm2 (b - A *m c')) ->
  A^T *m (b - A *m c) = 0.
Proof.
move=> opt; set r := b - A *m c; set g := A^T *m r.
apply: nrm2_eq0; apply: (@quad_lin0 (nrm2 g) (nrm2 (A *m g))); try exact: nrm2_ge0.
move=> t.
have := opt (c + t *: g).
have -> : b - A *m (c + t *: g) = r - t *: (A *m g).
  by rewrite mulmxDr opprD addrA -scalemxAr.
by rewrite nrm2_line dotp_mulmxr -/g -/(nrm2 g) ler_addl.
Qed.

Theorem ls_unique (b : 'cV[F]_N) (c c' : 'cV[F]_M) :
  A^T *m A \in unitmx ->
  A^T *m (b - A *m c) = 0 -> A^T *m (b - A *m c') = 0 -> c = c'.
Proof.
move=> Gu n1 n2.
have e : A^T *m A *m (c - c') = 0.
  rewrite -mulmxA mulmxBr.
  have -> : A *m c - A *m c' = (b - A *m c') - (b - A *m c).
    by rewrite sub_sub_cancel.
  by rewrite mulmxBr n1 n2 subrr.
apply/eqP; rewrite -subr_eq0; apply/eqP.
by rewrite -[c - c'](mulKmx Gu) e mulmx0.
Qed.

(* difference of two solutions of the normal equations is in ker A *)
Lemma normal_diff_ker (b : 'cV[F]_N) (c c' : 'cV[F]_M) :
  A^T *m (b - A *m c) = 0 -> A^T *m (b - A *m c') = 0 ->
  A *m (c' - c) = 0.
Proof.
move=> n1 n2; apply: nrm2_eq0.
rewrite /nrm2 dotp_mulmxr.
have -> : A *m (c' - c) = (b - A *m c) - (b - A *m c').
  by rewrite mulmxBr sub_sub_cancel.
by rewrite mulmxBr n1 n2 subrr dotp0l.
Qed.

Lemma ls_min_norm_pyth (b : 'cV[F]_N) (c c' : 'cV[F]_M) :
  A^T *m (b - A *m c) = 0 -> A^T *m (b - A *m c') = 0 ->
  (exists z, c = A^T *m z) ->
  nrm2 c' = nrm2 c + nrm2 (c' - c).
Proof.
move=> n1 n2 [z cz].
have k := normal_diff_ker n1 n2.
have o : dotp (c' - c) c = 0.
  by rewrite {2}cz dotp_mulmxr trmxK k dotp0l.
by rewrite -(pyth o) addrC subrK.
Qed.

Theorem ls_min_norm (b : 'cV[F]_N) (c c' : 'cV[F]_M) :
  A^T *m (b - A *m c) = 0 -> A^T *m (b - A *m c') = 0 ->
  (exists z, c = A^T *m z) -> nrm2 c <= nrm2 c'.
Proof.
move=> n1 n2 cz; rewrite (ls_min_norm_pyth n1 n2 cz) ler_addl; exact: nrm2_ge0.
Qed.

Theorem ls_min_norm_unique (b : 'cV[F]_N) (c c' : 'cV[F]_M) :
  A^T *m (b - A *m c) = 0 -> A^T *m (b - A *m c') = 0 ->
  (exists z, c = A^T *m z) -> nrm2 c' <= nrm2 c -> c' = c.
Proof.
move=> n1 n2 cz; rewrite (ls_min_norm_pyth n1 n2 cz).
rewrite -{2}[nrm2 c]addr0 ler_add2l => le0.
apply/eqP; rewrite -subr_eq0; apply/eqP; apply: nrm2_eq0.
by apply/eqP; rewrite eq_le le0 nrm2_ge0.
Qed.

Theorem ls_opt_cols S (B : 'M[F]_(N,S)) (C : 'M[F]_(M,S)) :
  A^T *m (B - A *m C) = 0 ->
  forall s c', nrm2 (col s B - A *m col s C) <= nrm2 (col s B - A *m c').
Proof.
move=> normal s c'; apply: ls_opt.
by rewrite -col_mul -colB -col_mul normal col0.
Qed.

End LS.

(* ------------------------------------------------------------------ *)
(* Part 2 : truncated-SVD solve                                        *)
(* ------------------------------------------------------------------ *)
Section SVD.
Variable F : realFieldType.
Variables (N K M : nat).
Variables (U : 'M[F]_(N,K)) (sg : 'rV[F]_K) (Vt : 'M[F]_(K,M)) (eps : F).
Hypothesis UtU : U^T *m U = 1%:M.
Hypothesis VtV : Vt *m Vt^T = 1%:M.
Hypothesis eps_ge0 : 0 <= eps.

Definition keep : 'rV[F]_K := \row_i (if eps < sg 0 i then 1 else 0).
Definition sgk : 'rV[F]_K := \row_i (if eps < sg 0 i then sg 0 i else 0).
Definition sginv : 'rV[F]_K := \row_i (if eps < sg 0 i then (sg 0 i)^-1 else 0).
Definition Aeps : 'M[F]_(N,M) := U *m diag_mx sgk *m Vt.
Definition solve S (B : 'M[F]_(N,S)) : 'M[F]_(M,S) :=
  Vt^T *m (diag_mx sginv *m (U^T *m B)).

Lemma sg_kept_neq0 i : eps < sg 0 i -> sg 0 i != 0.
Proof. by move=> h; rewrite gt_eqF // (le_lt_trans eps_ge0). Qed.

Lemma sgk_inv : diag_mx sgk *m diag_mx sginv = diag_mx keep.
Proof.
rewrite mulmx_diag; congr diag_mx; apply/rowP => i; rewrite !mxE.
case: ifP => h; last by rewrite mulr0.
by rewrite mulfV // sg_kept_neq0.
Qed.

Lemma sgk_keep : diag_mx sgk *m diag_mx keep = diag_mx sgk.
Proof.
rewrite mulmx_diag; congr diag_mx; apply/rowP => i; rewrite !mxE.
by case: ifP => h; rewrite ?mulr1 ?mulr0.
Qed.

Lemma sgk_sginv2 :
  diag_mx sgk *m diag_mx (\row_i sginv 0 i ^+ 2) = diag_mx sginv.
Proof.
rewrite mulmx_diag; congr diag_mx; apply/rowP => i; rewrite !mxE.
case: ifP => h; last by rewrite mul0r.
by rewrite expr2 mulrA mulfV ?mul1r // sg_kept_neq0.
Qed.

Lemma Aeps_solve S (B : 'M[F]_(N,S)) :
  Aeps *m solve B = U *m diag_mx keep *m U^T *m B.
Proof.
by rewrite /Aeps /solve !mulmxA -(mulmxA _ Vt) VtV mulmx1 -(mulmxA U) sgk_inv.
Qed.

Lemma Aeps_tr : Aeps^T = Vt^T *m (diag_mx sgk *m U^T).
Proof. by rewrite /Aeps !trmx_mul tr_diag_mx mulmxA. Qed.

Theorem normal_eq S (B : 'M[F]_(N,S)) : Aeps^T *m (B - Aeps *m solve B) = 0.
Proof.
rewrite mulmxBr Aeps_solve Aeps_tr.
have -> : Vt^T *m (diag_mx sgk *m U^T) *m (U *m diag_mx keep *m U^T *m B)
        = Vt^T *m (diag_mx sgk *m ((U^T *m U) *m diag_mx keep) *m U^T *m B)
  by rewrite !mulmxA.
by rewrite UtU mul1mx sgk_keep !mulmxA subrr.
Qed.

Theorem solve_rowspace S (B : 'M[F]_(N,S)) :
  solve B = Aeps^T *m (U *m (diag_mx (\row_i sginv 0 i ^+ 2)) *m U^T *m B).
Proof.
rewrite Aeps_tr /solve.
have -> : Vt^T *m (diag_mx sgk *m U^T) *m
            (U *m diag_mx (\row_i sginv 0 i ^+ 2) *m U^T *m B)
        = Vt^T *m ((diag_mx sgk *m ((U^T *m U) *m diag_mx (\row_i sginv 0 i ^+ 2)))
                   *m (U^T *m B))
  by rewrite !mulmxA.
by rewrite UtU mul1mx sgk_sginv2.
Qed.

Corollary solve_in_rowspace S (B : 'M[F]_(N,S)) :
  exists Z, solve B = Aeps^T *m Z.
Proof. by eexists; exact: solve_rowspace. Qed.

Theorem solve_opt S (B : 'M[F]_(N,S)) s c' :
  nrm2 (col s B - Aeps *m col s (solve B)) <= nrm2 (col s B - Aeps *m c').
Proof. by apply: ls_opt_cols; exact: normal_eq. Qed.

Lemma normal_eq_col S (B : 'M[F]_(N,S)) s :
  Aeps^T *m (col s B - Aeps *m col s (solve B)) = 0.
Proof. by rewrite -col_mul -colB -col_mul normal_eq col0. Qed.

Theorem solve_min_norm S (B : 'M[F]_(N,S)) s c' :
  Aeps^T *m (col s B - Aeps *m c') = 0 ->
  nrm2 (col s (solve B)) <= nrm2 c'.
Proof.
move=> n2; apply: (ls_min_norm (normal_eq_col B s) n2).
by eexists; rewrite {1}solve_rowspace col_mul.
Qed.

Theorem solve_min_norm_unique S (B : 'M[F]_(N,S)) s c' :
  Aeps^T *m (col s B - Aeps *m c') = 0 ->
  nrm2 c' <= nrm2 (col s (solve B)) -> c' = col s (solve B).
Proof.
move=> n2; apply: (ls_min_norm_unique (normal_eq_col B s) n2).
by eexists; rewrite {1}solve_rowspace col_mul.
Qed.

Theorem Aeps_clean :
  (forall i, (eps < sg 0 i) || (sg 0 i == 0)) -> Aeps = U *m diag_mx sg *m Vt.
Proof.
move=> h; rewrite /Aeps; congr (_ *m diag_mx _ *m _).
apply/rowP => i; rewrite mxE.
by case: ifP (h i) => //= _ /eqP ->.
Qed.

Theorem solve_linear S a b (B1 B2 : 'M[F]_(N,S)) :
  solve (a *: B1 + b *: B2) = a *: solve B1 + b *: solve B2.
Proof. by rewrite /solve !mulmxDr -!scalemxAr. Qed.

Theorem solve_col S s (B : 'M[F]_(N,S)) : col s (solve B) = solve (col s B).
Proof. by rewrite /solve !col_mul. Qed.

End SVD.

(* ------------------------------------------------------------------ *)
(* Part 3 : orthogonal projector, Kaufman column                       *)
(* ------------------------------------------------------------------ *)
Section Proj.
Variable F : realFieldType.

Definition is_proj_onto N M (A : 'M[F]_(N,M)) (P : 'M[F]_N) :=
  [/\ P^T = P, P *m A = A & exists X, P = A *m X].

Section ProjBasic.
Variables (N M : nat) (A : 'M[F]_(N,M)).

Lemma proj_absorb (P1 P2 : 'M[F]_N) :
  is_proj_onto A P1 -> is_proj_onto A P2 -> P2 *m P1 = P1.
Proof.
move=> [_ _ [X1 e1]] [_ a2 _].
by rewrite {1}e1 mulmxA a2 -e1.
Qed.

Theorem proj_unique (P1 P2 : 'M[F]_N) :
  is_proj_onto A P1 -> is_proj_onto A P2 -> P1 = P2.
Proof.
move=> h1 h2.
have e21 := proj_absorb h1 h2.
have e12 := proj_absorb h2 h1.
case: h1 => s1 _ _; case: h2 => s2 _ _.
by rewrite -e21 -[P2 *m P1]trmxK trmx_mul s1 s2 e12.
Qed.

Theorem proj_idem (P : 'M[F]_N) : is_proj_onto A P -> P *m P = P.
Proof. by move=> h; exact: (proj_absorb h h). Qed.

Theorem proj_gram :
  A^T *m A \in unitmx -> is_proj_onto A (A *m invmx (A^T *m A) *m A^T).
Proof.
move=> Gu; split.
- rewrite !trmx_mul trmxK trmx_inv trmx_mul trmxK mulmxA; by [].
- by rewrite -!mulmxA mulVmx // mulmx1.
- by exists (invmx (A^T *m A) *m A^T); rewrite mulmxA.
Qed.

(* Kaufman column *)
Lemma proj_trl (P : 'M[F]_N) : is_proj_onto A P -> A^T *m P = A^T.
Proof. by move=> [s a _]; rewrite -{1}s -trmx_mul a. Qed.

Theorem kaufman_orth S (P : 'M[F]_N) (v : 'M[F]_(N,S)) :
  is_proj_onto A P -> A^T *m (P *m v - v) = 0.
Proof. by move=> h; rewrite mulmxBr mulmxA (proj_trl h) subrr. Qed.

Theorem kaufman_form S (P : 'M[F]_N) (v : 'M[F]_(N,S)) :
  P *m v - v = - ((1%:M - P) *m v).
Proof. by rewrite mulmxBl mul1mx opprB. Qed.

Theorem kaufman_orth_svd K S (U : 'M[F]_(N,K)) (X : 'M[F]_(K,M)) (v : 'M[F]_(N,S)) :
  U^T *m U = 1%:M -> A = U *m X ->
  A^T *m (U *m (U^T *m v) - v) = 0.
Proof.
move=> UtU ->.
by rewrite trmx_mul mulmxBr -!mulmxA (mulmxA U^T U) UtU mul1mx subrr.
Qed.

(* residual orthogonal to range(A) is killed by the projector *)
Lemma proj_kills S (P : 'M[F]_N) (R : 'M[F]_(N,S)) :
  is_proj_onto A P -> A^T *m R = 0 -> P *m R = 0.
Proof.
move=> [s _ [X e]] o.
by rewrite -s e trmx_mul -mulmxA o mulmx0.
Qed.

Theorem first_order_expand S (B : 'M[F]_(N,S)) (C : 'M[F]_(M,S))
    (A' : 'M[F]_(N,M)) (C' : 'M[F]_(M,S)) (t : F) :
  B - (A + t *: A') *m (C + t *: C')
  = (B - A *m C) - t *: (A' *m C + A *m C') - (t * t) *: (A' *m C').
Proof.
rewrite mulmxDl !mulmxDr -!scalemxAl -!scalemxAr scalerA scalerDr.
rewrite !opprD !addrA; congr (_ + _).
by rewrite -!addrA; congr (_ + (_ + _)); rewrite addrC.
Qed.

Theorem first_order_coeff S (R : 'M[F]_(N,S)) (C : 'M[F]_(M,S))
    (A' : 'M[F]_(N,M)) (C' : 'M[F]_(M,S)) s :
  A^T *m R = 0 ->
  dotp (col s R) (col s (A' *m C + A *m C')) = dotp (col s R) (col s (A' *m C)).
Proof.
move=> o.
rewrite colD dotpDr [col s (A *m C')]col_mul dotp_mulmxr -col_mul o col0.
by rewrite dotp0l addr0.
Qed.

Theorem kaufman_gradient S (P : 'M[F]_N) (R : 'M[F]_(N,S)) (C : 'M[F]_(M,S))
    (A' : 'M[F]_(N,M)) s :
  is_proj_onto A P -> A^T *m R = 0 ->
  dotp (col s R) (col s (A' *m C))
  = - dotp (col s R) (col s (P *m (A' *m C) - A' *m C)).
Proof.
move=> h o.
have PR := proj_kills h o.
case: h => sP _ _.
rewrite colB dotpBr opprB [col s (P *m _)]col_mul dotp_mulmxr sP -col_mul PR col0.
by rewrite dotp0l subr0.
Qed.

End ProjBasic.

Section ProjSVD.
Variables (N M : nat).
Variables (U : 'M[F]_(N,M)) (sg : 'rV[F]_M) (Vt : 'M[F]_M).
Hypothesis UtU : U^T *m U = 1%:M.
Hypothesis VtV : Vt *m Vt^T = 1%:M.
Hypothesis sg_neq0 : forall i, sg 0 i != 0.

Let A := U *m diag_mx sg *m Vt.
Let sgi : 'rV[F]_M := \row_i (sg 0 i)^-1.

Lemma sg_sgi : diag_mx sg *m diag_mx sgi = 1%:M.
Proof.
rewrite mulmx_diag -diag_const_mx; congr diag_mx; apply/rowP => i.
by rewrite !mxE mulfV.
Qed.

Theorem proj_svd : is_proj_onto A (U *m U^T).
Proof.
split.
- by rewrite trmx_mul trmxK.
- by rewrite /A !mulmxA -(mulmxA U) UtU mulmx1.
- exists (Vt^T *m diag_mx sgi *m U^T).
  rewrite /A !mulmxA -(mulmxA _ Vt) VtV mulmx1 -(mulmxA U) sg_sgi mulmx1; by [].
Qed.

Lemma VVt : Vt^T *m Vt = 1%:M.
Proof. exact: mulmx1C VtV. Qed.

Lemma svd_gram : A^T *m A = Vt^T *m (diag_mx sg *m diag_mx sg) *m Vt.
Proof.
rewrite /A !trmx_mul tr_diag_mx.
have -> : Vt^T *m (diag_mx sg *m U^T) *m (U *m diag_mx sg *m Vt)
        = Vt^T *m (diag_mx sg *m ((U^T *m U) *m diag_mx sg)) *m Vt
  by rewrite !mulmxA.
by rewrite UtU mul1mx.
Qed.

Lemma svd_gram_unit : A^T *m A \in unitmx.
Proof.
have h : (A^T *m A) *m (Vt^T *m (diag_mx sgi *m diag_mx sgi) *m Vt) = 1%:M.
  rewrite svd_gram.
  have -> : Vt^T *m (diag_mx sg *m diag_mx sg) *m Vt *m
              (Vt^T *m (diag_mx sgi *m diag_mx sgi) *m Vt)
          = Vt^T *m (diag_mx sg *m (diag_mx sg *m ((Vt *m Vt^T) *m diag_mx sgi))
                     *m diag_mx sgi) *m Vt
    by rewrite !mulmxA.
  by rewrite VtV mul1mx sg_sgi mulmx1 sg_sgi mulmx1 VVt.
by case: (mulmx1_unit h).
Qed.

Theorem UUt_gram :
  A^T *m A \in unitmx /\ U *m U^T = A *m invmx (A^T *m A) *m A^T.
Proof.
split; first exact: svd_gram_unit.
exact: (proj_unique proj_svd (proj_gram svd_gram_unit)).
Qed.

End ProjSVD.
End Proj.

(* ------------------------------------------------------------------ *)
(* Part 4 : Gram matrices / covariance                                 *)
(* ------------------------------------------------------------------ *)
Section Gram.
Variable F : realFieldType.
Variables (N Q : nat) (H : 'M[F]_(N,Q)).
Let G := H^T *m H.
Hypothesis Gu : G \in unitmx.
Let X := invmx G.

Theorem gram_sym : G^T = G.
Proof. by rewrite /G trmx_mul trmxK. Qed.

Theorem gram_inv_sym : X^T = X.
Proof. by rewrite /X trmx_inv gram_sym. Qed.

Theorem gram_inv_gram : X = (H *m X)^T *m (H *m X).
Proof.
rewrite trmx_mul gram_inv_sym -mulmxA (mulmxA H^T) -/G.
by rewrite /X mulmxV // mulmx1.
Qed.

Lemma gram_inv_entry i j : X i j = dotp (col i (H *m X)) (col j (H *m X)).
Proof. by rewrite {1}gram_inv_gram gram_entry. Qed.

Theorem quad_ge0 (j : 'cV[F]_Q) : 0 <= dotp j (X *m j).
Proof.
rewrite {1}gram_inv_gram -mulmxA dotp_mulmxr trmxK; exact: dotp_ge0.
Qed.

Theorem gram_inv_diag_ge0 i : 0 <= X i i.
Proof. rewrite gram_inv_entry; exact: dotp_ge0. Qed.

Theorem gram_inv_cs i j : (X i j)^+2 <= X i i * X j j.
Proof. rewrite !gram_inv_entry; exact: dotp_cs. Qed.

Theorem gram_inv_scale_diag_ge0 (s : F) i : 0 <= s -> 0 <= (s *: X) i i.
Proof. by move=> s0; rewrite mxE mulr_ge0 // gram_inv_diag_ge0. Qed.

Theorem gram_inv_scale_cs (s : F) i j :
  ((s *: X) i j)^+2 <= (s *: X) i i * (s *: X) j j.
Proof.
rewrite !mxE exprMn [E in _ <= E]mulrACA -expr2.
apply: ler_wpmul2l; first exact: sqr_ge0.
exact: gram_inv_cs.
Qed.

Theorem inv_unique (Y : 'M[F]_Q) : G *m Y = 1%:M -> Y = invmx G.
Proof. by move=> h; rewrite -[Y](mulKmx Gu) h mulmx1. Qed.

End Gram.

(* ------------------------------------------------------------------ *)
(* Part 5 : row scaling by a diagonal matrix                           *)
(* ------------------------------------------------------------------ *)
Section RowScale.
Variable F : realFieldType.

Theorem rowscale_entry N M (w : 'rV[F]_N) (A : 'M[F]_(N,M)) i j :
  (diag_mx w *m A) i j = w 0 i * A i j.
Proof. by rewrite mul_diag_mx mxE. Qed.

Theorem rowscale_resid N M S (w : 'rV[F]_N) (Y : 'M[F]_(N,S))
    (Phi : 'M[F]_(N,M)) (C : 'M[F]_(M,S)) :
  diag_mx w *m (Y - Phi *m C) = diag_mx w *m Y - (diag_mx w *m Phi) *m C.
Proof. by rewrite mulmxBr mulmxA. Qed.

Theorem rowscale_zero_row N M (w : 'rV[F]_N) (A : 'M[F]_(N,M)) i :
  w 0 i = 0 -> row i (diag_mx w *m A) = 0.
Proof.
by move=> wi; apply/rowP => j; rewrite [LHS]mxE rowscale_entry wi mul0r mxE.
Qed.

Theorem rowscale_zero_irrelevant N M (w : 'rV[F]_N) (A1 A2 : 'M[F]_(N,M)) i :
  w 0 i = 0 -> (forall (k : 'I_N) j, k != i -> A1 k j = A2 k j) ->
  diag_mx w *m A1 = diag_mx w *m A2.
Proof.
move=> wi h; apply/matrixP => k j; rewrite !rowscale_entry.
have [-> | ne] := eqVneq k i; first by rewrite wi !mul0r.
by rewrite h.
Qed.

Theorem gram_row' N M S (A : 'M[F]_(N.+1,M)) (B : 'M[F]_(N.+1,S)) i :
  row i A = 0 -> A^T *m B = (row' i A)^T *m (row' i B).
Proof.
move=> ri; apply/matrixP => j l; rewrite !mxE.
rewrite (bigD1_ord i) //=.
have -> : A^T j i = 0.
  by rewrite mxE; move/rowP: ri => /(_ j); rewrite !mxE.
rewrite mul0r add0r; apply: eq_bigr => k _; by rewrite !mxE.
Qed.

End RowScale.

Print Assumptions nrm2_eq0.
Print Assumptions dotp_cs.
Print Assumptions ls_opt.
Print Assumptions ls_opt_conv.
Print Assumptions ls_unique.
Print Assumptions ls_min_norm.
Print Assumptions ls_min_norm_unique.
Print Assumptions ls_opt_cols.
Print Assumptions normal_eq.
Print Assumptions solve_rowspace.
Print Assumptions solve_opt.
Print Assumptions solve_min_norm.
Print Assumptions Aeps_clean.
Print Assumptions solve_linear.
Print Assumptions solve_col.
Print Assumptions proj_unique.
Print Assumptions proj_idem.
Print Assumptions proj_gram.
Print Assumptions proj_svd.
Print Assumptions UUt_gram.
Print Assumptions kaufman_orth.
Print Assumptions kaufman_form.
Print Assumptions kaufman_orth_svd.
Print Assumptions first_order_expand.
Print Assumptions first_order_coeff.
Print Assumptions kaufman_gradient.
Print Assumptions gram_sym.
Print Assumptions gram_inv_sym.
Print Assumptions gram_inv_gram.
Print Assumptions quad_ge0.
Print Assumptions gram_inv_diag_ge0.
Print Assumptions gram_inv_cs.
Print Assumptions gram_inv_scale_diag_ge0.
Print Assumptions gram_inv_scale_cs.
Print Assumptions inv_unique.
Print Assumptions rowscale_entry.
Print Assumptions rowscale_resid.
Print Assumptions rowscale_zero_row.
Print Assumptions rowscale_zero_irrelevant.
Print Assumptions gram_row'.
Print Assumptions col_mul.
Print Assumptions nrm2_ge0.
Print Assumptions solve_in_rowspace.
Print Assumptions solve_min_norm_unique.
Print Assumptions proj_kills.
