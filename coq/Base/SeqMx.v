(* SeqMx.v : executable column-major list matrices over a field.            *)
(* A matrix is the list of its columns; a column is the list of its entries. *)
(* All definitions are structurally recursive and compute under vm_compute   *)
(* once F is instantiated with a computable field.                           *)
From mathcomp Require Import all_ssreflect all_algebra.
Set Implicit Arguments. Unset Strict Implicit. Unset Printing Implicit Defensive.
Import GRing.Theory.
Local Open Scope ring_scope.

Section SeqMx.
Variable F : fieldType.

Definition smx := seq (seq F).

Definition wf (n m : nat) (A : smx) :=
  (size A == m) && all (fun c => size c == n) A.

Definition ent (A : smx) (i j : nat) : F := nth 0 (nth [::] A j) i.

(* ---------------------------------------------------------------- vectors *)

Definition svadd (v w : seq F) : seq F := [seq p.1 + p.2 | p <- zip v w].
Definition svsub (v w : seq F) : seq F := [seq p.1 - p.2 | p <- zip v w].
Definition svopp (v : seq F) : seq F := [seq - x | x <- v].
Definition svscale (a : F) (v : seq F) : seq F := [seq a * x | x <- v].
Definition svmulp (v w : seq F) : seq F := [seq p.1 * p.2 | p <- zip v w].
Definition svdot (v w : seq F) : F :=
  foldr (fun p acc => p.1 * p.2 + acc) 0 (zip v w).
Definition svnrm2 (v : seq F) : F := svdot v v.

(* --------------------------------------------------------------- matrices *)

Definition sadd (A B : smx) : smx := [seq svadd p.1 p.2 | p <- zip A B].
Definition ssub (A B : smx) : smx := [seq svsub p.1 p.2 | p <- zip A B].
Definition sopp (A : smx) : smx := [seq svopp c | c <- A].
Definition sscale (a : F) (A : smx) : smx := [seq svscale a c | c <- A].

(* A v for a column vector v, as a linear combination of the columns of A;  *)
(* n is the number of rows (needed when A has no column).                   *)
Fixpoint lincomb (n : nat) (A : smx) (v : seq F) : seq F :=
  match A, v with
  | c :: A', x :: v' => [seq x * p.1 + p.2 | p <- zip c (lincomb n A' v')]
  | _, _ => nseq n 0
  end.

Definition smul (n : nat) (A B : smx) : smx := [seq lincomb n A v | v <- B].

(* Transpose of an n-row matrix: the list, over i < n, of row i of A.       *)
(* Peels one row off all columns at each step (linear in the matrix size).  *)
Fixpoint strans (n : nat) (A : smx) : smx :=
  match n with
  | 0 => [::]
  | n'.+1 => [seq head 0 c | c <- A] :: strans n' [seq behead c | c <- A]
  end.

(* diag(w) * A : multiply row i by w_i *)
Definition srowscale (w : seq F) (A : smx) : smx := [seq svmulp w c | c <- A].

Definition scol (A : smx) (j : nat) : seq F := nth [::] A j.

Definition sident (n : nat) : smx :=
  [seq [seq (if i == j then 1 else 0 : F) | i <- iota 0 n] | j <- iota 0 n].

Definition szero (n m : nat) : smx := nseq m (nseq n (0 : F)).

Definition sflatten (A : smx) : seq F := flatten A.

(* A^T A for an n-row matrix A *)
Definition sgram (n : nat) (A : smx) : smx := smul (size A) (strans n A) A.

(* squared Frobenius norm *)
Definition sfro2 (A : smx) : F := foldr (fun c acc => svnrm2 c + acc) 0 A.

Fixpoint sdiagv_rec (i : nat) (A : smx) : seq F :=
  match A with
  | [::] => [::]
  | c :: A' => nth 0 c i :: sdiagv_rec i.+1 A'
  end.
Definition sdiagv (A : smx) : seq F := sdiagv_rec 0 A.

Definition smx_eqb (A B : smx) : bool := A == B.

(* --------------------------------------------- Gauss-Jordan (unverified) *)
(* Works on the rows of the augmented matrix [G | I].  At step k every row  *)
(* has had its first k entries stripped, so the head of a row is its entry  *)
(* in column k.  A row with nonzero head is selected among the rows that    *)
(* have not served as pivot yet, normalised, and used to clear column k in  *)
(* every other row; then the heads are dropped.  After n steps what remains *)
(* of the k-th pivot row is row k of the inverse.  Zero multipliers and     *)
(* zero pivot-row entries are skipped: field operations may be expensive    *)
(* (e.g. normalising rationals) while tests against 0 are cheap.            *)

Fixpoint gj_pivot (rows : smx) : option (seq F * smx) :=
  match rows with
  | [::] => None
  | r :: rs =>
      if head 0 r == 0 then
        if gj_pivot rs is Some (p, rest) then Some (p, r :: rest) else None
      else Some (r, rs)
  end.

Definition gj_elim (p : seq F) (r : seq F) : seq F :=
  match r with
  | [::] => [::]
  | h :: t =>
      if h == 0 then t
      else [seq (if q.2 == 0 then q.1 else q.1 - h * q.2) | q <- zip t p]
  end.

Fixpoint gj_loop (fuel : nat) (done todo : smx) : option smx :=
  match fuel with
  | 0 => Some (rev done)
  | fuel'.+1 =>
      match gj_pivot todo with
      | None => None
      | Some (p, rest) =>
          let p' := svscale (head 0 p)^-1 (behead p) in
          gj_loop fuel' (p' :: [seq gj_elim p' r | r <- done])
                        [seq gj_elim p' r | r <- rest]
      end
  end.

Definition sinv (n : nat) (G : smx) : option smx :=
  if gj_loop n [::] (strans n (G ++ sident n)) is Some R
  then Some (strans n R) else None.

(* Certified wrapper: the candidate inverse is checked, so soundness does   *)
(* not depend on the Gauss-Jordan code above.                               *)
Definition inv_cert (n : nat) (G : smx) : option smx :=
  if sinv n G is Some X then
    (if wf n n X && (smul n G X == sident n) then Some X else None)
  else None.

(* Least squares through the normal equations: A is n x m, B is n x s.     *)
Definition slsq (n m : nat) (A B : smx) : option smx :=
  if inv_cert m (sgram n A) is Some X
  then Some (smul m X (smul m (strans n A) B)) else None.

(* --------------------------------- abstraction functions (specification) *)
(* Not meant to be executed: they map list matrices to MathComp matrices.  *)

Definition mx_of n m (A : smx) : 'M[F]_(n, m) := \matrix_(i, j) ent A i j.
Definition cv_of n (v : seq F) : 'cV[F]_n := \col_i nth 0 v i.
Definition rv_of n (v : seq F) : 'rV[F]_n := \row_i nth 0 v i.

End SeqMx.
