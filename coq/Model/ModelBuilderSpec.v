(* ModelBuilderSpec.v — the declarative reading of property C15: which call sequences describe a
   valid model, and which defect each error kind names.  Written from the property text and
   the crate documentation, independently of the builder's control flow (ModelBuilder.v). *)
From Coq Require Import List Bool Arith Lia.
Import ListNotations.
From VP Require Import Model.ModelBuilder.
Set Implicit Arguments.

Section Spec.
  Variables name Fn Fn0 X Sc : Type.
  Variable has_comma : name -> bool.
  Variable arity : Fn -> nat.
  Notation mop := (mop name Fn Fn0 X Sc).

  (* the call sequence read as a list of items: a function call together with the maximal run of
     partial_deriv calls that directly follows it forms one item *)
  Inductive item :=
  | IFun (fps : list name) (f : Fn) (ds : list (name * Fn))
  | IInv (f : Fn0)
  | IX (x : X)
  | IInit (l : list Sc)
  | IStray (n : name) (d : Fn).   (* a partial_deriv call that does not directly follow a function *)

  Definition flush (cur : option (list name * Fn * list (name * Fn))) : list item :=
    match cur with Some (fps, f, ds) => [IFun fps f ds] | None => [] end.

  Fixpoint parse (ops : list mop) (cur : option (list name * Fn * list (name * Fn))) : list item :=
    match ops with
    | [] => flush cur
    | OPartialDeriv n d :: r =>
        match cur with
        | Some (fps, f, ds) => parse r (Some (fps, f, ds ++ [(n, d)]))
        | None => IStray n d :: parse r None
        end
    | OFunction fps f :: r => flush cur ++ parse r (Some (fps, f, []))
    | OInvariant f :: r => flush cur ++ IInv f :: parse r None
    | OIndepVar x :: r => flush cur ++ IX x :: parse r None
    | OInitParams l :: r => flush cur ++ IInit l :: parse r None
    end.

  Definition items (ops : list mop) : list item := parse ops None.

  (* non-empty, unique, comma-free *)
  Definition names_ok (l : list name) : Prop :=
    l <> [] /\ NoDup l /\ (forall n, In n l -> has_comma n = false).

  (* a parametrised function lists non-empty, unique model parameters matching its arity and
     receives exactly one partial derivative (of the same arity) for each of them and for no other name *)
  Definition group_ok (names fps : list name) (f : Fn) (ds : list (name * Fn)) : Prop :=
    names_ok fps /\ incl fps names /\ arity f = length fps /\
    NoDup (map fst ds) /\ (forall n, In n (map fst ds) <-> In n fps) /\
    (forall n d, In (n, d) ds -> arity d = length fps).

  Definition is_function (i : item) : Prop :=
    match i with IFun _ _ _ | IInv _ => True | _ => False end.

  Definition valid (names : list name) (ops : list mop) : Prop :=
    names_ok names /\
    (forall n d, ~ In (IStray n d) (items ops)) /\
    (forall fps f ds, In (IFun fps f ds) (items ops) -> group_ok names fps f ds) /\
    (exists i, In i (items ops) /\ is_function i) /\
    (forall n, In n names -> exists fps f ds, In (IFun fps f ds) (items ops) /\ In n fps) /\
    (exists x, In (IX x) (items ops)) /\
    (exists l, In (IInit l) (items ops)) /\
    (forall l, In (IInit l) (items ops) -> length l = length names).

  (* the defect an error kind names, as a fact about the call sequence *)
  Definition defect (names : list name) (ops : list mop) (e : mberr name) : Prop :=
    match e with
    | EmptyParameters =>
        names = [] \/ exists f ds, In (IFun [] f ds) (items ops)
    | CommaInParameterNameNotAllowed n =>
        has_comma n = true /\
        (In n names \/ exists fps f ds, In (IFun fps f ds) (items ops) /\ In n fps)
    | DuplicateParameterNames l =>
        ~ NoDup l /\ (l = names \/ exists f ds, In (IFun l f ds) (items ops))
    | FunctionParameterNotInModel n =>
        exists fps f ds, In (IFun fps f ds) (items ops) /\ In n fps /\ ~ In n names
    | InvalidDerivative n fps =>
        exists f ds, In (IFun fps f ds) (items ops) /\ In n (map fst ds) /\
                     ~ (In n fps /\ In n names)
    | DuplicateDerivative n =>
        exists fps f ds, In (IFun fps f ds) (items ops) /\
          exists ds1 d1 ds2 d2 ds3, ds = ds1 ++ (n, d1) :: ds2 ++ (n, d2) :: ds3
    | MissingDerivative n fps =>
        exists f ds, In (IFun fps f ds) (items ops) /\ In n fps /\ ~ In n (map fst ds)
    | EmptyModel => forall i, In i (items ops) -> ~ is_function i
    | UnusedParameter n =>
        In n names /\ forall fps f ds, In (IFun fps f ds) (items ops) -> ~ In n fps
    | IncorrectParameterCount actual expected =>
        actual <> expected /\
        ((exists fps f ds, In (IFun fps f ds) (items ops) /\ actual = length fps /\
                           (expected = arity f \/ exists n d, In (n, d) ds /\ expected = arity d)) \/
         (exists l, In (IInit l) (items ops) /\ actual = length l /\ expected = length names))
    | MissingX => forall x, ~ In (IX x) (items ops)
    | MissingInitialParameters => forall l, ~ In (IInit l) (items ops)
    | IllegalCallToPartialDeriv => exists n d, In (IStray n d) (items ops)
    end.
End Spec.
