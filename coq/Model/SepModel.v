(* SepModel.v — the builder-made model: src/model/mod.rs (impl SeparableNonlinearModel for
   SeparableModel), src/model/model_basis_function.rs (evaluate_and_check),
   src/model/detail.rs (the wrapping closure of create_wrapped_basis_function) and
   src/basis_function/detail.rs (slice -> argument dispatch; the index table itself is read from
   the source by the translator, Gen/DispatchTable.v). *)
From Coq Require Import List Bool Arith Lia.
Import ListNotations.
From VP Require Import Model.ModelBuilder.
Set Implicit Arguments.

(* the specified dispatch: an arity-n closure receives slice elements 0..n-1 in order, n = 1..10.
   Props/C16.v proves that the table read from the source on every run (Gen/DispatchTable.v) is this one. *)
Definition canon_table : list (nat * list nat) := map (fun n => (n, seq 0 n)) (seq 1 10).

Section SepModel.
  Variables name Fn Fn0 X Sc : Type.
  Variable arity : Fn -> nat.
  Variable xlen : X -> nat.
  Variable zero : Sc.
  (* the user's closures: called with the independent variable and the argument list *)
  Variable call : Fn -> X -> list Sc -> list Sc.
  Variable call0 : Fn0 -> X -> list Sc.
  (* arity |-> slice indices handed to the closure, in argument order (from the source) *)
  Variable dispatch_table : list (nat * list nat).

  Notation wfn := (wfn Fn).
  Notation mfun := (mfun Fn Fn0).
  Notation smodel := (smodel name Fn Fn0 X Sc).

  Inductive merr :=
  | UnexpectedFunctionOutput (expected actual : nat)
  | DerivativeIndexOutOfBounds (k : nat)
  | IncorrectParameterCountM (expected actual : nat).

  Inductive res (A : Type) := RPanic | RErr (e : merr) | ROk (a : A).
  Arguments RPanic {A}. Arguments RErr {A} e. Arguments ROk {A} a.

  Fixpoint lookup (n : nat) (t : list (nat * list nat)) : option (list nat) :=
    match t with
    | [] => None
    | (k, l) :: r => if k =? n then Some l else lookup n r
    end.

  (* all the indexed elements, None if one index is out of bounds (a Rust slice index panic) *)
  Fixpoint gather (s : list Sc) (idx : list nat) : option (list Sc) :=
    match idx with
    | [] => Some []
    | i :: r => match nth_error s i, gather s r with
                | Some v, Some l => Some (v :: l)
                | _, _ => None
                end
    end.

  (* BasisFunction::eval for closures of arity n: panics unless the slice has exactly n entries *)
  Definition dispatch (f : Fn) (x : X) (slice : list Sc) : option (list Sc) :=
    if length slice =? arity f then
      match lookup (arity f) dispatch_table with
      | Some idx => option_map (call f x) (gather slice idx)
      | None => None
      end
    else None.

  (* the wrapping closure: select this function's parameters from the model's vector *)
  Definition call_wrapped (w : wfn) (x : X) (params : list Sc) : option (list Sc) :=
    match gather params (w_map w) with
    | Some args => dispatch (w_fn w) x args
    | None => None
    end.

  (* evaluate_and_check *)
  Definition evaluate_and_check (v : option (list Sc)) (x : X) : res (list Sc) :=
    match v with
    | None => RPanic
    | Some l => if length l =? xlen x then ROk l else RErr (UnexpectedFunctionOutput (xlen x) (length l))
    end.

  Definition eval_body (b : body Fn Fn0) (x : X) (params : list Sc) : res (list Sc) :=
    match b with
    | BWrapped w => evaluate_and_check (call_wrapped w x params) x
    | BInvariant f => evaluate_and_check (Some (call0 f x)) x
    end.

  (* columns in insertion order; the first failing function aborts the evaluation *)
  Fixpoint eval_cols (funs : list mfun) (x : X) (params : list Sc) : res (list (list Sc)) :=
    match funs with
    | [] => ROk []
    | f :: r =>
        match eval_body (f_body f) x params with
        | RPanic => RPanic
        | RErr e => RErr e
        | ROk c => match eval_cols r x params with
                   | RPanic => RPanic
                   | RErr e => RErr e
                   | ROk cs => ROk (c :: cs)
                   end
        end
    end.

  Definition sm_eval (m : smodel) : res (list (list Sc)) :=
    if length (sm_params m) =? length (sm_names m)
    then eval_cols (sm_funs m) (sm_x m) (sm_params m)
    else RErr (IncorrectParameterCountM (length (sm_names m)) (length (sm_params m))).

  Fixpoint find_key (k : nat) (d : list (nat * wfn)) : option wfn :=
    match d with
    | [] => None
    | (i, w) :: r => if i =? k then Some w else find_key k r
    end.

  Fixpoint deriv_cols (funs : list mfun) (k : nat) (x : X) (params : list Sc)
    : res (list (list Sc)) :=
    match funs with
    | [] => ROk []
    | f :: r =>
        let col := match find_key k (f_derivs f) with
                   | Some w => evaluate_and_check (call_wrapped w x params) x
                   | None => ROk (repeat zero (xlen x))
                   end in
        match col with
        | RPanic => RPanic
        | RErr e => RErr e
        | ROk c => match deriv_cols r k x params with
                   | RPanic => RPanic
                   | RErr e => RErr e
                   | ROk cs => ROk (c :: cs)
                   end
        end
    end.

  Definition sm_deriv (m : smodel) (k : nat) : res (list (list Sc)) :=
    if length (sm_params m) =? length (sm_names m) then
      if length (sm_names m) <=? k then RErr (DerivativeIndexOutOfBounds k)
      else deriv_cols (sm_funs m) k (sm_x m) (sm_params m)
    else RErr (IncorrectParameterCountM (length (sm_names m)) (length (sm_params m))).

  Definition sm_set (m : smodel) (p : list Sc) : smodel * option merr :=
    if length p =? length (sm_names m)
    then ({| sm_names := sm_names m; sm_funs := sm_funs m; sm_x := sm_x m; sm_params := p |}, None)
    else (m, Some (IncorrectParameterCountM (length (sm_names m)) (length p))).

  Definition sm_get (m : smodel) : list Sc := sm_params m.

  (* calls on a model and what they return *)
  Inductive mcall := MSet (p : list Sc) | MParams | MEval | MDeriv (k : nat).
  Inductive mret :=
  | TSet (e : option merr) | TParams (p : list Sc) | TMat (r : res (list (list Sc))).

  Definition mstep (m : smodel) (c : mcall) : smodel * mret :=
    match c with
    | MSet p => let '(m', e) := sm_set m p in (m', TSet e)
    | MParams => (m, TParams (sm_get m))
    | MEval => (m, TMat (sm_eval m))
    | MDeriv k => (m, TMat (sm_deriv m k))
    end.

  Fixpoint mrun (m : smodel) (cs : list mcall) : list mret :=
    match cs with
    | [] => []
    | c :: r => let '(m', t) := mstep m c in t :: mrun m' r
    end.
End SepModel.

Arguments RPanic {A}.
Arguments RErr {A} e.
Arguments ROk {A} a.
Arguments TSet {Sc} e.
Arguments TParams {Sc} p.
Arguments TMat {Sc} r.
Arguments MSet {Sc} p.
Arguments MParams {Sc}.
Arguments MEval {Sc}.
Arguments MDeriv {Sc} k.
