(* Numeric.v — the numeric content of the fitting problem and of the fit statistics as exact,
   executable specifications over an arbitrary real field (run with F := Qc), together with the
   acceptance predicates the correspondence check evaluates on the implementation's outputs.

   src/solvers/levmar/mod.rs:  set_params (weighted basis matrix, least-squares solve, residual
   matrix), jacobian (Kaufman column);  src/statistics/mod.rs: try_calculate,
   model_function_jacobian, concat_colwise, calc_correlation_matrix, confidence_band_radius.

   Matrices are column-major lists (Base/SeqMx.v); Proofs/NumericP.v relates every function here to
   MathComp matrices and proves the properties. *)
From mathcomp Require Import all_ssreflect all_algebra.
From VP Require Import Base.SeqMx.
Set Implicit Arguments. Unset Strict Implicit. Unset Printing Implicit Defensive.
Import GRing.Theory Num.Theory.
Local Open Scope ring_scope.

Section Numeric.
Variable F : realFieldType.
Notation smx := (smx F).

(* util/weights.rs: &weights * matrix; None = Weights::Unit *)
Definition wscale (w : option (seq F)) (A : smx) : smx :=
  if w is Some v then srowscale v A else A.
Definition wscalev (w : option (seq F)) (y : seq F) : seq F :=
  if w is Some v then svmulp v y else y.

(* ---------------------------------------------------------------- the problem at one alpha *)
(* n samples, m basis functions; Phi is n x m, Y is n x s (unweighted, as supplied) *)

(* coefficients: the least-squares solution of (W Phi) C = W Y (full column rank) *)
Definition spec_coeffs (n m : nat) (w : option (seq F)) (Phi Y : smx) : option smx :=
  slsq n m (wscale w Phi) (wscale w Y).

(* residual matrix W Y - (W Phi) C *)
Definition spec_resid (n : nat) (w : option (seq F)) (Phi Y C : smx) : smx :=
  ssub (wscale w Y) (smul n (wscale w Phi) C).

(* V - A (A^T A)^-1 A^T V : the part of V orthogonal to range(A) *)
Definition proj_compl (n m : nat) (A V : smx) : option smx :=
  if inv_cert m (sgram n A) is Some X
  then Some (ssub V (smul n A (smul m X (smul m (strans n A) V))))
  else None.

(* Kaufman column k: -(I - P) W D_k C, stacked column after column *)
Definition spec_jac_col (n m : nat) (w : option (seq F)) (Phi Dk C : smx) : option (seq F) :=
  if proj_compl n m (wscale w Phi) (smul n (wscale w Dk) C) is Some M
  then Some (flatten (sopp M)) else None.

Definition sq (x : F) : F := x * x.

(* ---------------------------------------------------------------- conditioning / tolerances *)
Definition strace (A : smx) : F := foldr (fun x acc => x + acc) 0 (sdiagv A).

(* an upper bound of the squared 2-norm condition number of A: tr(A^T A) tr((A^T A)^-1) *)
Definition kappa2 (n m : nat) (A : smx) : option F :=
  if inv_cert m (sgram n A) is Some X then Some (strace (sgram n A) * strace X) else None.

(* ||a - b||^2 <= tol2 * max(||b||^2, floor2) *)
Definition close2 (tol2 floor2 : F) (a b : seq F) : bool :=
  svnrm2 (svsub a b) <= tol2 * Num.max (svnrm2 b) floor2.

(* squared tolerance for quantities obtained through a solve against A:
   (c u)^2 * kappa2^2 * (n m), u the unit roundoff of the scalar width *)
Definition tol2_solve (cu2 : F) (n m : nat) (k2 : F) : F := cu2 * k2 * k2 * (n * m)%N%:R.

(* ---------------------------------------------------------------- checks of one state (C01-C03) *)
Record state_obs := {
  so_n : nat; so_m : nat;
  so_w : option (seq F); so_Phi : smx; so_Y : smx;
  so_Ds : seq smx;                 (* derivative matrices D_k, k < p (only when a Jacobian is checked) *)
  so_C : smx;                      (* implementation: coefficients (m x s) *)
  so_R : seq F;                    (* implementation: residual vector (n s) *)
  so_J : option smx;               (* implementation: Jacobian (n s) x p *)
}.

(* result codes: 0 ok; 1 rank deficient / no spec; 2 shapes; 3 coefficients; 4 residuals;
   5 residuals inconsistent with the implementation's own coefficients; 10+k Jacobian column k;
   6 Jacobian column not orthogonal to range(W Phi) *)
(* the spec functions with the certified inverse X of the Gram matrix passed in (computed once
   per state): by definition  spec_coeffs = coeffs_with X,  proj_compl = proj_compl_with X,
   kappa2 = kappa2_with X  for X := inv_cert m (sgram n A) *)
Definition coeffs_with (n m : nat) (X A B : smx) : smx := smul m X (smul m (strans n A) B).
Definition proj_compl_with (n m : nat) (X A V : smx) : smx :=
  ssub V (smul n A (smul m X (smul m (strans n A) V))).
Definition kappa2_with (n : nat) (X A : smx) : F := strace (sgram n A) * strace X.

(* [mode]: which relations are checked — 1: coefficients (code 3); 2: residuals (4, 5); 4: Jacobian (10+k);
   sums select several *)
Definition check_state (mode : nat) (cu2 floor2 k2max eps2 : F) (o : state_obs) : nat :=
  let n := so_n o in let m := so_m o in
  let A := wscale (so_w o) (so_Phi o) in
  let B := wscale (so_w o) (so_Y o) in
  let s := size (so_Y o) in
  if ~~ [&& wf n m (so_Phi o), wf n s (so_Y o), wf m s (so_C o) & size (so_R o) == (s * n)%N] then 2%N
  else
  match inv_cert m (sgram n A) with
  | Some X =>
      let k2 := kappa2_with n X A in
      let C := coeffs_with n m X A B in
      if k2max < k2 then 1%N else
      (* every singular value of A is at least 1/sqrt(tr X): with the threshold (eps2 = eps^2) safely below, nothing
         is truncated and the plain least-squares solution is expected; otherwise not compared *)
      if ~~ (eps2 * strace X * (10%:R ^+ 4) < 1) then 1%N else
      let t2 := tol2_solve cu2 n m k2 in
      let bn := Num.max (Num.max (sfro2 B) (sfro2 A * sfro2 (so_C o))) floor2 in
      (* the natural scale of the coefficients is ||A^+|| ||B|| (tr X = ||A^+||_F^2): when the data are nearly orthogonal to
         range(A) the solution is small by cancellation and its rounding error is relative to that scale, not to ||C|| *)
      let cref := Num.max floor2 (strace X * sfro2 B) in
      let mc := odd mode in let mr := odd (mode %/ 2) in let mj := odd (mode %/ 4) in
      if mc && ~~ close2 t2 cref (flatten (so_C o)) (flatten C) then 3%N
      else if mr && ~~ (svnrm2 (svsub (so_R o) (flatten (ssub B (smul n A C)))) <= t2 * bn) then 4%N
      else if mr && ~~ (svnrm2 (svsub (so_R o) (flatten (ssub B (smul n A (so_C o))))) <= cu2 * (n * m)%N%:R * bn) then 5%N
      else
        match (if mj then so_J o else None) with
        | None => 0%N
        | Some J =>
            if size J != size (so_Ds o) then 2%N else
            let fix cols (k : nat) (Js : smx) (Ds : seq smx) : nat :=
              match Js, Ds with
              | jc :: Jr, Dk :: Dr =>
                  let V := smul n (wscale (so_w o) Dk) C in
                  let sc := flatten (sopp (proj_compl_with n m X A V)) in
                  let vn := Num.max (Num.max (sfro2 V) (sfro2 (wscale (so_w o) Dk) * (strace X * sfro2 B))) floor2 in
                  if size jc != (s * n)%N then 2%N
                  else if svnrm2 (svsub jc sc) <= t2 * vn then cols k.+1 Jr Dr
                  else (10 + k)%N
              | _, _ => 0%N
              end in
            cols 0%N J (so_Ds o)
        end
  | None => 1%N
  end.

(* C02 for ANY shape and rank — fewer samples than basis functions, rank-deficient or truncated bases included: the residual
   vector shown is W (Y - Phi C) for the coefficients shown. Plain products, no solve, so nothing has to be invertible.
   codes: 0 ok, 2 shapes, 5 the residuals do not belong to the coefficients *)
Definition check_own_resid (cu2 floor2 : F) (o : state_obs) : nat :=
  let n := so_n o in let m := so_m o in
  let A := wscale (so_w o) (so_Phi o) in
  let B := wscale (so_w o) (so_Y o) in
  let s := size (so_Y o) in
  if ~~ [&& wf n m (so_Phi o), wf n s (so_Y o), wf m s (so_C o) & size (so_R o) == (s * n)%N] then 2%N
  else
    let bn := Num.max (Num.max (sfro2 B) (sfro2 A * sfro2 (so_C o))) floor2 in
    if svnrm2 (svsub (so_R o) (flatten (ssub B (smul n A (so_C o))))) <= cu2 * (n * m)%N%:R * bn then 0%N else 5%N.

(* ---------------------------------------------------------------- rank-deficient basis matrices *)
(* The minimum-norm least-squares solution of an exactly rank-deficient A (n x m, rank r < m), from a
   full-rank factorisation A = Bm * D found through the columns [sel] (a list of r column indices
   that the case generator knows to be independent; everything is CHECKED, nothing trusted):
     Bm := columns sel of A,  D := (Bm^T Bm)^-1 Bm^T A  (r x m),  require A = Bm D exactly,
     C  := D^T (D D^T)^-1 (Bm^T Bm)^-1 Bm^T B.
   Then C = A^T Z for Z := Bm (Bm^T Bm)^-1 (D D^T)^-1 (Bm^T Bm)^-1 Bm^T B and A^T (B - A C) = 0:
   C is THE minimum-norm minimiser (Proofs: ls_min_norm). *)
Definition sel_cols (A : smx) (sel : seq nat) : smx := [seq nth [::] A j | j <- sel].

Record minnorm := { mn_C : smx; mn_k2 : F; mn_smin2inv : F }.

Definition spec_minnorm (n m : nat) (A B : smx) (sel : seq nat) : option minnorm :=
  let r := size sel in
  let Bm := sel_cols A sel in
  match inv_cert r (sgram n Bm) with
  | None => None
  | Some X =>
      let D := smul r X (smul r (strans n Bm) A) in          (* r x m *)
      if ~~ (smul n Bm D == A) then None else
      let Dt := strans r D in                                (* m x r *)
      match inv_cert r (smul r D Dt) with
      | None => None
      | Some Xd =>
          let C := smul m Dt (smul r Xd (smul r X (smul r (strans n Bm) B))) in
          (* exact certificate of optimality: normal equations of the full matrix *)
          if ~~ (smul m (strans n A) (ssub B (smul n A C)) == szero F m (size B)) then None
          else Some {| mn_C := C;
                       mn_k2 := (strace (sgram n Bm) * strace X) * (strace (smul r D Dt) * strace Xd);
                       mn_smin2inv := strace X * strace Xd |}
      end
  end.

(* acceptance for a rank-deficient state with user threshold eps (eps2 = eps^2): the float singular
   values must split cleanly around eps — the smallest non-zero singular value of A is at least
   1/sqrt(tr X tr Xd), the computed "zero" singular values are of order u ||A|| — otherwise the case
   is not compared (code 1).  codes: 3 coefficients, 4 residuals, 8 non-finite / shapes *)
Definition check_rankdef (mode : nat) (cu2 floor2 k2max eps2 : F) (n m : nat) (w : option (seq F)) (Phi Y : smx)
           (sel : seq nat) (Cimpl : smx) (Rimpl : seq F) : nat :=
  let A := wscale w Phi in
  let B := wscale w Y in
  let s := size Y in
  if ~~ [&& wf n m Phi, wf n s Y, wf m s Cimpl & size Rimpl == (s * n)%N] then 8%N else
  match spec_minnorm n m A B sel with
  | None => 1%N
  | Some mn =>
      if k2max < mn_k2 mn then 1%N
      else if ~~ (eps2 * mn_smin2inv mn * (10%:R ^+ 6) < 1) then 1%N
      else if ~~ (cu2 * sfro2 A * (10%:R ^+ 6) < eps2) then 1%N
      else
        let t2 := tol2_solve cu2 n m (mn_k2 mn) in
        let bn := Num.max (Num.max (sfro2 B) (sfro2 A * sfro2 Cimpl)) floor2 in
        if odd mode && ~~ close2 t2 (Num.max floor2 (mn_smin2inv mn * sfro2 B)) (flatten Cimpl) (flatten (mn_C mn)) then 3%N
        else if odd (mode %/ 2) && ~~ (svnrm2 (svsub Rimpl (flatten (ssub B (smul n A (mn_C mn))))) <= t2 * bn) then 4%N
        else 0%N
  end.

(* ---------------------------------------------------------------- the implementation's formula, replayed *)
(* nalgebra's SVD::solve as used by set_params: C = V diag(sigma_i > eps ? 1/sigma_i : 0) U^T B, evaluated
   exactly on the factors the problem cached (hook verif_svd).  Proofs/SvdExecP.v: this is LinAlg.solve. *)
Definition svd_solve_exec (n k m : nat) (U : smx) (sg : seq F) (Vt : smx) (eps : F) (B : smx) : smx :=
  let sginv := [seq (if eps < x then x^-1 else 0) | x <- sg] in
  smul m (strans k Vt) (srowscale sginv (smul k (strans n U) B)).

(* validation of the contract svd_spec on the cached factors, and of the code-shaped formula:
   40 U^T U <> 1, 41 Vt Vt^T <> 1, 42 W Phi <> U diag(sigma) Vt, 43 a negative singular value,
   44 coefficients are not the truncated-SVD solve of the cached factors, 2 shapes *)
Definition check_svd (cu2 floor2 eps : F) (n m : nat) (w : option (seq F)) (Phi Y : smx)
           (U : smx) (sg : seq F) (Vt : smx) (Cimpl : smx) : nat :=
  let k := size sg in
  let s := size Y in
  let A := wscale w Phi in
  let B := wscale w Y in
  let e2 := cu2 * (n * m)%N%:R in
  if ~~ [&& wf n m Phi, wf n s Y, wf n k U, wf k m Vt & wf m s Cimpl] then 2%N
  else if ~~ (sfro2 (ssub (smul k (strans n U) U) (sident F k)) <= e2) then 40%N
  else if ~~ (sfro2 (ssub (smul k Vt (strans k Vt)) (sident F k)) <= e2) then 41%N
  else if ~~ (sfro2 (ssub A (smul n U (srowscale sg Vt))) <= e2 * Num.max (sfro2 A) floor2) then 42%N
  else if ~~ all (fun x => 0 <= x) sg then 43%N
  else
    let sginv2 := foldr (fun x acc => Num.max (if eps < x then sq x^-1 else 0) acc) 0 sg in
    if svnrm2 (svsub (flatten Cimpl) (flatten (svd_solve_exec n k m U sg Vt eps B)))
       <= e2 * Num.max (sginv2 * sfro2 B) floor2 then 0%N else 44%N.

(* the implementation's Jacobian formula replayed on its own cached U and coefficients:
   column k = vec( U (U^T (W D_k C)) - W D_k C );  code 45+k: column k differs, 2 shapes *)
Definition jac_col_exec (n k : nat) (w : option (seq F)) (U Dk C : smx) : seq F :=
  let V := smul n (wscale w Dk) C in
  flatten (ssub (smul n U (smul k (strans n U) V)) V).

Definition check_jac_impl (cu2 floor2 : F) (n m : nat) (w : option (seq F)) (U : smx) (Ds : seq smx)
           (C J : smx) : nat :=
  let k := size U in
  let s := size C in
  if ~~ [&& wf n k U, wf m s C, all (wf n m) Ds & size J == size Ds] then 2%N else
  let e2 := cu2 * (n * m)%N%:R in
  let fix cols (i : nat) (Js : smx) (Dl : seq smx) : nat :=
    match Js, Dl with
    | jc :: Jr, Dk :: Dr =>
        let V := smul n (wscale w Dk) C in
        if size jc != (s * n)%N then 2%N
        else if svnrm2 (svsub jc (jac_col_exec n k w U Dk C)) <= e2 * Num.max (sfro2 V) floor2 then cols i.+1 Jr Dr
        else (45 + i)%N
    | _, _ => 0%N
    end in
  cols 0%N J Ds.

(* best fit of a result: Phi(alpha) * C (unweighted), n x s; code 0 ok, 2 shapes, 7 values *)
Definition check_bestfit (cu2 floor2 : F) (n m : nat) (Phi C BF : smx) : nat :=
  let s := size C in
  if ~~ [&& wf n m Phi, wf m s C & wf n s BF] then 2%N
  else if svnrm2 (svsub (flatten BF) (flatten (smul n Phi C)))
          <= cu2 * (n * m)%N%:R * Num.max (sfro2 Phi * sfro2 C) floor2 then 0%N
  else 7%N.

(* ---------------------------------------------------------------- fit statistics *)
(* model-function Jacobian [Phi | D_1 c | ... | D_p c] (n x (m+p)) *)
Definition mfj (n : nat) (Phi : smx) (Ds : seq smx) (c : seq F) : smx :=
  Phi ++ [seq lincomb n Dk c | Dk <- Ds].

Record stats_spec := {
  st_dof : nat;
  st_rw : seq F;            (* weighted residuals *)
  st_chi2 : F;              (* reduced chi^2 *)
  st_cov : smx;             (* covariance (m+p) x (m+p) *)
  st_sig2 : seq F;          (* j_i^T Cov j_i per sample, j_i a row of the unweighted [Phi | D_k c] *)
  st_k2 : F;                (* conditioning bound of H = W [Phi | D_k c] *)
}.

Definition spec_stats (n m p : nat) (w : option (seq F)) (Phi : smx) (Ds : seq smx)
           (y c : seq F) : option stats_spec :=
  if (n <= m + p)%N then None else
  let J := mfj n Phi Ds c in
  let H := wscale w J in
  let rw := svsub (wscalev w y) (lincomb n (wscale w Phi) c) in
  let dof := (n - (m + p))%N in
  let chi2 := svnrm2 rw / dof%:R in
  match inv_cert (m + p) (sgram n H) with
  | Some X =>
      let cov := sscale chi2 X in
      Some {| st_dof := dof; st_rw := rw; st_chi2 := chi2; st_cov := cov;
              st_sig2 := [seq svdot j (lincomb (m + p) cov j) | j <- strans n J];
              st_k2 := strace (sgram n H) * strace X |}
  | None => None
  end.

Record stats_obs := {
  sb_dof : nat; sb_rw : seq F; sb_chi2 : F; sb_rse : F; sb_cov : smx; sb_corr : smx;
  sb_lin_var : seq F; sb_nl_var : seq F; sb_usigma : seq F;
  sb_bands : seq (F * seq F);      (* (t quantile used, radius vector) per probability *)
}.

(* |a - b| <= rel * max(|b|, floor), tested on squares *)
Definition close1 (rel2 floor2 : F) (a b : F) : bool := sq (a - b) <= rel2 * Num.max (sq b) floor2.

(* The acceptance predicate for statistics checks the implementation's outputs against the
   DEFINING EQUATIONS of spec_stats instead of recomputing the inverse (which is expensive in exact
   arithmetic): Cov is accepted when (H^T H) Cov = chi2 * 1 holds up to rounding — by uniqueness of
   the inverse (Proofs/NumericP: inv_unique / spec_stats_covE) that equation characterises
   chi2 (H^T H)^-1; everything else is a product or a quotient by a small integer.
   codes: 0 ok, 1 under-determined (no statistics) or too ill-conditioned to compare, 20 dof, 21 weighted residuals, 22 chi2, 23 rse,
   24 covariance, 25 covariance not symmetric, 26 negative variance, 27 variance accessors,
   28 correlation, 29 confidence sigma, 30 band radius, 31 shapes *)
Definition check_stats (cu2 floor2 k2max : F) (n m p : nat) (w : option (seq F)) (Phi : smx)
           (Ds : seq smx) (y c : seq F) (o : stats_obs) : nat :=
  if (n <= m + p)%N then 1%N else
  let q := (m + p)%N in
  let J := mfj n Phi Ds c in
  let H := wscale w J in
  let rw := svsub (wscalev w y) (lincomb n (wscale w Phi) c) in
  let dof := (n - q)%N in
  let G := sgram n H in
  let e2 := cu2 * (n * q)%N%:R in
  let cov := sb_cov o in
  if sb_dof o != dof then 20%N
  else if ~~ [&& wf q q cov, wf q q (sb_corr o), size (sb_rw o) == n & size (sb_usigma o) == n] then 31%N
  else if ~~ (svnrm2 (svsub (sb_rw o) rw)
              <= e2 * Num.max (Num.max (svnrm2 (wscalev w y)) (sfro2 (wscale w Phi) * svnrm2 c)) floor2) then 21%N
  (* the weighted residuals are a difference of nearly equal numbers at a good fit: chi2 is compared with
     the implementation's own (already accepted) residual vector, so that cancellation is not held against it *)
  (* products / quotients / square roots of the implementation's own numbers: purely relative comparisons (no absolute floor — the
     statistics of data in tiny units are tiny, an absolute floor would make these tests vacuous there) *)
  else if ~~ close1 e2 0 (sb_chi2 o) (svnrm2 (sb_rw o) / dof%:R) then 22%N
  else if ~~ close1 e2 0 (sq (sb_rse o)) (sb_chi2 o) then 23%N
  (* conditioning of H^T H estimated from the implementation's covariance: ||G|| ||Cov|| / chi2; beyond k2max the
     rounding error of any inversion is of the order of the result: the defining equation, the symmetry and the signs
     are then not compared (the final code is 1), everything that is a plain function of the reported covariance still is *)
  else let illc := sq k2max * sq (sb_chi2 o) < sfro2 G * sfro2 cov in
  (* residual of the defining equation, relative to ||G|| ||Cov||, within the forward error bound u * kappa
     of a computed inverse *)
  if ~~ illc && ~~ (sfro2 (ssub (smul q G cov) (sscale (sb_chi2 o) (sident F q))) * sq (sb_chi2 o)
              <= e2 * (sfro2 G * sfro2 cov) * Num.max (sq (sb_chi2 o)) (sfro2 G * sfro2 cov)) then 24%N
  (* symmetric up to rounding: the asymmetry of a computed inverse grows with the condition number of H^T H,
     estimated by ||H^T H|| ||Cov|| / chi2 from the covariance just accepted *)
  else if ~~ illc && ~~ (sfro2 (ssub cov (strans q cov)) * sq (sb_chi2 o) <= e2 * (sfro2 G * sfro2 cov) * sfro2 cov) then 25%N
  else if ~~ illc && ~~ all (fun v => 0 <= v) (sdiagv cov) then 26%N
  else if ~~ ((sb_lin_var o == take m (sdiagv cov)) && (sb_nl_var o == drop m (sdiagv cov))) then 27%N
  (* correlation: r_ij^2 = c_ij^2 / (c_ii c_jj) with the sign of c_ij — a scale-free comparison (the covariance scales with
     the noise level, the correlation does not) *)
  else if ~~ all (fun ij =>
               let cii := nth 0 (sdiagv cov) ij.1 in
               let cjj := nth 0 (sdiagv cov) ij.2 in
               let cij := ent cov ij.1 ij.2 in
               let rij := ent (sb_corr o) ij.1 ij.2 in
               (cii * cjj <= 0) ||
               (close1 e2 floor2 (sq rij) (sq cij / (cii * cjj)) && (0 <= rij * cij) && (illc || (sq rij <= 1 + e2))))
             [seq (i, j) | i <- iota 0 q, j <- iota 0 q] then 28%N
  (* componentwise rounding bound of the quadratic form: |u^2 - j^T Cov j| <= e * sum_ab |j_a| |Cov_ab| |j_b| (a norm-wise bound
     would be vacuous when the columns of J are of very different size, e.g. data in tiny units) *)
  else if ~~ all (fun uj =>
               let s2 := svdot uj.2 (lincomb q cov uj.2) in
               let ja := [seq `|x| | x <- uj.2] in
               let s2a := svdot ja (lincomb q [seq [seq `|x| | x <- col] | col <- cov] ja) in
               (sq (sq uj.1 - s2) <= e2 * sq s2a) && (0 <= uj.1))
             (zip (sb_usigma o) (strans n J)) then 29%N
  else if ~~ all (fun b => (size b.2 == n) &&
               all (fun ru => close1 e2 0 ru.1 (b.1 * ru.2) && (0 <= ru.1)) (zip b.2 (sb_usigma o)))
             (sb_bands o) then 30%N
  else if illc then 1%N
  else 0%N.
(* the band relation alone (used for fits with many samples, where the full statistics check would be slow):
   radius_i = t * sigma_i, sigma_i >= 0; code 0 ok, 30 band, 31 shapes *)
Definition check_band (cu2 floor2 : F) (n : nat) (t : F) (usigma radius : seq F) : nat :=
  if ~~ ((size usigma == n) && (size radius == n)) then 31%N
  else if all (fun ru => close1 (cu2 * n%:R) 0 ru.1 (t * ru.2) && (0 <= ru.1) && (0 <= ru.2)) (zip radius usigma)
       then 0%N else 30%N.
End Numeric.
