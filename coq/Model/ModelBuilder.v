(* ModelBuilder.v — src/model/builder/mod.rs (SeparableModelBuilder), 
   src/model/builder/modelfunction_builder/mod.rs (ModelBasisFunctionBuilder),
   src/model/detail.rs (check_parameter_names, create_index_mapping, create_wrapped_basis_function,
   check_parameter_count), transcribed function by function.  Plain Coq, no axioms.

   Parameter names are an abstract type with decidable equality and a "contains a comma" test;
   user closures are an abstract type [Fn] of which only the arity (ARGUMENT_COUNT) matters here. *)
From Coq Require Import List Bool Arith Lia.
Import ListNotations.
Set Implicit Arguments.

Section ModelBuilder.
  Variables name Fn Fn0 X Sc : Type.
  (* Fn: parameter-dependent closures, Fn0: invariant closures, X: independent variable, Sc: scalars *)
  Variable name_eqb : name -> name -> bool.
  Variable has_comma : name -> bool.
  Variable arity : Fn -> nat.

  Inductive mberr :=
  | DuplicateParameterNames (l : list name)
  | EmptyParameters
  | FunctionParameterNotInModel (n : name)
  | InvalidDerivative (n : name) (fps : list name)
  | DuplicateDerivative (n : name)
  | MissingDerivative (n : name) (fps : list name)
  | EmptyModel
  | UnusedParameter (n : name)
  | IncorrectParameterCount (actual expected : nat)
  | CommaInParameterNameNotAllowed (n : name)
  | MissingX
  | MissingInitialParameters
  | IllegalCallToPartialDeriv.

  Definition mem (n : name) (l : list name) : bool := existsb (name_eqb n) l.

  Fixpoint uniq (l : list name) : bool :=
    match l with [] => true | x :: r => negb (mem x r) && uniq r end.

  (* detail.rs check_parameter_names *)
  Definition check_parameter_names (l : list name) : option mberr :=
    match l with
    | [] => Some EmptyParameters
    | _ => match find has_comma l with
           | Some n => Some (CommaInParameterNameNotAllowed n)
           | None => if uniq l then None else Some (DuplicateParameterNames l)
           end
    end.

  (* position of the first equal element *)
  Fixpoint position (n : name) (l : list name) : option nat :=
    match l with
    | [] => None
    | x :: r => if name_eqb x n then Some 0 else option_map S (position n r)
    end.

  (* detail.rs create_index_mapping: collect() of Results stops at the first error *)
  Fixpoint create_index_mapping (full subset : list name) : mberr + list nat :=
    match subset with
    | [] => inr []
    | s :: r =>
        match position s full with
        | None => inl (FunctionParameterNotInModel s)
        | Some i => match create_index_mapping full r with
                    | inl e => inl e
                    | inr l => inr (i :: l)
                    end
        end
    end.

  (* a wrapped closure: the user's closure together with the positions of its arguments in the
     model's parameter vector *)
  Record wfn := { w_map : list nat; w_fn : Fn }.

  (* detail.rs create_wrapped_basis_function (+ check_parameter_count) *)
  Definition create_wrapped (model_params fparams : list name) (f : Fn) : mberr + wfn :=
    match check_parameter_names model_params with
    | Some e => inl e
    | None =>
        match check_parameter_names fparams with
        | Some e => inl e
        | None =>
            if length fparams =? arity f then
              match create_index_mapping model_params fparams with
              | inl e => inl e
              | inr m => inr {| w_map := m; w_fn := f |}
              end
            else inl (IncorrectParameterCount (length fparams) (arity f))
        end
    end.

  (* model_basis_function.rs ModelBasisFunction: a function and its derivatives keyed by model
     parameter index (HashMap; insertion order kept here, keys are kept distinct by the builder) *)
  Inductive body := BWrapped (w : wfn) | BInvariant (f : Fn0).
  Record mfun := { f_body : body; f_derivs : list (nat * wfn) }.

  Definition has_key (k : nat) (d : list (nat * wfn)) : bool := existsb (fun p => fst p =? k) d.

  (* ---------------- ModelBasisFunctionBuilder ---------------- *)
  Record fbuilder := {
    fb_model_params : list name; fb_fparams : list name; fb_result : mberr + mfun }.

  Definition fb_new (model_params fparams : list name) (f : Fn) : fbuilder :=
    match check_parameter_names fparams with
    | Some e => {| fb_model_params := model_params; fb_fparams := fparams; fb_result := inl e |}
    | None =>
        {| fb_model_params := model_params; fb_fparams := fparams;
           fb_result := match create_wrapped model_params fparams f with
                        | inl e => inl e
                        | inr w => inr {| f_body := BWrapped w; f_derivs := [] |}
                        end |}
    end.

  (* index in the model parameter list of the first entry that is listed by the function and
     equals the requested name *)
  Fixpoint deriv_index (model_params fparams : list name) (pname : name) (i : nat) : option nat :=
    match model_params with
    | [] => None
    | mp :: r =>
        if mem mp fparams && name_eqb mp pname then Some i
        else deriv_index r fparams pname (S i)
    end.

  Definition fb_partial_deriv (fb : fbuilder) (pname : name) (d : Fn) : fbuilder :=
    match deriv_index (fb_model_params fb) (fb_fparams fb) pname 0 with
    | Some idx =>
        match fb_result fb with
        | inr mf =>
            match create_wrapped (fb_model_params fb) (fb_fparams fb) d with
            | inr w =>
                {| fb_model_params := fb_model_params fb; fb_fparams := fb_fparams fb;
                   fb_result := if has_key idx (f_derivs mf)
                                then inl (DuplicateDerivative pname)
                                else inr {| f_body := f_body mf;
                                            f_derivs := f_derivs mf ++ [(idx, w)] |} |}
            | inl e =>
                {| fb_model_params := fb_model_params fb; fb_fparams := fb_fparams fb;
                   fb_result := inl e |}
            end
        | inl _ => fb
        end
    | None =>
        {| fb_model_params := fb_model_params fb; fb_fparams := fb_fparams fb;
           fb_result := inl (InvalidDerivative pname (fb_fparams fb)) |}
    end.

  (* outcome of code that contains an explicit panic!() *)
  Inductive outcome (A : Type) := Panic | Fail (e : mberr) | Done (a : A).
  Arguments Panic {A}. Arguments Fail {A} e. Arguments Done {A} a.

  Fixpoint first_missing (mapping : list nat) (fparams : list name) (d : list (nat * wfn))
    : option name :=
    match mapping, fparams with
    | i :: mr, p :: pr => if has_key i d then first_missing mr pr d else Some p
    | _, _ => None
    end.

  Definition check_completion (fb : fbuilder) : outcome unit :=
    match fb_result fb with
    | inl _ => Done tt
    | inr mf =>
        match check_parameter_names (fb_model_params fb) with
        | Some e => Fail e
        | None =>
            match check_parameter_names (fb_fparams fb) with
            | Some e => Fail e
            | None =>
                match create_index_mapping (fb_model_params fb) (fb_fparams fb) with
                | inl e => Fail e
                | inr mapping =>
                    match first_missing mapping (fb_fparams fb) (f_derivs mf) with
                    | Some p => Fail (MissingDerivative p (fb_fparams fb))
                    | None =>
                        if length mapping =? length (f_derivs mf) then Done tt else Panic
                    end
                end
            end
        end
    end.

  Definition fb_build (fb : fbuilder) : outcome mfun :=
    match check_completion fb with
    | Panic => Panic
    | Fail e => Fail e
    | Done _ => match fb_result fb with inl e => Fail e | inr mf => Done mf end
    end.

  (* ---------------- SeparableModelBuilder ---------------- *)
  Record unfinished := {
    u_names : list name; u_funs : list mfun; u_x : option X; u_init : option (list Sc) }.

  Inductive sbuilder :=
  | SPanic                         (* a panic escaped a builder call *)
  | SError (e : mberr)
  | SNormal (m : unfinished)
  | SFunctionBuilding (m : unfinished) (fb : fbuilder).

  Definition sb_new (names : list name) : sbuilder :=
    match check_parameter_names names with
    | Some e => SError e
    | None => SNormal {| u_names := names; u_funs := []; u_x := None; u_init := None |}
    end.

  Definition push_fun (m : unfinished) (f : mfun) : unfinished :=
    {| u_names := u_names m; u_funs := u_funs m ++ [f]; u_x := u_x m; u_init := u_init m |}.

  (* extend_model, lifted to builder states: Self::from(extend_model(model, function_builder)) *)
  Definition finalize (m : unfinished) (fb : fbuilder) : sbuilder :=
    match fb_build fb with
    | Panic => SPanic
    | Fail e => SError e
    | Done f => SNormal (push_fun m f)
    end.

  Inductive mop :=
  | OFunction (fparams : list name) (f : Fn)
  | OPartialDeriv (pname : name) (d : Fn)
  | OInvariant (f : Fn0)
  | OIndepVar (x : X)
  | OInitParams (l : list Sc).

  (* one builder call in the Normal state *)
  Definition step_normal (m : unfinished) (o : mop) : sbuilder :=
    match o with
    | OFunction fps f => SFunctionBuilding m (fb_new (u_names m) fps f)
    | OPartialDeriv _ _ => SError IllegalCallToPartialDeriv
    | OInvariant f =>
        SNormal (push_fun m {| f_body := BInvariant f; f_derivs := [] |})
    | OIndepVar x =>
        SNormal {| u_names := u_names m; u_funs := u_funs m; u_x := Some x; u_init := u_init m |}
    | OInitParams l =>
        if length (u_names m) =? length l
        then SNormal {| u_names := u_names m; u_funs := u_funs m; u_x := u_x m; u_init := Some l |}
        else SError (IncorrectParameterCount (length l) (length (u_names m)))
    end.

  Definition step (s : sbuilder) (o : mop) : sbuilder :=
    match s with
    | SPanic => SPanic
    | SError e => SError e
    | SNormal m => step_normal m o
    | SFunctionBuilding m fb =>
        match o with
        | OPartialDeriv pname d => SFunctionBuilding m (fb_partial_deriv fb pname d)
        | _ => match finalize m fb with
               | SNormal m' => step_normal m' o
               | s' => s'
               end
        end
    end.

  (* the finished model: names, functions, x, current parameters *)
  Record smodel := {
    sm_names : list name; sm_funs : list mfun; sm_x : X; sm_params : list Sc }.

  Fixpoint first_unused (names : list name) (i : nat) (funs : list mfun) : option name :=
    match names with
    | [] => None
    | n :: r => if existsb (fun f => has_key i (f_derivs f)) funs then first_unused r (S i) funs
                else Some n
    end.

  (* TryInto<SeparableModel> for UnfinishedModel *)
  Definition try_into (m : unfinished) : outcome smodel :=
    match u_funs m with
    | [] => Fail EmptyModel
    | _ =>
        match u_names m with
        | [] => Fail EmptyParameters
        | _ =>
            match first_unused (u_names m) 0 (u_funs m) with
            | Some n => Fail (UnusedParameter n)
            | None =>
                match u_x m with
                | None => Fail MissingX
                | Some x =>
                    match u_init m with
                    | None => Fail MissingInitialParameters
                    | Some l => Done {| sm_names := u_names m; sm_funs := u_funs m;
                                        sm_x := x; sm_params := l |}
                    end
                end
            end
        end
    end.

  Definition sb_build (s : sbuilder) : outcome smodel :=
    match s with
    | SPanic => Panic
    | SError e => Fail e
    | SNormal m => try_into m
    | SFunctionBuilding m fb =>
        match finalize m fb with
        | SNormal m' => try_into m'
        | SError e => Fail e
        | _ => Panic
        end
    end.

  Definition run_builder (names : list name) (ops : list mop) : outcome smodel :=
    sb_build (fold_left step ops (sb_new names)).
End ModelBuilder.

Arguments BWrapped {Fn Fn0} w.
Arguments BInvariant {Fn Fn0} f.
Arguments OFunction {name Fn Fn0 X Sc} fparams f.
Arguments OPartialDeriv {name Fn Fn0 X Sc} pname d.
Arguments OInvariant {name Fn Fn0 X Sc} f.
Arguments OIndepVar {name Fn Fn0 X Sc} x.
Arguments OInitParams {name Fn Fn0 X Sc} l.
Arguments EmptyParameters {name}.
Arguments EmptyModel {name}.
Arguments IncorrectParameterCount {name} actual expected.
Arguments MissingX {name}.
Arguments MissingInitialParameters {name}.
Arguments IllegalCallToPartialDeriv {name}.
Arguments SPanic {name Fn Fn0 X Sc}.
Arguments SError {name Fn Fn0 X Sc} e.
Arguments SNormal {name Fn Fn0 X Sc} m.
Arguments SFunctionBuilding {name Fn Fn0 X Sc} m fb.
Arguments Panic {name A}.
Arguments Fail {name A} e.
Arguments Done {name A} a.
