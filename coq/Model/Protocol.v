(* Protocol.v — the fitting problem as a state machine over an arbitrary (possibly failing,
   possibly stateful) user model.  Mirrors src/solvers/levmar/mod.rs: LevMarProblem,
   set_params, params, residuals, jacobian (sequential flavour; the parallel flavour is
   related to it in Par.v).  Plain Coq, no axioms.

   Everything numeric is abstract here: [solve] is "weight the basis matrix, decompose it,
   solve against the weighted data and form the residual matrix"; [jaccol] is "one Jacobian
   column from the cache and one derivative matrix".  The numeric layer instantiates them;
   the protocol theorems hold for every instance. *)
From Coq Require Import List Bool Arith Lia.
Import ListNotations.
Set Implicit Arguments.

Section Protocol.
  Variables V Mx Cache Col W E : Type.
  (* V parameter vectors, Mx matrices, Cache = (residual matrix, svd, coefficients),
     Col a Jacobian column, W weights, E the singular value threshold *)
  Variable St : Type. (* state of the user's model, including whatever makes it fail *)

  (* the SeparableNonlinearModel trait as the problem sees it.  Every call may change the
     model's state (interior mutability, fault counters) and may fail. *)
  Record umodel := {
    um_set : St -> V -> St * bool;          (* set_params: new state, Ok? *)
    um_params : St -> V;                    (* params() *)
    um_eval : St -> St * option Mx;         (* eval(): None = Err *)
    um_deriv : St -> nat -> St * option Mx; (* eval_partial_deriv(k) *)
    um_nparams : St -> nat;                 (* parameter_count() *)
    um_nout : St -> nat;                    (* output_len() *)
  }.
  Variable um : umodel.

  Variable solve : W -> E -> Mx -> Mx -> option Cache. (* weights eps Phi Y_w *)
  Variable jaccol : W -> Cache -> Mx -> Col.           (* weights cache D_k *)

  Record problem := {
    p_st : St; p_Yw : Mx; p_eps : E; p_w : W; p_cached : option Cache }.

  (* mod.rs set_params as repaired (early return after a failed parameter application) *)
  Definition set_params (p : problem) (a : V) : problem :=
    let '(st1, ok) := um_set um (p_st p) a in
    if ok then
      let '(st2, phi) := um_eval um st1 in
      {| p_st := st2; p_Yw := p_Yw p; p_eps := p_eps p; p_w := p_w p;
         p_cached := match phi with
                     | Some f => solve (p_w p) (p_eps p) f (p_Yw p)
                     | None => None end |}
    else
      {| p_st := st1; p_Yw := p_Yw p; p_eps := p_eps p; p_w := p_w p; p_cached := None |}.

  (* the pinned tree's set_params: the cache is cleared on a failed application, but the
     function then carries on and recomputes from whatever parameters the model still holds *)
  Definition set_params_pinned (p : problem) (a : V) : problem :=
    let '(st1, _) := um_set um (p_st p) a in
    let '(st2, phi) := um_eval um st1 in
    {| p_st := st2; p_Yw := p_Yw p; p_eps := p_eps p; p_w := p_w p;
       p_cached := match phi with
                   | Some f => solve (p_w p) (p_eps p) f (p_Yw p)
                   | None => None end |}.

  Definition params (p : problem) : V := um_params um (p_st p).

  (* residuals() and linear_coefficients() are projections of the cache *)
  Definition cached (p : problem) : option Cache := p_cached p.

  (* columns k, k+1, ..., k+n-1; sequential iteration stops at the first failing derivative
     (collect::<Result<_,_>>() short-circuits) *)
  Fixpoint jac_cols (st : St) (w : W) (c : Cache) (k n : nat) : St * option (list Col) :=
    match n with
    | 0 => (st, Some [])
    | S n' =>
        let '(st1, d) := um_deriv um st k in
        match d with
        | None => (st1, None)
        | Some dk =>
            let '(st2, rest) := jac_cols st1 w c (S k) n' in
            (st2, match rest with Some r => Some (jaccol w c dk :: r) | None => None end)
        end
    end.

  Definition jacobian (p : problem) : problem * option (list Col) :=
    match p_cached p with
    | None => (p, None)
    | Some c =>
        let '(st1, j) := jac_cols (p_st p) (p_w p) c 0 (um_nparams um (p_st p)) in
        ({| p_st := st1; p_Yw := p_Yw p; p_eps := p_eps p; p_w := p_w p;
            p_cached := p_cached p |}, j)
    end.

  (* operations a caller (or the optimizer) can perform, and what each lets it observe *)
  Inductive op := OSet (a : V) | OObserve | OJac.
  Inductive obs :=
  | BSet
  | BObserve (a : V) (c : option Cache)
  | BJac (j : option (list Col)).

  Definition step (p : problem) (o : op) : problem * obs :=
    match o with
    | OSet a => (set_params p a, BSet)
    | OObserve => (p, BObserve (params p) (cached p))
    | OJac => let '(p', j) := jacobian p in (p', BJac j)
    end.

  Fixpoint run (p : problem) (os : list op) : problem * list obs :=
    match os with
    | [] => (p, [])
    | o :: os' =>
        let '(p1, b) := step p o in
        let '(p2, bs) := run p1 os' in (p2, b :: bs)
    end.
End Protocol.
Arguments OSet {V} a.
Arguments OObserve {V}.
Arguments OJac {V}.
Arguments BSet {V Cache Col}.
Arguments BObserve {V Cache Col} a c.
Arguments BJac {V Cache Col} j.
