(* Poison.v — uninitialised result matrices (src/model/mod.rs SeparableModel::eval,
   src/solvers/levmar/mod.rs jacobian): the matrix is allocated without initialisation
   (every cell "poison") and then overwritten column by column; a column is overwritten by
   copy_from, which panics unless the lengths agree. *)
From Coq Require Import List Bool Arith Lia.
Import ListNotations.
Set Implicit Arguments.

Section Poison.
  Variable A : Type.
  Definition cell := option A.            (* None = never written *)
  Definition uninit (n m : nat) : list (list cell) := repeat (repeat None n) m.

  (* column.copy_from(&v): None = panic on a length mismatch *)
  Definition copy_from (col : list cell) (v : list A) : option (list cell) :=
    if length col =? length v then Some (map Some v) else None.

  (* for (value, column) in values.zip(columns) { column.copy_from(value) }: columns beyond the
     shorter of the two sequences are left as they are *)
  Fixpoint fill (vals : list (list A)) (cols : list (list cell)) : option (list (list cell)) :=
    match vals, cols with
    | v :: vr, c :: cr =>
        match copy_from c v, fill vr cr with
        | Some c', Some r => Some (c' :: r)
        | _, _ => None
        end
    | _, _ => Some cols
    end.

  Definition clean (m : list (list cell)) : Prop :=
    Forall (fun c => Forall (fun x => x <> None) c) m.

  Lemma map_some_clean (v : list A) : Forall (fun x : cell => x <> None) (map Some v).
  Proof. induction v as [|a v IH]; cbn; constructor; [discriminate|exact IH]. Qed.

  (* if there is one value vector per column, nothing uninitialised survives *)
  Theorem fill_clean vals cols m :
    length vals = length cols -> fill vals cols = Some m -> clean m.
  Proof.
    revert cols m. induction vals as [|v vr IH]; intros [|c cr] m Hl; cbn [fill]; try discriminate.
    - intros H; inversion H; constructor.
    - destruct (copy_from c v) as [c'|] eqn:Hc; [|discriminate].
      destruct (fill vr cr) as [r|] eqn:Hr; [|discriminate].
      intros H; inversion H; subst. constructor.
      + unfold copy_from in Hc. destruct (length c =? length v); [|discriminate].
        inversion Hc; subst. apply map_some_clean.
      + eapply IH; [|exact Hr]. cbn in Hl. lia.
  Qed.

  (* shapes: the result has the allocated number of columns, each of the allocated length *)
  Theorem fill_shape n vals cols m :
    Forall (fun c => length c = n) cols -> fill vals cols = Some m ->
    length m = length cols /\ Forall (fun c => length c = n) m.
  Proof.
    revert cols m. induction vals as [|v vr IH]; intros [|c cr] m Hn; cbn [fill].
    - intros H; inversion H; auto.
    - intros H; inversion H; auto.
    - intros H; inversion H; auto.
    - destruct (copy_from c v) as [c'|] eqn:Hc; [|discriminate].
      destruct (fill vr cr) as [r|] eqn:Hr; [|discriminate].
      intros H; inversion H; subst. inversion Hn as [|? ? Hc0 Hcr]; subst.
      destruct (IH _ _ Hcr Hr) as [Hl Hf]. split; [cbn; lia|]. constructor; [|exact Hf].
      unfold copy_from in Hc. destruct (length c =? length v) eqn:E; [|discriminate].
      inversion Hc; subst. rewrite map_length. apply Nat.eqb_eq in E. lia.
  Qed.

  (* the allocation pattern of eval(): one column per basis function, filled from one value
     vector per basis function *)
  Corollary eval_alloc_clean n (vals : list (list A)) m :
    fill vals (uninit n (length vals)) = Some m -> clean m.
  Proof. apply fill_clean. unfold uninit. rewrite repeat_length. reflexivity. Qed.

  (* and it cannot panic when every value vector has the allocated length *)
  Theorem fill_total n vals :
    Forall (fun v => length v = n) vals -> exists m, fill vals (uninit n (length vals)) = Some m.
  Proof.
    induction vals as [|v vr IH]; intros Hf; cbn.
    - eexists; reflexivity.
    - inversion Hf as [|? ? Hv Hr]; subst. destruct (IH Hr) as [m Hm].
      unfold uninit in Hm. rewrite Hm. unfold copy_from. rewrite repeat_length, Nat.eqb_refl.
      eexists; reflexivity.
  Qed.
End Poison.
