(* ProblemBuilder.v — src/solvers/levmar/builder.rs: LevMarProblemBuilder::{new, new_parallel,
   mrhs, mrhs_parallel, observations, weights, epsilon, build}.  The four constructors create
   the same empty builder (they differ in const generics only), so one model serves all. *)
From Coq Require Import List Bool Arith Lia.
Import ListNotations.
From VP Require Import Model.Protocol.
Set Implicit Arguments.

Section Builder.
  Variables V Mx Cache Col Wv E St : Type.
  Variable um : umodel V Mx St.
  Variable solve : option Wv -> E -> Mx -> Mx -> option Cache.
  Variables (rows cols : Mx -> nat) (wlen : Wv -> nat).
  Variable wmul : option Wv -> Mx -> Mx.  (* &weights * Y; None = Weights::Unit *)
  Variables (eabs : E -> E) (edefault : E). (* Float::abs, Float::epsilon() *)

  Inductive bop := BObs (y : Mx) | BWeights (w : Wv) | BEps (e : E).
  Record bstate := { bY : option Mx; bW : option Wv; bE : option E }.
  Definition binit : bstate := {| bY := None; bW := None; bE := None |}.

  Definition bstep (s : bstate) (o : bop) : bstate :=
    match o with
    | BObs y => {| bY := Some y; bW := bW s; bE := bE s |}
    | BWeights w => {| bY := bY s; bW := Some w; bE := bE s |}
    | BEps e => {| bY := bY s; bW := bW s; bE := Some (eabs e) |}
    end.
  Definition bfold (os : list bop) : bstate := fold_left bstep os binit.

  Inductive berr :=
  | YDataMissing | ZeroLengthVector
  | InvalidLengthOfData (x_length y_length : nat) | InvalidLengthOfWeights.

  (* the validation sequence of build(), in the code's order *)
  Definition validate (nout : nat) (s : bstate) : option berr :=
    match bY s with
    | None => Some YDataMissing
    | Some y =>
        if (nout =? 0) || (rows y * cols y =? 0) then Some ZeroLengthVector
        else if negb (nout =? rows y) then Some (InvalidLengthOfData nout (rows y))
        else match bW s with
             | Some w => if wlen w =? rows y then None else Some InvalidLengthOfWeights
             | None => None
             end
    end.

  Definition eps_of (s : bstate) : E := match bE s with Some e => e | None => edefault end.

  Definition build (st : St) (s : bstate) : berr + problem Mx Cache (option Wv) E St :=
    match validate (um_nout um st) s with
    | Some e => inl e
    | None =>
        match bY s with
        | None => inl YDataMissing (* unreachable: validate caught it *)
        | Some y =>
            inr (set_params um solve
                   {| p_st := st; p_Yw := wmul (bW s) y; p_eps := eps_of s; p_w := bW s;
                      p_cached := None |}
                   (um_params um st))
        end
    end.

  Definition build_ops (st : St) (os : list bop) := build st (bfold os).

  (* the declarative acceptance condition, written from the documentation / property text *)
  Definition consistent (nout : nat) (s : bstate) : Prop :=
    exists y, bY s = Some y /\ 0 < nout /\ 0 < rows y * cols y /\ rows y = nout /\
              (forall w, bW s = Some w -> wlen w = rows y).

  (* last occurrence of each kind of call *)
  Fixpoint last_obs (os : list bop) (acc : option Mx) : option Mx :=
    match os with [] => acc | BObs y :: r => last_obs r (Some y) | _ :: r => last_obs r acc end.
  Fixpoint last_w (os : list bop) (acc : option Wv) : option Wv :=
    match os with [] => acc | BWeights w :: r => last_w r (Some w) | _ :: r => last_w r acc end.
  Fixpoint last_eps (os : list bop) (acc : option E) : option E :=
    match os with [] => acc | BEps e :: r => last_eps r (Some (eabs e)) | _ :: r => last_eps r acc end.
End Builder.
Arguments BObs {Mx Wv E} y.
Arguments BWeights {Mx Wv E} w.
Arguments BEps {Mx Wv E} e.
