(* Replay.v — a user model that answers from a recorded log of calls.  The correspondence
   check instantiates the protocol with it: the harness records every call the real library
   made on the real model (and the answers); the model must make exactly the same calls in
   the same order, otherwise [r_bad] is raised. *)
From Coq Require Import List Bool Arith Lia.
Import ListNotations.
From VP Require Import Model.Protocol.
Set Implicit Arguments.

Section Replay.
  Variables V Mx : Type.
  Variable veqb : V -> V -> bool.

  Inductive lentry :=
  | LS (a : V) (ok : bool) (after : V)   (* set_params(a) -> ok; params() afterwards *)
  | LE (r : option Mx)                   (* eval() *)
  | LD (k : nat) (r : option Mx).        (* eval_partial_deriv(k) *)

  Record rstate := {
    r_log : list lentry; r_cur : V; r_bad : bool; r_np : nat; r_nout : nat }.

  Definition with_log (st : rstate) (l : list lentry) (cur : V) : rstate :=
    {| r_log := l; r_cur := cur; r_bad := r_bad st; r_np := r_np st; r_nout := r_nout st |}.
  Definition spoil (st : rstate) : rstate :=
    {| r_log := []; r_cur := r_cur st; r_bad := true; r_np := r_np st; r_nout := r_nout st |}.

  Definition replay_model : umodel V Mx rstate := {|
    um_set st a :=
      match r_log st with
      | LS a' ok after :: rest =>
          if veqb a a' then (with_log st rest after, ok) else (spoil st, false)
      | _ => (spoil st, false)
      end;
    um_params st := r_cur st;
    um_eval st :=
      match r_log st with
      | LE r :: rest => (with_log st rest (r_cur st), r)
      | _ => (spoil st, None)
      end;
    um_deriv st k :=
      match r_log st with
      | LD k' r :: rest =>
          if k =? k' then (with_log st rest (r_cur st), r) else (spoil st, None)
      | _ => (spoil st, None)
      end;
    um_nparams st := r_np st;
    um_nout st := r_nout st;
  |}.

  (* the log was consumed exactly *)
  Definition replay_clean (st : rstate) : bool :=
    negb (r_bad st) && match r_log st with [] => true | _ => false end.
End Replay.
Arguments replay_model {V Mx} veqb.
Arguments LE {V Mx} r.
Arguments LD {V Mx} k r.
Arguments LS {V Mx} a ok after.
