(* Par.v — the parallel Jacobian (src/solvers/levmar/mod.rs, impl for PARALLEL_YES): rayon hands each
   column of the uninitialised matrix to exactly one task; a task computes its column from immutable
   state and writes its cells.  A schedule is ANY ordering of all the cell writes of all tasks
   (every work-stealing order of the tasks and every interleaving of their writes is one). *)
From Coq Require Import List Bool Arith Lia Permutation.
Import ListNotations.
Set Implicit Arguments.

Section Par.
  Variable A : Type.
  Definition addr := (nat * nat)%type.              (* (column, row) *)
  Definition wr := (addr * A)%type.
  Definition mem := nat -> nat -> option A.         (* None: never written *)
  Definition empty : mem := fun _ _ => None.

  Definition write (m : mem) (w : wr) : mem :=
    fun k i => if (k =? fst (fst w)) && (i =? snd (fst w)) then Some (snd w) else m k i.
  Definition apply (ws : list wr) (m : mem) : mem := fold_left write ws m.

  (* the writes of the task for column k whose values are [col] *)
  Fixpoint task_from (k i : nat) (col : list A) : list wr :=
    match col with [] => [] | v :: r => ((k, i), v) :: task_from k (S i) r end.
  Definition task (k : nat) (col : list A) : list wr := task_from k 0 col.

  Fixpoint tasks_from (k : nat) (cols : list (list A)) : list wr :=
    match cols with [] => [] | c :: r => task k c ++ tasks_from (S k) r end.
  (* the sequential flavour: column 0, then column 1, ... each top to bottom *)
  Definition sequential (cols : list (list A)) : list wr := tasks_from 0 cols.

  (* what the sequential flavour leaves in memory *)
  Definition expected (cols : list (list A)) : mem :=
    fun k i => match nth_error cols k with Some c => nth_error c i | None => None end.

  (* outcome of the fallible version: any failing task makes the whole Jacobian absent, whichever
     tasks ran and in whatever order *)
  Definition collect (outs : list (option (list A))) : option (list (list A)) :=
    fold_right (fun o acc => match o, acc with Some c, Some r => Some (c :: r) | _, _ => None end)
               (Some []) outs.
End Par.
