(* LMDriver.v — the optimizer as the fitting problem sees it, and LevMarSolver::fit.
   levenberg-marquardt 0.14 (src/lm.rs: LM::new, minimize, update_diag, trust_region_iteration,
   reset_params_if) calls the problem in a fixed pattern; its numerical decisions (which trial
   point, accept or reject, when and why to stop) are an oracle: a *script*.  The driver below
   performs, for ANY script, exactly the calls lm.rs performs, so theorems about it hold for
   every sequence of accepted and rejected steps.  src/solvers/levmar/mod.rs: fit,
   fit_with_statistics (statistics as an abstract function), FitResult accessors. *)
From Coq Require Import List Bool Arith Lia.
Import ListNotations.
From VP Require Import Model.Protocol.
Set Implicit Arguments.

(* TerminationReason; the &'static str payloads are irrelevant *)
Inductive reason :=
| User | Numerical | ResidualsZero | Orthogonal | Converged (ftol xtol : bool)
| NoImprovementPossible | LostPatience | NoParameters | NoResiduals | WrongDimensions.

(* TerminationReason::was_successful *)
Definition successful (r : reason) : bool :=
  match r with ResidualsZero | Orthogonal | Converged _ _ => true | _ => false end.

Section Driver.
  Variables V Mx Cache Col W E St : Type.
  Variable um : umodel V Mx St.
  Variable solve : W -> E -> Mx -> Mx -> option Cache.
  Variable jaccol : W -> Cache -> Mx -> Col.
  Notation problem := (problem Mx Cache W E St).

  (* one decision of the optimizer *)
  Inductive choice :=
  | CBegin
    (* LM::new found nothing to stop for: the iteration starts (only meaningful as the first
       choice, and only needed when no trial follows) *)
  | CStop (r : reason)
    (* stop without touching the problem: in LM::new (NoParameters, NoResiduals, Numerical,
       ResidualsZero), after a Jacobian (update_diag: Orthogonal, Numerical; WrongDimensions), or
       before a trial (Numerical) *)
  | CTrial (a : V) (good : bool) (stop : option reason).
    (* trust_region_iteration: set_params(a); residuals(); the step is accepted iff [good];
       if [stop = Some r] the iteration ends with r after reset_params_if(!good) *)

  (* ghost instrumentation: [dec c' c] decides "the objective of c' is strictly below that of c";
     it only feeds the ghost flag [decreased] and never influences control flow *)
  Variable dec : Cache -> Cache -> bool.

  Record report := {
    termination : reason;
    evaluations : nat;              (* number_of_evaluations *)
    objective_at : option V;        (* the parameters whose residuals the reported objective
                                       belongs to; None: objective is NaN (no residuals at start) *)
    (* ghost fields *)
    objective_cache : option Cache; (* the cached state the reported objective was computed from *)
    updates : nat;                  (* set_params calls made by the optimizer *)
    decreased : bool;               (* every accepted step strictly decreased the objective *)
  }.

  Inductive phase := NeedJacobian | InTrials.

  Definition stop_reason (ph : phase) (r : reason) : reason :=
    (* between two trials of one batch lm.rs can only stop for numerical reasons *)
    match ph with NeedJacobian => r | InTrials => Numerical end.

  (* fuel = length of the script; running out of script is reported as [None].
     x / cx: the last accepted parameters and the cache they produced; ups: set_params calls so
     far; ok: ghost flag *)
  Fixpoint drive (script : list choice) (ph : phase) (p : problem) (x : V) (cx : Cache)
           (evals ups : nat) (ok : bool) : option (problem * report) :=
    (* the outer loop requests the Jacobian before the next batch of trials *)
    let '(p0, jac_ok) :=
      match ph with
      | NeedJacobian => let '(p1, j) := jacobian um jaccol p in
                        (p1, match j with Some _ => true | None => false end)
      | InTrials => (p, true)
      end in
    let rep r ev u := {| termination := r; evaluations := ev; objective_at := Some x;
                         objective_cache := Some cx; updates := u; decreased := ok |} in
    if negb jac_ok then Some (p0, rep User evals ups)
    else
      match script with
      | [] => None
      | CBegin :: _ => None
      | CStop r :: _ => Some (p0, rep (stop_reason ph r) evals ups)
      | CTrial a good stop :: rest =>
          let p1 := set_params um solve p0 a in
          let evals1 := S evals in
          match p_cached p1 with
          | None => Some (p1, rep User evals1 (S ups))
          | Some c1 =>
              let x1 := if good then a else x in
              let cx1 := if good then c1 else cx in
              let ok1 := if good then ok && dec c1 cx else ok in
              match stop with
              | Some r =>
                  let p2 := if good then p1 else set_params um solve p1 x in
                  Some (p2, {| termination := r; evaluations := evals1; objective_at := Some x1;
                               objective_cache := Some cx1;
                               updates := if good then S ups else S (S ups); decreased := ok1 |})
              | None =>
                  drive rest (if good then NeedJacobian else InTrials) p1 x1 cx1 evals1 (S ups) ok1
              end
          end
      end.

  (* LevenbergMarquardt::minimize *)
  Definition minimize (script : list choice) (p : problem) : option (problem * report) :=
    let x := params um p in
    match p_cached p with
    | None => Some (p, {| termination := User; evaluations := 1; objective_at := None;
                          objective_cache := None; updates := 0; decreased := true |})
    | Some c =>
        match script with
        | CStop r :: _ =>
            Some (p, {| termination := r; evaluations := 1; objective_at := Some x;
                        objective_cache := Some c; updates := 0; decreased := true |})
        | CBegin :: rest => drive rest NeedJacobian p x c 1 0 true
        | _ => drive script NeedJacobian p x c 1 0 true
        end
    end.

  (* LevMarSolver::fit: into_sequential is the identity on the state; Ok iff was_successful *)
  Inductive fit_result := FitOk (p : problem) (r : report) | FitErr (p : problem) (r : report).

  Definition fit (script : list choice) (p : problem) : option fit_result :=
    match minimize script p with
    | None => None
    | Some (p', r) => Some (if successful (termination r) then FitOk p' r else FitErr p' r)
    end.

  (* LevMarSolver::fit_with_statistics, statistics abstract: [stats p] = None stands for any
     statistics error (under-determined, model error, singular matrix) *)
  Variable Stats : Type.
  Variable stats : problem -> Cache -> problem * option Stats.

  Inductive fit_stats_result :=
  | FSOk (p : problem) (r : report) (s : Stats)
  | FSErr (p : problem) (r : report).

  Definition fit_with_statistics (script : list choice) (p : problem) : option fit_stats_result :=
    match fit script p with
    | None => None
    | Some (FitErr p' r) => Some (FSErr p' r)
    | Some (FitOk p' r) =>
        match p_cached p' with
        | None => Some (FSErr p' r)
        | Some c =>
            let '(p2, s) := stats p' c in
            match s with
            | Some s' => Some (FSOk p2 r s')
            | None => Some (FSErr p2 r)
            end
        end
    end.
End Driver.

Arguments CBegin {V}.
Arguments CStop {V} r.
Arguments CTrial {V} a good stop.
