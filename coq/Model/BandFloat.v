(* The floating-point step of FitStatistics::confidence_band_radius that the exact model (Model/Numeric.v) cannot
   express: the argument handed to the Student-t quantile,

       distrs::StudentsT::ppf((probability.into_f64() + 1.) / 2., dof)          (src/statistics/mod.rs:284-287)

   is formed in IEEE-754 binary64, round to nearest even, after the assertion 0 < p < 1 (p finite) on the model's
   scalar type (binary64 or binary32; into_f64 is the exact widening conversion). Flocq's executable binary64 /
   binary32 operations are the model; the correspondence run compares qarg64 / qarg32 bit for bit with the hook-free
   implementation (the harness reports the quantile argument's effect through the radius: +inf iff the argument is 1). *)
From Coq Require Import ZArith Reals Bool.
From Flocq Require Import Core IEEE754.BinarySingleNaN IEEE754.Binary IEEE754.Bits.

Definition f64_zero : binary64 := b64_of_bits 0.
Definition f64_one : binary64 := b64_of_bits 0x3FF0000000000000.
Definition f64_two : binary64 := b64_of_bits 0x4000000000000000.
Definition f32_zero : binary32 := b32_of_bits 0.
Definition f32_one : binary32 := b32_of_bits 0x3F800000.

(* (p + 1.) / 2. *)
Definition qarg64 (p : binary64) : binary64 := b64_div mode_NE (b64_plus mode_NE p f64_one) f64_two.

(* f32 -> f64 is exact (every binary32 number is a binary64 number); NaN payloads are irrelevant (p is finite) *)
Definition f32_to_f64 (p : binary32) : binary64 :=
  match p with
  | B754_zero _ _ s => B754_zero 53 1024 s
  | B754_infinity _ _ s => B754_infinity 53 1024 s
  | B754_nan _ _ _ _ _ => proj1_sig default_nan_pl64
  | B754_finite _ _ s m e _ =>
      binary_normalize 53 1024 (eq_refl _) (eq_refl _) mode_NE (cond_Zopp s (Zpos m)) e s
  end.
Definition qarg32 (p : binary32) : binary64 := qarg64 (f32_to_f64 p).

(* the documented assertion: finite and strictly between 0 and 1 *)
Definition prob_ok64 (p : binary64) : bool :=
  is_finite 53 1024 p &&
  match b64_compare f64_zero p, b64_compare p f64_one with Some Lt, Some Lt => true | _, _ => false end.
Definition prob_ok32 (p : binary32) : bool :=
  is_finite 24 128 p &&
  match b32_compare f32_zero p, b32_compare p f32_one with Some Lt, Some Lt => true | _, _ => false end.

(* the largest double below one *)
Definition f64_pred_one : binary64 := b64_of_bits 0x3FEFFFFFFFFFFFFF.

(* bit-level views used by the correspondence run *)
Definition qarg64_bits (pbits : Z) : Z := bits_of_b64 (qarg64 (b64_of_bits pbits)).
Definition qarg32_bits (pbits : Z) : Z := bits_of_b64 (qarg32 (b32_of_bits pbits)).
