(* Stats.v — control flow and machine-integer arithmetic of src/statistics/mod.rs
   FitStatistics::try_calculate (the numeric content is in Model/Numeric.v: spec_stats), and its
   use by LevMarSolver::fit_with_statistics.  usize arithmetic depends on the build profile:
   with overflow checks (dev) an underflowing subtraction panics, without (release) it wraps. *)
From Coq Require Import List Bool Arith NArith Lia.
Import ListNotations.
Set Implicit Arguments.

Inductive profile := Debug | Release.
Inductive ures := UPanic | UVal (n : N).

(* usize subtraction on a 64-bit target *)
Definition usub (pr : profile) (a b : N) : ures :=
  if (b <=? a)%N then UVal (a - b)
  else match pr with Debug => UPanic | Release => UVal (2 ^ 64 + a - b) end.

Inductive serr := ModelEvaluation | Underdetermined | IntegerToFloatConversion | MatrixInversion.
Inductive sout (A : Type) := SPanic | SErr (e : serr) | SOk (a : A).
Arguments SPanic {A}. Arguments SErr {A} e. Arguments SOk {A} a.

Section TryCalculate.
  (* answers of the calls try_calculate makes: model_function_jacobian (P derivative calls, one
     evaluation), a second evaluation for the weighted residuals, the matrix inversion *)
  Variables (jac_ok eval_ok inv_ok : bool).

  (* the statement order of the pinned tree: the subtraction precedes the guard *)
  Definition try_calculate_pinned (pr : profile) (n m p : N) : sout N :=
    if negb jac_ok then SErr ModelEvaluation
    else if negb eval_ok then SErr ModelEvaluation
    else
      let total := (p + m)%N in
      match usub pr n total with
      | UPanic => SPanic
      | UVal dof =>
          if (n <=? total)%N then SErr Underdetermined
          else if negb inv_ok then SErr MatrixInversion
          else SOk dof
      end.

  (* the repaired order: guard first *)
  Definition try_calculate (pr : profile) (n m p : N) : sout N :=
    if negb jac_ok then SErr ModelEvaluation
    else if negb eval_ok then SErr ModelEvaluation
    else
      let total := (p + m)%N in
      if (n <=? total)%N then SErr Underdetermined
      else
        match usub pr n total with
        | UPanic => SPanic
        | UVal dof => if negb inv_ok then SErr MatrixInversion else SOk dof
        end.
End TryCalculate.

(* fit_with_statistics: Ok((fit result, statistics)) iff the fit is Ok, coefficients are present
   and try_calculate is Ok; every other case hands back the fit result as Err *)
Inductive fws := FWSPanic | FWSOk (dof : N) | FWSErr.
Definition fit_with_statistics_outcome (pr : profile) (fit_ok has_coef : bool)
           (jac_ok eval_ok inv_ok : bool) (n m p : N) : fws :=
  if negb fit_ok then FWSErr
  else if negb has_coef then FWSErr
  else match try_calculate jac_ok eval_ok inv_ok pr n m p with
       | SPanic => FWSPanic
       | SErr _ => FWSErr
       | SOk dof => FWSOk dof
       end.

(* ---- proofs ---- *)
Lemma usub_ok pr a b : (b <= a)%N -> usub pr a b = UVal (a - b).
Proof. intros Hle. unfold usub. destruct (N.leb_spec b a); [reflexivity|lia]. Qed.

(* C12: no panic in any build profile, for any relation between N, M and P *)
Theorem try_calculate_no_panic jac_ok eval_ok inv_ok pr n m p :
  try_calculate jac_ok eval_ok inv_ok pr n m p <> SPanic.
Proof.
  unfold try_calculate. destruct jac_ok, eval_ok; cbn; try discriminate.
  destruct (N.leb_spec n (p + m)) as [Hle|Hlt]; [discriminate|].
  rewrite usub_ok by lia. destruct inv_ok; discriminate.
Qed.

Theorem try_calculate_profile_independent jac_ok eval_ok inv_ok n m p :
  try_calculate jac_ok eval_ok inv_ok Debug n m p = try_calculate jac_ok eval_ok inv_ok Release n m p.
Proof.
  unfold try_calculate. destruct jac_ok, eval_ok; cbn; try reflexivity.
  destruct (N.leb_spec n (p + m)) as [Hle|Hlt]; [reflexivity|]. rewrite !usub_ok by lia. reflexivity.
Qed.

(* success implies N > M + P and the degrees of freedom are N - M - P *)
Theorem try_calculate_ok jac_ok eval_ok inv_ok pr n m p dof :
  try_calculate jac_ok eval_ok inv_ok pr n m p = SOk dof ->
  (m + p < n)%N /\ dof = (n - m - p)%N /\ jac_ok = true /\ eval_ok = true /\ inv_ok = true.
Proof.
  unfold try_calculate. destruct jac_ok, eval_ok; cbn; try discriminate.
  destruct (N.leb_spec n (p + m)) as [Hle|Hlt]; [discriminate|]. rewrite usub_ok by lia.
  destruct inv_ok; cbn; [|discriminate]. intros Heq; inversion Heq. repeat split; lia.
Qed.

Theorem try_calculate_underdetermined inv_ok pr n m p :
  (n <= m + p)%N -> try_calculate true true inv_ok pr n m p = SErr Underdetermined.
Proof. intros Hle. unfold try_calculate. cbn. destruct (N.leb_spec n (p + m)) as [H1|H1]; [reflexivity|lia]. Qed.

Theorem try_calculate_model_error inv_ok pr n m p jac_ok eval_ok :
  jac_ok && eval_ok = false -> try_calculate jac_ok eval_ok inv_ok pr n m p = SErr ModelEvaluation.
Proof. unfold try_calculate. destruct jac_ok, eval_ok; cbn; intros H; try discriminate; reflexivity. Qed.

(* the pinned statement order panics in overflow-checked builds (kept as documentation of the
   finding; the witness is N = 2, M = 2, P = 1) and silently wraps in release builds *)
Theorem try_calculate_pinned_refuted :
  exists n m p, try_calculate_pinned true true true Debug n m p = SPanic.
Proof. exists 2%N, 2%N, 1%N. reflexivity. Qed.

Theorem try_calculate_pinned_panics_iff inv_ok n m p :
  try_calculate_pinned true true inv_ok Debug n m p = SPanic <-> (n < m + p)%N.
Proof.
  unfold try_calculate_pinned. cbn. unfold usub.
  destruct (N.leb_spec (p + m) n) as [H|H].
  - split; [|lia]. destruct (n <=? p + m)%N; [discriminate|]. destruct inv_ok; discriminate.
  - split; [lia|reflexivity].
Qed.

Theorem fit_with_statistics_no_panic pr fit_ok has_coef jac_ok eval_ok inv_ok n m p :
  fit_with_statistics_outcome pr fit_ok has_coef jac_ok eval_ok inv_ok n m p <> FWSPanic.
Proof.
  unfold fit_with_statistics_outcome. destruct fit_ok, has_coef; cbn; try discriminate.
  pose proof (@try_calculate_no_panic jac_ok eval_ok inv_ok pr n m p) as H.
  destruct (try_calculate jac_ok eval_ok inv_ok pr n m p); [tauto|discriminate|discriminate].
Qed.

Theorem fit_with_statistics_ok pr fit_ok has_coef jac_ok eval_ok inv_ok n m p dof :
  fit_with_statistics_outcome pr fit_ok has_coef jac_ok eval_ok inv_ok n m p = FWSOk dof ->
  fit_ok = true /\ has_coef = true /\ (m + p < n)%N /\ dof = (n - m - p)%N /\
  jac_ok = true /\ eval_ok = true /\ inv_ok = true.
Proof.
  unfold fit_with_statistics_outcome. destruct fit_ok, has_coef; cbn; try discriminate.
  destruct (try_calculate jac_ok eval_ok inv_ok pr n m p) eqn:H; try discriminate.
  intros E; inversion E; subst. apply try_calculate_ok in H. tauto.
Qed.

Theorem fit_with_statistics_err pr fit_ok has_coef jac_ok eval_ok inv_ok n m p :
  (fit_ok = false \/ has_coef = false \/ (n <= m + p)%N \/ jac_ok && eval_ok = false \/ inv_ok = false) ->
  fit_with_statistics_outcome pr fit_ok has_coef jac_ok eval_ok inv_ok n m p = FWSErr.
Proof.
  unfold fit_with_statistics_outcome. intros H.
  destruct fit_ok; cbn; [|reflexivity]. destruct has_coef; cbn; [|reflexivity].
  destruct (try_calculate jac_ok eval_ok inv_ok pr n m p) eqn:E; [|reflexivity|].
  - exfalso. eapply try_calculate_no_panic; eassumption.
  - exfalso. apply try_calculate_ok in E. destruct E as (A & _ & B & C & D). subst.
    destruct H as [H|[H|[H|[H|H]]]]; try discriminate. lia.
Qed.
